(* Completeness of Marlin-PST13's batch flows at the trait level: the proofs of batch_open (the trait default: one open per
   point-label group on the shared challenge tape) are accepted by PST13's own batch_check (one pairing product on the
   randomizer-weighted sums) for the true evaluations, whatever randomizers the verifier draws. *)
From Coq Require Import List Arith NArith Bool Lia Field Ring.
From PC Require Import Base.Field Base.Result Base.Poly Base.OrdMap Proofs.PolyFacts Schemes.PST13 Proofs.PST13Facts Schemes.LC Schemes.Marlin
     Schemes.IPA Proofs.LCFacts Proofs.IPAFacts Schemes.PST13H Proofs.PST13HFacts Schemes.DefaultBatch Schemes.PST13Batch
     Proofs.PST13BatchFacts Proofs.DefaultBatchFacts Proofs.DefaultBatchComplete.
Import ListNotations.
Open Scope F_scope.

(* every group of a grouped query set has at least one label *)
Lemma insert_label_nonempty' l ls : insert_label l ls <> [].
Proof. destruct ls as [|y t]; cbn [insert_label]; [discriminate|]. destruct (N.compare l y); discriminate. Qed.
Lemma insert_group_nonempty {FO : FieldOps} pl pt l : forall m : list (N * (point * list N)),
  Forall (fun g => snd (snd g) <> []) m -> Forall (fun g => snd (snd g) <> []) (insert_group pl pt l m).
Proof.
  induction m as [|[k [p0 ls]] t IH]; intros H; cbn [insert_group].
  - constructor; [cbn; discriminate|constructor].
  - inversion H as [|? ? H1 H2]; subst. destruct (N.compare pl k).
    + constructor; [cbn [snd]; apply insert_label_nonempty'|exact H2].
    + constructor; [cbn; discriminate|exact H].
    + constructor; [exact H1|apply IH; exact H2].
Qed.
Lemma groups_all_nonempty {FO : FieldOps} (qs : list query) : Forall (fun g => snd (snd g) <> []) (groups qs).
Proof.
  unfold groups. assert (G : forall qs (m : list (N * (point * list N))), Forall (fun g => snd (snd g) <> []) m ->
    Forall (fun g => snd (snd g) <> []) (fold_left (fun m0 q => insert_group (fst (snd q)) (snd (snd q)) (fst q) m0) qs m)).
  { induction qs0 as [|q t IH]; intros m Hm; cbn [fold_left]; [exact Hm|]. apply IH. apply insert_group_nonempty. exact Hm. }
  apply G. constructor.
Qed.

Section PST13BatchComplete.
  Context {FO : FieldOps} {FL : FieldLaws FO}.
  Add Field Ffield50 : FL_field.
  Variables (nv s : nat) (betas : list F).

  Definition pR (it : PItem) (c : gv) : Prop := good nv it /\ forall i, co i c = co i (comm_of betas it).
  Definition pvalue (it : PItem) (pt : point) : F := eval_mpoly pt (fst it).

  Lemma ph_open_witnesses items z chal pf rest : items <> [] ->
    ph_open nv s betas items z chal = Ok (pf, rest) -> length (pp_w pf) = nv.
  Proof.
    intros Hne H. unfold ph_open in H.
    destruct (ph_open_loop s items chal [] []) as [[[p r] rest']| |]; cbn [bind] in H; try discriminate.
    injection H as <- _. cbn [pp_w]. rewrite map_length, seq_length.
    destruct items; [contradiction|]. unfold divide_at_point. rewrite divide_loop_length, seq_length. reflexivity.
  Qed.

  (* ph_acc only looks at the coordinates of the commitments *)
  Lemma ph_acc_co : forall cs1 cs2 vs chal cc1 cc2 cv,
    Forall2 (fun a b => forall i, co i a = co i b) cs1 cs2 -> (forall i, co i cc1 = co i cc2) ->
    forall c1 v1 r1, ph_acc cs1 vs chal cc1 cv = Ok (c1, v1, r1) ->
    exists c2, ph_acc cs2 vs chal cc2 cv = Ok (c2, v1, r1) /\ forall i, co i c1 = co i c2.
  Proof.
    induction cs1 as [|a cs1 IH]; intros cs2 vs chal cc1 cc2 cv HF Hc c1 v1 r1 H.
    - inversion HF; subst. cbn [ph_acc] in H |- *. injection H as <- <- <-. exists cc2. split; [reflexivity|exact Hc].
    - destruct cs2 as [|b cs2]; [inversion HF|].
      assert (HP : (forall i, co i a = co i b) /\ Forall2 (fun a b => forall i, co i a = co i b) cs1 cs2) by (inversion HF; split; assumption).
      destruct HP as [Hab HF'].
      cbn [ph_acc] in H |- *. destruct vs as [|v vs]; [injection H as <- <- <-; exists cc2; split; [reflexivity|exact Hc]|].
      destruct chal as [|ch chal']; [discriminate|].
      eapply IH; [exact HF'| |exact H].
      intros i. rewrite !co_gvadd, !co_gvscale, Hc, Hab. reflexivity.
  Qed.

  (* one group: the verifier's accumulation succeeds, the proof has one witness per variable, the single-point residual vanishes *)
  Lemma pst_group_resid its cs pt chal pf rest : its <> [] -> (nv <= length pt)%nat ->
    Forall2 pR its cs -> ph_open nv s betas its pt chal = Ok (pf, rest) ->
    exists cc cv, ph_acc cs (map (fun it => pvalue it pt) its) chal [] 0 = Ok (cc, cv, rest) /\
                  length (pp_w pf) = nv /\ forall i, resid betas i (cc, pt, cv) pf = 0.
  Proof.
    intros Hne Hz HF Ho.
    assert (Hg : Forall (good nv) its).
    { clear - HF. induction HF as [|it c its cs [G _] _ IH]; constructor; assumption. }
    assert (Hco : Forall2 (fun a b => forall i, co i a = co i b) (map (comm_of betas) its) cs).
    { clear - HF. induction HF as [|it c its cs [_ C] _ IH]; cbn [map]; constructor; [intros i; symmetry; apply C|exact IH]. }
    pose proof (ph_complete nv s betas its pt chal pf rest Hg Hz Ho) as Hc. unfold ph_check in Hc.
    fold (pvalue) in Hc.
    destruct (ph_acc (map (comm_of betas) its) (map (fun it => eval_mpoly pt (fst it)) its) chal [] 0) as [[[cc1 cv1] rest1]| |] eqn:E1;
      cbn [bind] in Hc; try discriminate.
    destruct ((nv <? length (pp_w pf))%nat || (length pt <? length (pp_w pf))%nat); [discriminate|].
    injection Hc as Z <-.
    destruct (ph_acc_co _ cs _ chal [] [] 0 Hco (fun i => eq_refl) cc1 cv1 rest1 E1) as (c2 & E2 & Hc2).
    exists c2, cv1. split; [exact E2|]. split; [exact (ph_open_witnesses its pt chal pf rest1 Hne Ho)|].
    intros i. unfold resid, rv_of. cbn [fst snd]. rewrite <- Hc2.
    pose proof (proj1 (gvzero_co _) Z i) as C. rewrite !co_gvsub, co_ph_rhs in C. exact C.
  Qed.

  Lemma gather_p_nonempty {Item} (im : list (N * Item)) : forall labels its, labels <> [] -> gather_p Item im labels = Ok its -> its <> [].
  Proof.
    intros [|l t] its Hne H; [contradiction|]. cbn [gather_p] in H.
    destruct (lookup_lab l im); [|discriminate]. destruct (gather_p Item im t); cbn [bind] in H; try discriminate.
    injection H as <-. discriminate.
  Qed.

  Lemma pst_groups_complete im cm ev : maps_agree gv PItem pR im cm -> forall gs chal pfs rest,
    Forall (fun g => snd (snd g) <> []) gs ->
    (forall pl pt labels, In (pl, (pt, labels)) gs -> (nv <= length pt)%nat /\ evals_true PItem pvalue im ev pt labels) ->
    bopen_loop PItem PProof (list F) (pb_open nv s betas) im gs chal = Ok (pfs, rest) ->
    exists trip, pst_combine cm ev gs chal = Ok (trip, rest) /\
                 Forall2 (fun t pf => length (pp_w pf) = nv /\ forall i, resid betas i t pf = 0) trip pfs /\
                 Forall (fun t : gv * point * F => (nv <= length (snd (fst t)))%nat) trip.
  Proof.
    intros Hm. induction gs as [|[pl [pt labels]] gs IH]; intros chal pfs rest Hne He H; cbn [bopen_loop] in H.
    - injection H as <- <-. exists []. cbn [pst_combine]. repeat split; constructor.
    - destruct (gather_p PItem im labels) as [its| |] eqn:Eg; cbn [bind] in H; try discriminate.
      destruct (pb_open nv s betas its pt chal) as [[pf rest1]| |] eqn:Eo; cbn [bind fst snd] in H; try discriminate.
      destruct (bopen_loop PItem PProof (list F) (pb_open nv s betas) im gs rest1) as [[pfs1 rest2]| |] eqn:Er; cbn [bind fst snd] in H; try discriminate.
      injection H as <- <-.
      assert (HN : snd (snd (pl, (pt, labels))) <> [] /\ Forall (fun g : N * (point * list N) => snd (snd g) <> []) gs) by (inversion Hne; split; assumption).
      destruct HN as [Hl0 Hne']. cbn [snd] in Hl0.
      destruct (He pl pt labels (or_introl eq_refl)) as [Hz Hev].
      destruct (gather_agree gv PItem pR pvalue im cm ev pt Hm labels its Hev Eg) as (cs & Egv & HF).
      unfold pb_open in Eo.
      destruct (pst_group_resid its cs pt chal pf rest1 (gather_p_nonempty im labels its Hl0 Eg) Hz HF Eo) as (cc & cv & Ea & Lw & Hr).
      destruct (IH rest1 pfs1 rest2 Hne' (fun a b c Hin => He a b c (or_intror Hin)) Er) as (trip & Ec & HF2 & Hz2).
      exists ((cc, pt, cv) :: trip). cbn [pst_combine]. rewrite Egv. cbn [bind fst snd]. rewrite Ea. cbn [bind]. rewrite Ec. cbn [bind fst snd].
      split; [reflexivity|]. split; constructor; try assumption. split; assumption.
  Qed.

  Lemma pst_bloop_total : forall trip proofs vtape rnd a draws,
    Forall2 (fun (t : gv * point * F) pf => length (pp_w pf) = nv /\ (nv <= length (snd (fst t)))%nat) trip proofs ->
    (length trip <= length vtape)%nat ->
    exists a', pst_bloop nv trip proofs vtape rnd a draws = Ok (a', (draws + length trip)%nat).
  Proof.
    induction trip as [|[[c z] v] trip IH]; intros proofs vtape rnd a draws HF L.
    - inversion HF; subst. exists a. cbn [pst_bloop length]. f_equal. f_equal. lia.
    - destruct proofs as [|pf proofs]; [inversion HF|].
      assert (HP : (length (pp_w pf) = nv /\ (nv <= length z)%nat) /\
                   Forall2 (fun (t : gv * point * F) pf0 => length (pp_w pf0) = nv /\ (nv <= length (snd (fst t)))%nat) trip proofs)
        by (inversion HF; split; assumption).
      destruct HP as [[Lw Lz] HF']. cbn [pst_bloop].
      destruct (Nat.ltb_spec (length z) (length (pp_w pf))); [lia|].
      destruct (Nat.ltb_spec (length (pp_w pf)) nv); [lia|].
      destruct vtape as [|x vt']; [cbn in L; lia|].
      assert (L' : (length trip <= length vt')%nat) by (cbn in L; lia).
      match goal with |- context [pst_bloop nv trip proofs vt' x ?A ?D] => destruct (IH proofs vt' x A D HF' L') as (a' & Ea) end.
      exists a'. rewrite Ea. f_equal. f_equal. cbn [length]. lia.
  Qed.

  Theorem pst13_batch_complete items cs qs ev chal vtape pfs rest :
    maps_agree gv PItem pR (label_map items) (label_map cs) ->
    (forall pl pt labels, In (pl, (pt, labels)) (groups qs) -> (nv <= length pt)%nat /\ evals_true PItem pvalue (label_map items) ev pt labels) ->
    (length (groups qs) <= length vtape)%nat ->
    pst_batch_open nv s betas items qs chal = Ok (pfs, rest) ->
    pst_batch_check nv betas cs qs ev pfs chal vtape = Ok (true, rest, length (groups qs)).
  Proof.
    intros Hm He Lt H. unfold pst_batch_open, default_batch_open in H. unfold pst_batch_check.
    destruct (pst_groups_complete _ _ ev Hm (groups qs) chal pfs rest (groups_all_nonempty qs) He H) as (trip & Ec & HF & Hz).
    rewrite Ec. cbn [bind].
    assert (Lt2 : length trip = length (groups qs)).
    { clear - Ec. revert chal trip rest Ec. induction (groups qs) as [|[pl [pt labels]] t IH]; intros chal trip rest E; cbn [pst_combine] in E.
      - injection E as <- _. reflexivity.
      - destruct (gather_v gv _ ev pt labels) as [cv| |]; cbn [bind] in E; try discriminate.
        destruct (ph_acc (fst cv) (snd cv) chal [] 0) as [[[cc v] r1]| |]; cbn [bind] in E; try discriminate.
        destruct (pst_combine _ ev t r1) as [[tr r2]| |] eqn:E2; cbn [bind fst snd] in E; try discriminate.
        injection E as <- _. cbn [length]. f_equal. exact (IH _ _ _ E2). }
    assert (Lp : length pfs = length trip).
    { clear - HF. induction HF as [|t pf trip pfs _ _ IH]; [reflexivity|]. cbn [length]. f_equal. exact IH. }
    rewrite Lp, Nat.eqb_refl. cbn [negb].
    assert (HF3 : Forall2 (fun (t : gv * point * F) pf => length (pp_w pf) = nv /\ (nv <= length (snd (fst t)))%nat) trip pfs).
    { clear - HF Hz. revert Hz. induction HF as [|t pf trip pfs [Lw _] _ IH]; intros Hz; [constructor|].
      assert (HP : (nv <= length (snd (fst t)))%nat /\ Forall (fun t0 : gv * point * F => (nv <= length (snd (fst t0)))%nat) trip)
        by (inversion Hz; split; assumption).
      destruct HP as [Hz1 Hz2]. constructor; [split; [exact Lw|exact Hz1]|exact (IH Hz2)]. }
    destruct (pst_bloop_total trip pfs vtape 1 {| pb_c := []; pb_w := repeat [] nv; pb_g := 0; pb_gam := 0 |} O HF3 ltac:(lia)) as (a' & Ea).
    rewrite Ea. cbn [bind].
    rewrite (pst_batch_complete nv betas trip pfs vtape a' _ HF Ea). rewrite Lt2. reflexivity.
  Qed.
End PST13BatchComplete.
