(* Multilinear PST (multilinear_pc): the commitment is g scaled by the multilinear extension at the
   trapdoor point, the opening is exact, honest proofs verify under every trimmed key, and a proof
   supports one value only. *)
From Coq Require Import List Arith NArith Bool Lia Field Ring.
From PC Require Import Base.Field Base.Result Base.Poly Proofs.PolyFacts Schemes.MLPC.
Import ListNotations.
Open Scope F_scope.

Section MLPCFacts.
  Context {FO : FieldOps} {FL : FieldLaws FO}.
  Add Field Ffield19 : FL_field.

  (* ---------------- tables ---------------- *)
  Lemma fold_var_length z : forall n f, length f = (2 * n)%nat -> length (fold_var f z) = n.
  Proof.
    induction n as [|n IH]; intros f H.
    - destruct f; [reflexivity|cbn in H; lia].
    - destruct f as [|a [|b t]]; cbn [length] in H; try lia. cbn [fold_var length]. rewrite IH by lia. reflexivity.
  Qed.
  Lemma diff_var_length : forall n f, length f = (2 * n)%nat -> length (diff_var f) = n.
  Proof.
    induction n as [|n IH]; intros f H.
    - destruct f; [reflexivity|cbn in H; lia].
    - destruct f as [|a [|b t]]; cbn [length] in H; try lia. cbn [diff_var length]. rewrite IH by lia. reflexivity.
  Qed.

  Fixpoint lin (a : F) (f : list F) (b : F) (g : list F) : list F :=
    match f, g with
    | x :: f', y :: g' => (a * x + b * y) :: lin a f' b g'
    | _, _ => []
    end.
  Lemma lin_length a b : forall f g, length f = length g -> length (lin a f b g) = length f.
  Proof. induction f as [|x f IH]; intros [|y g] H; cbn in H; try lia; [reflexivity|]. cbn [lin length]. rewrite IH by lia. reflexivity. Qed.

  Lemma fold_var_lin a b z : forall n f g, length f = (2 * n)%nat -> length g = (2 * n)%nat ->
    fold_var (lin a f b g) z = lin a (fold_var f z) b (fold_var g z).
  Proof.
    induction n as [|n IH]; intros f g Hf Hg.
    - destruct f; [|cbn in Hf; lia]. reflexivity.
    - destruct f as [|x1 [|x2 f]]; cbn [length] in Hf; try lia. destruct g as [|y1 [|y2 g]]; cbn [length] in Hg; try lia.
      cbn [lin fold_var]. rewrite IH by lia. f_equal. ring.
  Qed.

  Lemma mle_lin a b : forall t f g, length f = (2 ^ length t)%nat -> length g = (2 ^ length t)%nat ->
    mle_eval (lin a f b g) t = a * mle_eval f t + b * mle_eval g t.
  Proof.
    induction t as [|t0 ts IH]; intros f g Hf Hg; cbn [mle_eval length] in *.
    - destruct f as [|x f]; [cbn in Hf; lia|]. destruct g as [|y g]; [cbn in Hg; lia|]. reflexivity.
    - rewrite Nat.pow_succ_r' in Hf, Hg.
      rewrite (fold_var_lin a b t0 (2 ^ length ts) f g Hf Hg).
      apply IH; [apply fold_var_length; exact Hf|apply fold_var_length; exact Hg].
  Qed.

  Lemma fold_var_shift t0 z0 : forall n f, length f = (2 * n)%nat ->
    fold_var f t0 = lin 1 (fold_var f z0) (t0 - z0) (diff_var f).
  Proof.
    induction n as [|n IH]; intros f H.
    - destruct f; [|cbn in H; lia]. reflexivity.
    - destruct f as [|a [|b t]]; cbn [length] in H; try lia. cbn [fold_var diff_var lin]. rewrite <- IH by lia. f_equal. ring.
  Qed.

  (* the quotients of the opening *)
  Fixpoint qsum (t z r : list F) : F :=
    match t, z with
    | t0 :: ts, z0 :: zs => (t0 - z0) * mle_eval (diff_var r) ts + qsum ts zs (fold_var r z0)
    | _, _ => 0
    end.

  (* f(t) - f(z) = sum_i (t_i - z_i) q_i(t_{i+1}, ...) for every table of 2^n values and all points *)
  Theorem mle_division_exact : forall t z r, length z = length t -> length r = (2 ^ length t)%nat ->
    mle_eval r t - mle_eval r z = qsum t z r.
  Proof.
    induction t as [|t0 ts IH]; intros z r Hz Hr; destruct z as [|z0 zs]; cbn [length] in Hz; try lia.
    - cbn. ring.
    - cbn [mle_eval qsum length] in *. rewrite Nat.pow_succ_r' in Hr.
      rewrite <- (IH zs (fold_var r z0)) by (try lia; apply fold_var_length; exact Hr).
      rewrite (fold_var_shift t0 z0 _ r Hr) at 1.
      rewrite mle_lin by (try (apply fold_var_length; exact Hr); apply diff_var_length; exact Hr).
      ring.
  Qed.

  (* ---------------- multi-scalar sums against the eq-tables ---------------- *)
  Lemma msm_eq_step g t0 : forall E f, length f = (2 * length E)%nat ->
    msm (map (fun e => g * e) (flat_map (fun e => [e * (1 - t0); e * t0]) E)) f = msm (map (fun e => g * e) E) (fold_var f t0).
  Proof.
    induction E as [|e E IH]; intros f H; [destruct f; [reflexivity|cbn in H; lia]|].
    destruct f as [|a [|b f]]; cbn [length] in H; try lia.
    cbn [flat_map app map msm fold_var]. rewrite IH by lia. ring.
  Qed.

  Lemma eq_table_length : forall t, length (eq_table t) = (2 ^ length t)%nat.
  Proof.
    induction t as [|t0 ts IH]; [reflexivity|]. cbn [eq_table length]. rewrite Nat.pow_succ_r'.
    rewrite <- IH. generalize (eq_table ts). induction l as [|e l IHl]; [reflexivity|]. cbn [flat_map app length]. rewrite IHl. lia.
  Qed.

  (* commitment: sum_x f(x) eq(t, x) g = g * f~(t) *)
  Theorem msm_eq_table g : forall t f, length f = (2 ^ length t)%nat ->
    msm (map (fun e => g * e) (eq_table t)) f = g * mle_eval f t.
  Proof.
    induction t as [|t0 ts IH]; intros f H.
    - destruct f as [|a [|b f]]; cbn in H; try lia. cbn. ring.
    - cbn [eq_table mle_eval length] in *. rewrite Nat.pow_succ_r' in H.
      rewrite msm_eq_step by (rewrite eq_table_length; exact H).
      apply IH. apply fold_var_length. exact H.
  Qed.

  Lemma msm_dup_step h t0 : forall E q, length q = length E ->
    msm (map (fun e => h * e) (flat_map (fun e => [e * (1 - t0); e * t0]) E)) (dup q) = msm (map (fun e => h * e) E) q.
  Proof.
    induction E as [|e E IH]; intros q H; destruct q as [|x q]; cbn [length] in H; try lia; [reflexivity|].
    unfold dup in *. cbn [flat_map app map msm]. rewrite IH by lia. ring.
  Qed.

  (* proof element of round i: the table of the remaining variables paired with the doubled quotient *)
  Theorem msm_dup h t0 ts q : length q = (2 ^ length ts)%nat ->
    msm (map (fun e => h * e) (eq_table (t0 :: ts))) (dup q) = h * mle_eval q ts.
  Proof.
    intros H. cbn [eq_table]. rewrite msm_dup_step by (rewrite eq_table_length; exact H). apply msm_eq_table. exact H.
  Qed.

  (* ---------------- keys ---------------- *)
  Fixpoint tables_from (c : F) (t : list F) : list (list F) :=
    match t with
    | [] => []
    | _ :: ts => map (fun e => c * e) (eq_table t) :: tables_from c ts
    end.

  Lemma tables_seq c : forall t s, map (fun i => map (fun e => c * e) (eq_table (skipn i t))) (seq s (length t - s)) = tables_from c (skipn s t).
  Proof.
    intros t s. remember (length t - s)%nat as n eqn:Hn. revert s Hn.
    induction n as [|n IH]; intros s Hn.
    - cbn [seq map]. rewrite skipn_all2 by lia. reflexivity.
    - cbn [seq map]. rewrite (IH (S s)) by lia.
      assert (Hs : (s < length t)%nat) by lia.
      destruct (skipn s t) as [|x r] eqn:E.
      + apply (f_equal (@length F)) in E. rewrite skipn_length in E. cbn in E. lia.
      + assert (E2 : skipn (S s) t = r).
        { clear - E. revert t E. induction s as [|s IHs]; intros t E; destruct t as [|y t]; cbn [skipn] in *; try discriminate.
          - injection E as _ ->. reflexivity.
          - apply IHs. exact E. }
        rewrite E2. reflexivity.
  Qed.

  Lemma setup_tables nv g h t p : length t = nv -> ml_setup nv g h t = Ok p ->
    mp_pg p = tables_from g t /\ mp_ph p = tables_from h t /\ mp_mask p = map (fun ti => g * ti) t /\ mp_nv p = nv /\ mp_g p = g /\ mp_h p = h.
  Proof.
    intros Hl H. unfold ml_setup in H. destruct (nv =? 0)%nat; [discriminate|]. injection H as <-. cbn.
    pose proof (tables_seq g t 0) as Tg. pose proof (tables_seq h t 0) as Th. rewrite Nat.sub_0_r, Hl in Tg, Th. cbn [skipn] in Tg, Th.
    repeat split; assumption.
  Qed.

  Lemma tables_skipn c : forall d t, skipn d (tables_from c t) = tables_from c (skipn d t).
  Proof.
    induction d as [|d IH]; intros t; [reflexivity|]. destruct t as [|x t]; [reflexivity|]. cbn [tables_from skipn]. apply IH.
  Qed.

  (* a trimmed key is the key of the suffix of the trapdoor point *)
  Lemma trim_tables nv g h t p snv ck : length t = nv -> ml_setup nv g h t = Ok p -> ml_trim p snv = Ok ck ->
    let t' := skipn (nv - snv) t in
    mp_pg ck = tables_from g t' /\ mp_ph ck = tables_from h t' /\ mp_mask ck = map (fun ti => g * ti) t' /\
    mp_nv ck = snv /\ mp_g ck = g /\ mp_h ck = h /\ (snv <= nv)%nat.
  Proof.
    intros Hl Hs Ht t'. destruct (setup_tables _ _ _ _ _ Hl Hs) as (Eg & Eh & Em & En & Egg & Ehh).
    unfold ml_trim in Ht. rewrite En in Ht. destruct (Nat.ltb_spec nv snv); [discriminate|]. injection Ht as <-. cbn.
    rewrite Eg, Eh, Em, !tables_skipn, skipn_map. repeat split; try assumption; reflexivity.
  Qed.

  (* ---------------- open / check ---------------- *)
  Lemma open_loop_spec g h : forall t r z, length z = length t -> length r = (2 ^ length t)%nat ->
    exists pf, open_loop (tables_from h t) r z = Ok pf /\ length pf = length t /\
               pair_sum (map (fun ti => g * ti) t) z pf g = g * h * qsum t z r.
  Proof.
    induction t as [|t0 ts IH]; intros r z Hz Hr; destruct z as [|z0 zs]; cbn [length] in Hz; try lia.
    - exists []. cbn. repeat split. ring.
    - cbn [length] in Hr. rewrite Nat.pow_succ_r' in Hr.
      destruct (IH (fold_var r z0) zs ltac:(lia) (fold_var_length z0 _ r Hr)) as (pf & E & Lp & Ps).
      exists (msm (map (fun e => h * e) (eq_table (t0 :: ts))) (dup (diff_var r)) :: pf).
      cbn [tables_from open_loop]. rewrite E. cbn [bind]. split; [reflexivity|]. split; [cbn [length]; lia|].
      cbn [map pair_sum qsum]. rewrite Ps, msm_dup by (apply diff_var_length; exact Hr). ring.
  Qed.

  (* completeness under every trimmed key: commit, open, check of the true value *)
  Theorem ml_complete nv g h t p snv ck f z :
    length t = nv -> ml_setup nv g h t = Ok p -> ml_trim p snv = Ok ck -> (1 <= snv)%nat ->
    length f = (2 ^ snv)%nat -> length z = snv ->
    exists c pf, ml_commit ck snv f = Ok c /\ ml_open ck snv f z = Ok pf /\ length pf = snv /\
                 c = g * mle_eval f (skipn (nv - snv) t) /\
                 ml_check ck c z (mle_eval f z) pf = Ok true.
  Proof.
    intros Hl Hs Ht Hsn Hf Hz.
    destruct (trim_tables _ _ _ _ _ _ _ Hl Hs Ht) as (Eg & Eh & Em & En & Egg & Ehh & Hle). cbv zeta in *.
    set (t' := skipn (nv - snv) t) in *.
    assert (Lt : length t' = snv) by (unfold t'; rewrite skipn_length; lia).
    destruct t' as [|t0 ts] eqn:Et; [cbn in Lt; lia|].
    destruct (open_loop_spec g h (t0 :: ts) f z ltac:(lia) ltac:(rewrite Lt; exact Hf)) as (pf & Eo & Lp & Ps).
    exists (g * mle_eval f (t0 :: ts)), pf.
    unfold ml_commit, ml_open, ml_check. rewrite En, Nat.eqb_refl, Eg, Eh, Em, Egg, Ehh. cbn [negb tables_from].
    split; [f_equal; apply msm_eq_table; rewrite Lt; exact Hf|].
    split; [exact Eo|]. split; [lia|]. split; [reflexivity|].
    destruct (Nat.ltb_spec (length z) snv); [lia|]. replace (length pf) with snv by lia. rewrite Nat.eqb_refl. cbn [negb].
    f_equal. apply FL_eqb.
    rewrite firstn_all2 by (rewrite map_length; lia). rewrite Ps.
    rewrite <- (mle_division_exact (t0 :: ts) z f ltac:(lia) ltac:(rewrite Lt; exact Hf)). ring.
  Qed.

  (* one proof supports one value *)
  Theorem ml_check_one_value vk c z v1 v2 pf :
    mp_g vk <> 0 -> mp_h vk <> 0 ->
    ml_check vk c z v1 pf = Ok true -> ml_check vk c z v2 pf = Ok true -> v1 = v2.
  Proof.
    intros Hg Hh H1 H2. unfold ml_check in *. destruct (length z <? mp_nv vk)%nat; [discriminate|].
    destruct (negb (length pf =? mp_nv vk)%nat); [discriminate|].
    injection H1 as H1. injection H2 as H2. apply FL_eqb in H1. apply FL_eqb in H2.
    assert (E : mp_g vk * mp_h vk * (v1 - v2) = 0).
    { transitivity ((c - mp_g vk * v2) * mp_h vk - (c - mp_g vk * v1) * mp_h vk); [ring|rewrite H1, H2; ring]. }
    destruct (f_integral _ _ E) as [E1|E1].
    - destruct (f_integral _ _ E1); contradiction.
    - transitivity (v1 - v2 + v2); [ring|rewrite E1; ring].
  Qed.

  (* commit / open refuse a polynomial with another number of variables (the repaired defect a7c7271) *)
  Theorem ml_commit_refuses_wrong_num_vars ck nvp f : nvp <> mp_nv ck -> ml_commit ck nvp f = Panic.
  Proof. intros H. unfold ml_commit. destruct (Nat.eqb_spec nvp (mp_nv ck)); [contradiction|reflexivity]. Qed.
  Theorem ml_open_refuses_wrong_num_vars ck nvp f z : nvp <> mp_nv ck -> ml_open ck nvp f z = Panic.
  Proof. intros H. unfold ml_open. destruct (Nat.eqb_spec nvp (mp_nv ck)); [contradiction|reflexivity]. Qed.
End MLPCFacts.
