(* C12: round-trip, size and truncation theorems of the schema-directed codec. *)
From Coq Require Import List NArith Arith Bool Lia.
From PC Require Import Base.Codec.
Import ListNotations.

(* ---------------- induction principle for the nested type ---------------- *)
Section SchemaInd.
  Variable P : schema -> Prop.
  Hypothesis Hprim : forall k, P (SPrim k).
  Hypothesis Hu : P SU64.
  Hypothesis Hb : P SBool.
  Hypothesis Ho : forall s, P s -> P (SOption s).
  Hypothesis Hv : forall s, P s -> P (SVec s).
  Hypothesis Ht : forall l, Forall P l -> P (STuple l).
  Hypothesis Hby : P SBytes.
  Fixpoint schema_ind' (s : schema) : P s :=
    match s with
    | SPrim k => Hprim k
    | SU64 => Hu
    | SBool => Hb
    | SOption s' => Ho s' (schema_ind' s')
    | SVec s' => Hv s' (schema_ind' s')
    | STuple l => Ht l ((fix go (l : list schema) : Forall P l :=
                           match l with
                           | [] => Forall_nil P
                           | x :: t => Forall_cons x (schema_ind' x) (go t)
                           end) l)
    | SBytes => Hby
    end.
End SchemaInd.

(* ---------------- little-endian integers ---------------- *)
Lemma le_bytes_length k n : length (le_bytes k n) = k.
Proof. revert n; induction k as [|k IH]; intros n; cbn [le_bytes length]; auto. Qed.

Lemma le_value_le_bytes : forall k n, (n < 256 ^ N.of_nat k)%N -> le_value (le_bytes k n) = n.
Proof.
  induction k as [|k IH]; intros n Hn; cbn [le_bytes le_value].
  - cbn in Hn. lia.
  - rewrite IH.
    + pose proof (N.div_mod n 256). lia.
    + rewrite Nat2N.inj_succ, N.pow_succ_r' in Hn. apply N.div_lt_upper_bound; lia.
Qed.

Lemma u64_max_pow : u64_max = (256 ^ N.of_nat 8)%N.
Proof. reflexivity. Qed.

Lemma enc_u64_some n b : enc_u64 n = Some b -> (n < u64_max)%N /\ b = le_bytes 8 n.
Proof. unfold enc_u64. destruct (N.ltb_spec n u64_max); intros E; [|discriminate]. split; [assumption|congruence]. Qed.

Lemma enc_u64_length n b : enc_u64 n = Some b -> length b = 8%nat.
Proof. intros E. apply enc_u64_some in E. destruct E as [_ ->]. apply le_bytes_length. Qed.

Lemma firstn_app_len {A} (a r : list A) : firstn (length a) (a ++ r) = a.
Proof. induction a as [|x a IH]; cbn; [destruct r; reflexivity|rewrite IH; reflexivity]. Qed.
Lemma skipn_app_len {A} (a r : list A) : skipn (length a) (a ++ r) = r.
Proof. induction a as [|x a IH]; cbn; auto. Qed.

Lemma firstn_app_k {A} k (a r : list A) : length a = k -> firstn k (a ++ r) = a.
Proof. intros <-. apply firstn_app_len. Qed.
Lemma skipn_app_k {A} k (a r : list A) : length a = k -> skipn k (a ++ r) = r.
Proof. intros <-. apply skipn_app_len. Qed.

Lemma dec_u64_enc n b rest : enc_u64 n = Some b -> dec_u64 (b ++ rest) = Some (n, rest).
Proof.
  intros H. pose proof (enc_u64_length _ _ H) as L. apply enc_u64_some in H. destruct H as [Hn ->].
  unfold dec_u64. rewrite app_length, L. destruct (Nat.ltb_spec (8 + length rest) 8); [lia|].
  rewrite (firstn_app_k 8 _ _ L), (skipn_app_k 8 _ _ L). rewrite le_value_le_bytes; [reflexivity|].
  rewrite <- u64_max_pow. exact Hn.
Qed.

Lemma opt_app_some a b r : opt_app a b = Some r -> exists x y, a = Some x /\ b = Some y /\ r = x ++ y.
Proof. destruct a as [x|]; destruct b as [y|]; cbn; try discriminate. intros E; inversion E. eauto. Qed.

(* ---------------- non-empty encodings ---------------- *)
Lemma enc_tuple_nonempty (ss : list schema) :
  Forall (fun s => nonempty s = true -> forall v b, enc s v = Some b -> b <> []) ss ->
  existsb nonempty ss = true -> forall vs b, enc_tuple (map enc ss) vs = Some b -> b <> [].
Proof.
  induction 1 as [|s ss Hs HF IH]; intros He vs b E; cbn [existsb] in He; [discriminate|].
  cbn [map enc_tuple] in E. destruct vs as [|v vs]; [discriminate|].
  apply opt_app_some in E. destruct E as (x & y & E1 & E2 & ->).
  apply orb_true_iff in He. destruct He as [He|He].
  - specialize (Hs He _ _ E1). destruct x; [contradiction|discriminate].
  - specialize (IH He _ _ E2). destruct y; [contradiction|]. destruct x; discriminate.
Qed.

Lemma enc_nonempty : forall s, nonempty s = true -> forall v b, enc s v = Some b -> b <> [].
Proof.
  induction s as [k| | |s IH|s IH|l IH|] using schema_ind'; intros Hn v b E; cbn [nonempty] in Hn.
  - destruct v; cbn [enc] in E; try discriminate. destruct (Nat.eqb_spec (length b0) k); [|discriminate].
    inversion E; subst. destruct b; [cbn in Hn; discriminate|discriminate].
  - destruct v; cbn [enc] in E; try discriminate. apply enc_u64_length in E. destruct b; [discriminate|discriminate].
  - destruct v; cbn [enc] in E; try discriminate. inversion E. discriminate.
  - destruct v as [| | |[x|]| | |]; cbn [enc] in E; try discriminate.
    + apply opt_app_some in E. destruct E as (a & c & E1 & _ & ->). inversion E1. discriminate.
    + inversion E. discriminate.
  - destruct v; cbn [enc] in E; try discriminate. apply opt_app_some in E. destruct E as (a & c & E1 & _ & ->).
    apply enc_u64_length in E1. destruct a; discriminate.
  - destruct v; cbn [enc] in E; try discriminate. eapply enc_tuple_nonempty; eauto.
  - destruct v; cbn [enc] in E; try discriminate. apply opt_app_some in E. destruct E as (a & c & E1 & _ & ->).
    apply enc_u64_length in E1. destruct a; discriminate.
Qed.

(* ---------------- round trip ---------------- *)
Section Seq.
  Variables (e : value -> option bytes) (d : bytes -> option (value * bytes)).
  Hypothesis RT : forall v b rest, e v = Some b -> d (b ++ rest) = Some (v, rest).

  Lemma dec_n_enc_list : forall l b rest, enc_list e l = Some b -> dec_n d (length l) (b ++ rest) = Some (l, rest).
  Proof.
    induction l as [|x l IH]; intros b rest E; cbn [enc_list] in E.
    - inversion E. reflexivity.
    - apply opt_app_some in E. destruct E as (a & c & E1 & E2 & ->). cbn [length dec_n].
      rewrite <- app_assoc, (RT _ _ _ E1), (IH _ _ E2). reflexivity.
  Qed.

  Hypothesis NE : forall v b, e v = Some b -> b <> [].
  Lemma enc_list_length_le : forall l b, enc_list e l = Some b -> (length l <= length b)%nat.
  Proof.
    induction l as [|x l IH]; intros b E; cbn [enc_list] in E; [cbn; lia|].
    apply opt_app_some in E. destruct E as (a & c & E1 & E2 & ->). specialize (IH _ E2). specialize (NE _ _ E1).
    rewrite app_length. cbn [length]. destruct a; [contradiction|cbn [length]; lia].
  Qed.
End Seq.

Lemma dec_tuple_enc (ss : list schema) :
  Forall (fun s => forall v b rest, enc s v = Some b -> dec s (b ++ rest) = Some (v, rest)) ss ->
  forall vs b rest, enc_tuple (map enc ss) vs = Some b -> dec_tuple (map dec ss) (b ++ rest) = Some (vs, rest).
Proof.
  induction 1 as [|s ss Hs HF IH]; intros vs b rest E; cbn [map enc_tuple] in E.
  - destruct vs; [|discriminate]. inversion E. reflexivity.
  - destruct vs as [|v vs]; [discriminate|]. apply opt_app_some in E. destruct E as (a & c & E1 & E2 & ->).
    cbn [map dec_tuple]. rewrite <- app_assoc, (Hs _ _ _ E1), (IH _ _ _ E2). reflexivity.
Qed.

Lemma wf_tuple_forall l : forallb wf l = true -> Forall (fun s => wf s = true) l.
Proof. intros H. apply Forall_forall. intros x Hx. rewrite forallb_forall in H. apply H. exact Hx. Qed.

(* C12: deserializing what was serialized gives back the value and leaves the rest of the
   input untouched - for every well-formed schema and every value of its shape *)
Theorem dec_enc : forall s, wf s = true -> forall v b rest, enc s v = Some b -> dec s (b ++ rest) = Some (v, rest).
Proof.
  induction s as [k| | |s IH|s IH|l IH|] using schema_ind'; intros Hw v b rest E; cbn [wf] in Hw.
  - destruct v; cbn [enc] in E; try discriminate. destruct (Nat.eqb_spec (length b0) k) as [L|]; [|discriminate].
    inversion E; subst b0. cbn [dec]. rewrite app_length. destruct (Nat.ltb_spec (length b + length rest) k); [lia|].
    rewrite (firstn_app_k k _ _ L), (skipn_app_k k _ _ L). reflexivity.
  - destruct v; cbn [enc] in E; try discriminate. cbn [dec]. rewrite (dec_u64_enc _ _ _ E). reflexivity.
  - destruct v as [| |[|]| | | |]; cbn [enc] in E; try discriminate; inversion E; reflexivity.
  - destruct v as [| | |[x|]| | |]; cbn [enc] in E; try discriminate.
    + apply opt_app_some in E. destruct E as (a & c & E1 & E2 & ->). inversion E1; subst a. cbn [app dec N.eqb].
      rewrite (IH Hw _ _ _ E2). reflexivity.
    + inversion E. reflexivity.
  - apply andb_true_iff in Hw. destruct Hw as [Hw Hne].
    destruct v; cbn [enc] in E; try discriminate. apply opt_app_some in E. destruct E as (a & c & E1 & E2 & ->).
    cbn [dec]. rewrite <- app_assoc, (dec_u64_enc _ _ _ E1).
    pose proof (enc_list_length_le _ (enc_nonempty s Hne) _ _ E2) as Hle.
    destruct (N.ltb_spec (N.of_nat (length (c ++ rest))) (N.of_nat (length l))) as [Hlt|_]; [rewrite app_length in Hlt; lia|].
    rewrite Nat2N.id, (dec_n_enc_list _ _ (IH Hw) _ _ _ E2). reflexivity.
  - destruct v; cbn [enc] in E; try discriminate. cbn [dec].
    assert (HF : Forall (fun s => forall v b rest, enc s v = Some b -> dec s (b ++ rest) = Some (v, rest)) l).
    { apply wf_tuple_forall in Hw. clear E. induction IH as [|s l Hs HF IHl]; [constructor|].
      inversion Hw; subst. constructor; [apply Hs; assumption|apply IHl; assumption]. }
    rewrite (dec_tuple_enc _ HF _ _ _ E). reflexivity.
  - destruct v; cbn [enc] in E; try discriminate. apply opt_app_some in E. destruct E as (a & c & E1 & E2 & ->).
    inversion E2; subst c. cbn [dec]. rewrite <- app_assoc, (dec_u64_enc _ _ _ E1).
    destruct (N.ltb_spec (N.of_nat (length (b0 ++ rest))) (N.of_nat (length b0))) as [Hlt|_]; [rewrite app_length in Hlt; lia|].
    rewrite Nat2N.id, firstn_app_len, skipn_app_len. reflexivity.
Qed.

Corollary dec_all_enc s v b : wf s = true -> enc s v = Some b -> dec_all s b = Some v.
Proof.
  intros Hw E. unfold dec_all. rewrite <- (app_nil_r b). rewrite (dec_enc s Hw v b [] E). reflexivity.
Qed.

(* serialize . deserialize . serialize = serialize *)
Corollary reserialize s v b : wf s = true -> enc s v = Some b ->
  match dec_all s b with Some v' => enc s v' = Some b | None => False end.
Proof. intros Hw E. rewrite (dec_all_enc _ _ _ Hw E). exact E. Qed.

(* serialized_size is the number of bytes written *)
Theorem size_is_length s v b : enc s v = Some b -> size s v = Some (length b).
Proof. intros E. unfold size. rewrite E. reflexivity. Qed.

(* ---------------- fixed-size artefacts (succinctness: C19) ---------------- *)
Fixpoint fixed_size (s : schema) : option nat :=
  match s with
  | SPrim k => Some k
  | SU64 => Some 8%nat
  | SBool => Some 1%nat
  | STuple l => fold_right (fun s acc => match fixed_size s, acc with Some a, Some b => Some (a + b)%nat | _, _ => None end) (Some 0%nat) l
  | _ => None
  end.

Lemma enc_tuple_fixed (l : list schema) :
  Forall (fun s => forall k v b, fixed_size s = Some k -> enc s v = Some b -> length b = k) l ->
  forall k vs b,
    fold_right (fun s acc => match fixed_size s, acc with Some a, Some b => Some (a + b)%nat | _, _ => None end) (Some 0%nat) l = Some k ->
    enc_tuple (map enc l) vs = Some b -> length b = k.
Proof.
  induction 1 as [|s l Hs HF IH]; intros k vs b Hk E; cbn [fold_right] in Hk; cbn [map enc_tuple] in E.
  - destruct vs; [|discriminate]. inversion E; inversion Hk. reflexivity.
  - destruct vs as [|v vs]; [discriminate|]. apply opt_app_some in E. destruct E as (a & c & E1 & E2 & ->).
    destruct (fixed_size s) as [ks|] eqn:Es; [|discriminate].
    destruct (fold_right _ _ l) as [kl|] eqn:El; [|discriminate]. inversion Hk; subst k.
    rewrite app_length, (Hs _ _ _ eq_refl E1), (IH _ _ _ eq_refl E2). reflexivity.
Qed.

Theorem fixed_size_spec : forall s k v b, fixed_size s = Some k -> enc s v = Some b -> length b = k.
Proof.
  induction s as [k0| | |s IH|s IH|l IH|] using schema_ind'; intros k v b Hk E; cbn [fixed_size] in Hk; try discriminate.
  - inversion Hk; subst. destruct v; cbn [enc] in E; try discriminate.
    destruct (Nat.eqb_spec (length b0) k) as [L|]; [|discriminate]. injection E as <-. exact L.
  - inversion Hk; subst. destruct v; cbn [enc] in E; try discriminate. apply (enc_u64_length _ _ E).
  - inversion Hk; subst. destruct v; cbn [enc] in E; try discriminate. inversion E. reflexivity.
  - destruct v; cbn [enc] in E; try discriminate. eapply enc_tuple_fixed; eauto.
Qed.

(* ---------------- truncated input is an error ---------------- *)
Lemma app_split {A} : forall (a c p q : list A), a ++ c = p ++ q ->
  (exists r, a = p ++ r /\ q = r ++ c) \/ (exists r, p = a ++ r /\ c = r ++ q).
Proof.
  induction a as [|x a IH]; intros c p q H; cbn [app] in H.
  - right. exists p. split; [reflexivity|exact H].
  - destruct p as [|y p]; cbn [app] in H.
    + left. exists (x :: a). split; [reflexivity|rewrite <- H; reflexivity].
    + inversion H; subst y. destruct (IH _ _ _ H2) as [(r & -> & ->)|(r & -> & ->)].
      * left. exists r. split; reflexivity.
      * right. exists r. split; reflexivity.
Qed.

Definition trunc_err (e : value -> option bytes) (d : bytes -> option (value * bytes)) : Prop :=
  forall v b p q, e v = Some b -> b = p ++ q -> q <> [] -> d p = None.

Section SeqTrunc.
  Variables (e : value -> option bytes) (d : bytes -> option (value * bytes)).
  Hypothesis RT : forall v b rest, e v = Some b -> d (b ++ rest) = Some (v, rest).
  Hypothesis TR : trunc_err e d.

  Lemma dec_n_trunc : forall l body p q, enc_list e l = Some body -> body = p ++ q -> q <> [] ->
                                         dec_n d (length l) p = None.
  Proof.
    induction l as [|x l IH]; intros body p q E Hs Hq; cbn [enc_list] in E.
    - injection E as <-. destruct p; destruct q; cbn in Hs; try discriminate. contradiction.
    - apply opt_app_some in E. destruct E as (a & c & E1 & E2 & ->). cbn [length dec_n].
      destruct (app_split _ _ _ _ Hs) as [(r & Ha & Hq')|(r & Hp & Hc)].
      + destruct r as [|r0 r].
        * rewrite app_nil_r in Ha. subst a. cbn [app] in Hq'. subst q.
          rewrite <- (app_nil_r p) at 1. rewrite (RT _ _ [] E1).
          rewrite (IH c [] c E2 eq_refl Hq). reflexivity.
        * rewrite (TR _ _ p (r0 :: r) E1 Ha); [reflexivity|discriminate].
      + subst p. rewrite (RT _ _ r E1). rewrite (IH c r q E2 Hc Hq). reflexivity.
  Qed.
End SeqTrunc.

Lemma dec_tuple_trunc (ss : list schema) :
  Forall (fun s => (forall v b rest, enc s v = Some b -> dec s (b ++ rest) = Some (v, rest)) /\ trunc_err (enc s) (dec s)) ss ->
  forall vs body p q, enc_tuple (map enc ss) vs = Some body -> body = p ++ q -> q <> [] ->
                      dec_tuple (map dec ss) p = None.
Proof.
  induction 1 as [|s ss [RT TR] HF IH]; intros vs body p q E Hs Hq; cbn [map enc_tuple] in E.
  - destruct vs; [|discriminate]. injection E as <-. destruct p; destruct q; cbn in Hs; try discriminate. contradiction.
  - destruct vs as [|v vs]; [discriminate|]. apply opt_app_some in E. destruct E as (a & c & E1 & E2 & ->).
    cbn [map dec_tuple].
    destruct (app_split _ _ _ _ Hs) as [(r & Ha & Hq')|(r & Hp & Hc)].
    + destruct r as [|r0 r].
      * rewrite app_nil_r in Ha. subst a. cbn [app] in Hq'. subst q.
        rewrite <- (app_nil_r p) at 1. rewrite (RT _ _ [] E1).
        rewrite (IH vs c [] c E2 eq_refl Hq). reflexivity.
      * rewrite (TR _ _ p (r0 :: r) E1 Ha); [reflexivity|discriminate].
    + subst p. rewrite (RT _ _ r E1). rewrite (IH vs c r q E2 Hc Hq). reflexivity.
Qed.

Lemma dec_u64_short p : (length p < 8)%nat -> dec_u64 p = None.
Proof. intros H. unfold dec_u64. destruct (Nat.ltb_spec (length p) 8); [reflexivity|lia]. Qed.

(* a length-prefixed body: splitting a proper prefix of (len ++ body) *)
Lemma prefixed_split (lenb body p q : bytes) :
  length lenb = 8%nat -> lenb ++ body = p ++ q -> q <> [] ->
  (length p < 8)%nat \/ exists p', p = lenb ++ p' /\ body = p' ++ q.
Proof.
  intros L Hs Hq. destruct (app_split _ _ _ _ Hs) as [(r & Ha & Hq')|(r & Hp & Hc)].
  - destruct r as [|r0 r].
    + right. exists []. rewrite app_nil_r in Ha. subst. split; [rewrite app_nil_r; reflexivity|reflexivity].
    + left. rewrite Ha, app_length in L. cbn [length] in L. lia.
  - right. exists r. split; assumption.
Qed.

(* C12: every proper prefix of a serialization is rejected by the deserializer *)
Theorem truncated_is_error : forall s, wf s = true -> trunc_err (enc s) (dec s).
Proof.
  induction s as [k| | |s IH|s IH|l IH|] using schema_ind'; intros Hw v b p q E Hs Hq; cbn [wf] in Hw.
  - destruct v; cbn [enc] in E; try discriminate. destruct (Nat.eqb_spec (length b0) k) as [L|]; [|discriminate].
    injection E as <-. cbn [dec]. subst b0. rewrite app_length in L.
    destruct q; [contradiction|]. cbn [length] in L. destruct (Nat.ltb_spec (length p) k); [reflexivity|lia].
  - destruct v; cbn [enc] in E; try discriminate. apply enc_u64_length in E. subst b. rewrite app_length in E.
    destruct q; [contradiction|]. cbn [length] in E. cbn [dec]. rewrite dec_u64_short by lia. reflexivity.
  - destruct v; cbn [enc] in E; try discriminate. injection E as <-.
    destruct p as [|x p]; [reflexivity|]. destruct p; destruct q; cbn in Hs; try discriminate. contradiction.
  - destruct v as [| | |[x|]| | |]; cbn [enc] in E; try discriminate.
    + apply opt_app_some in E. destruct E as (a & c & E1 & E2 & ->). injection E1 as <-. cbn [app] in Hs.
      destruct p as [|t p]; [reflexivity|]. cbn [app] in Hs. injection Hs as <- Hs. cbn [dec N.eqb].
      rewrite (IH Hw _ _ p q E2 Hs Hq). reflexivity.
    + injection E as <-. destruct p as [|x p]; [reflexivity|]. destruct p; destruct q; cbn in Hs; try discriminate. contradiction.
  - apply andb_true_iff in Hw. destruct Hw as [Hw Hne].
    destruct v; cbn [enc] in E; try discriminate. apply opt_app_some in E. destruct E as (a & c & E1 & E2 & ->).
    cbn [dec]. destruct (prefixed_split _ _ _ _ (enc_u64_length _ _ E1) Hs Hq) as [Hshort|(p' & -> & Hc)].
    + rewrite dec_u64_short by exact Hshort. reflexivity.
    + rewrite (dec_u64_enc _ _ _ E1).
      destruct (N.of_nat (length p') <? N.of_nat (length l))%N; [reflexivity|].
      rewrite Nat2N.id. rewrite (dec_n_trunc _ _ (dec_enc s Hw) (IH Hw) _ _ _ _ E2 Hc Hq). reflexivity.
  - destruct v; cbn [enc] in E; try discriminate. cbn [dec].
    assert (HF : Forall (fun s => (forall v b rest, enc s v = Some b -> dec s (b ++ rest) = Some (v, rest)) /\ trunc_err (enc s) (dec s)) l).
    { apply wf_tuple_forall in Hw. clear E Hs. induction IH as [|s l Hs' HF IHl]; [constructor|].
      inversion Hw; subst. constructor; [split; [apply dec_enc; assumption|apply Hs'; assumption]|apply IHl; assumption]. }
    rewrite (dec_tuple_trunc _ HF _ _ _ _ E Hs Hq). reflexivity.
  - destruct v; cbn [enc] in E; try discriminate. apply opt_app_some in E. destruct E as (a & c & E1 & E2 & ->).
    injection E2 as <-. cbn [dec]. destruct (prefixed_split _ _ _ _ (enc_u64_length _ _ E1) Hs Hq) as [Hshort|(p' & -> & Hc)].
    + rewrite dec_u64_short by exact Hshort. reflexivity.
    + rewrite (dec_u64_enc _ _ _ E1). subst b0. rewrite app_length.
      destruct q; [contradiction|]. cbn [length].
      destruct (N.ltb_spec (N.of_nat (length p')) (N.of_nat (length p' + S (length q)))); [reflexivity|lia].
Qed.

(* ---------------- the extracted decoder computes dec ---------------- *)
Lemma take_spec : forall k bs, take k bs = if (length bs <? k)%nat then None else Some (firstn k bs, skipn k bs).
Proof.
  induction k as [|k IH]; intros bs; cbn [take].
  - reflexivity.
  - destruct bs as [|b r]; [reflexivity|]. rewrite IH. cbn [length firstn skipn].
    change (S (length r) <? S k)%nat with (length r <? k)%nat. destruct (length r <? k)%nat; reflexivity.
Qed.

Lemma at_least_spec : forall bs n, at_least bs n = negb (N.of_nat (length bs) <? n)%N.
Proof.
  induction bs as [|b bs IH]; intros n; cbn [at_least length].
  - destruct (N.eqb_spec n 0); destruct (N.ltb_spec (N.of_nat 0) n); cbn; try reflexivity; lia.
  - destruct (N.eqb_spec n 0) as [->|Hn].
    + destruct (N.ltb_spec (N.of_nat (S (length bs))) 0); [lia|reflexivity].
    + rewrite IH. destruct (N.ltb_spec (N.of_nat (length bs)) (N.pred n)); destruct (N.ltb_spec (N.of_nat (S (length bs))) n); cbn; try reflexivity; lia.
Qed.

Lemma dec_u64_fast_eq bs : dec_u64_fast bs = dec_u64 bs.
Proof. unfold dec_u64_fast, dec_u64. rewrite take_spec. destruct (length bs <? 8)%nat; reflexivity. Qed.

Lemma dec_n_ext f g : (forall bs, f bs = g bs) -> forall k bs, dec_n f k bs = dec_n g k bs.
Proof.
  intros H. induction k as [|k IH]; intros bs; cbn [dec_n]; [reflexivity|]. rewrite H.
  destruct (g bs) as [[x r]|]; [|reflexivity]. rewrite IH. reflexivity.
Qed.

Lemma dec_tuple_ext (ss : list schema) :
  Forall (fun s => forall bs, dec_fast s bs = dec s bs) ss ->
  forall bs, dec_tuple (map dec_fast ss) bs = dec_tuple (map dec ss) bs.
Proof.
  induction 1 as [|s ss Hs HF IH]; intros bs; cbn [map dec_tuple]; [reflexivity|]. rewrite Hs.
  destruct (dec s bs) as [[x r]|]; [|reflexivity]. rewrite IH. reflexivity.
Qed.

Theorem dec_fast_eq : forall s bs, dec_fast s bs = dec s bs.
Proof.
  induction s as [k| | |s IH|s IH|l IH|] using schema_ind'; intros bs; cbn [dec_fast dec].
  - rewrite take_spec. destruct (length bs <? k)%nat; reflexivity.
  - rewrite dec_u64_fast_eq. reflexivity.
  - reflexivity.
  - destruct bs as [|b r]; [reflexivity|]. rewrite IH. reflexivity.
  - rewrite dec_u64_fast_eq. destruct (dec_u64 bs) as [[n r]|]; [|reflexivity].
    rewrite at_least_spec, negb_involutive. rewrite (dec_n_ext _ _ IH). reflexivity.
  - rewrite (dec_tuple_ext _ IH). reflexivity.
  - rewrite dec_u64_fast_eq. destruct (dec_u64 bs) as [[n r]|]; [|reflexivity].
    rewrite at_least_spec, negb_involutive. destruct (N.ltb_spec (N.of_nat (length r)) n) as [|Hle]; [reflexivity|].
    rewrite take_spec. destruct (Nat.ltb_spec (length r) (N.to_nat n)); [lia|reflexivity].
Qed.

Corollary dec_all_fast_eq s bs : dec_all_fast s bs = dec_all s bs.
Proof. unfold dec_all_fast, dec_all. rewrite dec_fast_eq. reflexivity. Qed.
