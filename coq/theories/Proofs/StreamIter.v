(* C14: the stack machine of FoldedPolynomialTreeIter enumerates, block by block, exactly the successive
   foldings of the stream (post-order), for streams whose length is a multiple of 2^depth. *)
From Coq Require Import List Arith NArith Bool Lia Field Ring.
From PC Require Import Base.Field Base.Result Base.Poly Proofs.PolyFacts Schemes.StreamKZG.
Import ListNotations.
Open Scope F_scope.

Section StreamIter.
  Context {FO : FieldOps} {FL : FieldLaws FO}.
  Variable chs : list F.
  Let depth := length chs.

  (* value and emission of a complete block of 2^d coefficients *)
  Fixpoint bval (d : nat) (L : list F) : F :=
    match d with
    | O => hd 0 L
    | S d' => bval d' (firstn (2 ^ d') L) * nth d' chs 0 + bval d' (skipn (2 ^ d') L)
    end.
  Fixpoint bemit (d : nat) (L : list F) : list (nat * F) :=
    match d with
    | O => []
    | S d' => bemit d' (firstn (2 ^ d') L) ++ bemit d' (skipn (2 ^ d') L) ++ [(S d', bval (S d') L)]
    end.
  Fixpoint steps (d : nat) : nat := match d with O => 1%nat | S d' => (steps d' + (steps d' + 1))%nat end.

  Definition push (d : nat) (v : F) (st : list (nat * F)) : list (nat * F) :=
    if (d =? depth)%nat then st else (d, v) :: st.
  Definition stable (st : list (nat * F)) : Prop :=
    match st with (l1, _) :: (l2, _) :: _ => l1 <> l2 | _ => True end.
  Definition above (d : nat) (st : list (nat * F)) : Prop :=
    match st with (l, _) :: _ => (d <= l)%nat | [] => True end.

  Lemma tree_run_unfold f st inp :
    tree_run (S f) chs st inp =
    match tree_step chs st inp with
    | None => []
    | Some (st', inp', item) => if (fst item =? 0)%nat then tree_run f chs st' inp' else item :: tree_run f chs st' inp'
    end.
  Proof. reflexivity. Qed.

  (* reading one coefficient *)
  Lemma step_read st c inp : stable st ->
    tree_step chs st (c :: inp) = Some (push 0 c st, inp, (0%nat, c)).
  Proof.
    intros Hs. unfold tree_step, push. fold depth.
    destruct st as [|[l1 v1] [|[l2 v2] st']]; cbn [fst]; try reflexivity.
    cbn in Hs. destruct (Nat.eqb_spec l1 l2); [contradiction|]. reflexivity.
  Qed.

  (* merging two entries of equal level *)
  Lemma step_merge d v1 v2 st inp :
    tree_step chs ((d, v2) :: (d, v1) :: st) inp = Some (push (S d) (v1 * nth d chs 0 + v2) st, inp, (S d, v1 * nth d chs 0 + v2)).
  Proof. unfold tree_step, push. fold depth. rewrite Nat.eqb_refl. cbn [fst]. reflexivity. Qed.

  Lemma pow2_pos d : (1 <= 2 ^ d)%nat.
  Proof. induction d; cbn; lia. Qed.

  (* a complete block of level d is consumed in steps d steps, emits bemit d and leaves its value on the stack *)
  Lemma block_run : forall d L st inp fuel,
    length L = (2 ^ d)%nat -> (d <= depth)%nat -> stable st -> above d st ->
    tree_run (steps d + fuel) chs st (L ++ inp) = bemit d L ++ tree_run fuel chs (push d (bval d L) st) inp.
  Proof.
    induction d as [|d IH]; intros L st inp fuel HL Hd Hs Ha.
    - destruct L as [|c [|c2 L]]; cbn in HL; try lia. cbn [steps Nat.add app bemit bval hd].
      rewrite tree_run_unfold, (step_read st c inp Hs). cbn [fst Nat.eqb]. reflexivity.
    - cbn [steps bemit bval]. set (h := (2 ^ d)%nat).
      assert (Hh : (h <= length L)%nat) by (unfold h; rewrite HL; cbn; lia).
      set (L1 := firstn h L). set (L2 := skipn h L).
      assert (E : L = L1 ++ L2) by (symmetry; apply firstn_skipn).
      assert (H1 : length L1 = h) by (unfold L1; rewrite firstn_length; lia).
      assert (H2 : length L2 = h) by (unfold L2; rewrite skipn_length, HL; cbn; unfold h; lia).
      rewrite E at 1. rewrite <- app_assoc.
      replace (steps d + (steps d + 1) + fuel)%nat with (steps d + (steps d + (S fuel)))%nat by lia.
      assert (Ha' : above d st) by (destruct st as [|[l v] t]; [exact I|]; cbn [above] in *; lia).
      assert (Hd' : (d <= depth)%nat) by lia.
      rewrite (IH L1 st (L2 ++ inp) _ H1 Hd' Hs Ha').
      assert (Ep : push d (bval d L1) st = (d, bval d L1) :: st).
      { unfold push. destruct (Nat.eqb_spec d depth); [lia|reflexivity]. }
      rewrite Ep.
      rewrite (IH L2 ((d, bval d L1) :: st) inp _ H2 Hd').
      + assert (Ep2 : push d (bval d L2) ((d, bval d L1) :: st) = (d, bval d L2) :: (d, bval d L1) :: st).
        { unfold push. destruct (Nat.eqb_spec d depth); [lia|reflexivity]. }
        rewrite Ep2, tree_run_unfold, step_merge. cbn [fst Nat.eqb]. rewrite <- !app_assoc. reflexivity.
      + cbn. destruct st as [|[l v] t]; [exact I|]. cbn in Ha. lia.
      + cbn. lia.
  Qed.

  (* the whole stream, when its length is a multiple of 2^depth: block after block from the empty stack *)
  Fixpoint blocks_emit (bs : list (list F)) : list (nat * F) :=
    match bs with [] => [] | b :: t => bemit depth b ++ blocks_emit t end.

  Lemma push_depth v st : push depth v st = st.
  Proof. unfold push. rewrite Nat.eqb_refl. reflexivity. Qed.

  Lemma blocks_run : forall bs inp fuel,
    Forall (fun b => length b = (2 ^ depth)%nat) bs ->
    tree_run (length bs * steps depth + fuel) chs [] (concat bs ++ inp) = blocks_emit bs ++ tree_run fuel chs [] inp.
  Proof.
    induction bs as [|b t IH]; intros inp fuel Hb; [reflexivity|].
    inversion Hb as [|? ? Hlen Ht]; subst. cbn [length Nat.mul concat blocks_emit]. rewrite <- !app_assoc.
    replace (steps depth + length t * steps depth + fuel)%nat with (steps depth + (length t * steps depth + fuel))%nat by lia.
    rewrite (block_run depth b [] (concat t ++ inp) _ Hlen (le_n _) I I), push_depth, (IH inp fuel Ht). reflexivity.
  Qed.

  Lemma tree_run_end fuel : tree_run fuel chs [] [] = [].
  Proof. destruct fuel; reflexivity. Qed.

  Lemma steps_eq d : (steps d + 1 = 2 * 2 ^ d)%nat.
  Proof. induction d as [|d IH]; cbn [steps Nat.pow]; lia. Qed.
  Lemma steps_le d : (steps d <= 2 * 2 ^ d)%nat.
  Proof. pose proof (steps_eq d). lia. Qed.

  (* the iterator on a stream made of complete blocks *)
  Theorem tree_iter_full_blocks bs :
    Forall (fun b => length b = (2 ^ depth)%nat) bs ->
    tree_iter chs (concat bs) = blocks_emit bs.
  Proof.
    intros Hb. unfold tree_iter. fold depth.
    assert (Ln : length (concat bs) = (length bs * 2 ^ depth)%nat).
    { induction Hb as [|b t Hl _ IHb]; [reflexivity|]. cbn [concat length]. rewrite app_length, IHb, Hl. lia. }
    assert (Ei : init_stack (length (concat bs)) depth = []).
    { unfold init_stack. rewrite Ln, Nat.mod_mul by (pose proof (pow2_pos depth); lia). reflexivity. }
    rewrite Ei.
    pose proof (steps_le depth) as Hs.
    set (fuel := (2 * (length (concat bs) + 2 ^ depth) + 2 - length bs * steps depth)%nat).
    replace (2 * (length (concat bs) + 2 ^ depth) + 2)%nat with (length bs * steps depth + fuel)%nat.
    - rewrite <- (app_nil_r (concat bs)) at 1. rewrite (blocks_run bs [] fuel Hb), tree_run_end, app_nil_r. reflexivity.
    - unfold fuel. rewrite Ln. assert (length bs * steps depth <= length bs * (2 * 2 ^ depth))%nat by (apply Nat.mul_le_mono_l; exact Hs). lia.
  Qed.

  (* ---------------- the emitted items, level by level, are the successive foldings ---------------- *)
  (* the same block values with the challenge list as a parameter *)
  Fixpoint bvalc (cs : list F) (d : nat) (L : list F) : F :=
    match d with
    | O => hd 0 L
    | S d' => bvalc cs d' (firstn (2 ^ d') L) * nth d' cs 0 + bvalc cs d' (skipn (2 ^ d') L)
    end.
  Lemma bval_bvalc d L : bval d L = bvalc chs d L.
  Proof. revert L. induction d as [|d IH]; intros L; cbn [bval bvalc]; [reflexivity|]. rewrite !IH. reflexivity. Qed.

  (* level-i values inside a block of level d *)
  Fixpoint levc (cs : list F) (i d : nat) (L : list F) : list F :=
    if (i =? d)%nat then [bvalc cs d L]
    else match d with
         | O => []
         | S d' => levc cs i d' (firstn (2 ^ d') L) ++ levc cs i d' (skipn (2 ^ d') L)
         end.

  Lemma levc_S cs i d L :
    levc cs i (S d) L = if (i =? S d)%nat then [bvalc cs (S d) L]
                        else levc cs i d (firstn (2 ^ d) L) ++ levc cs i d (skipn (2 ^ d) L).
  Proof. reflexivity. Qed.

  Lemma fold1_app c : forall l1 l2, Nat.even (length l1) = true -> fold1 c (l1 ++ l2) = fold1 c l1 ++ fold1 c l2.
  Proof.
    intros l1. remember (length l1) as n eqn:Hn. revert l1 Hn. induction n as [n IH] using lt_wf_ind. intros l1 Hn l2 He.
    destruct l1 as [|a [|b t]]; cbn [length] in *; subst.
    - reflexivity.
    - cbn in He. discriminate.
    - cbn [app fold1]. f_equal. apply (IH (length t)); [lia|reflexivity|exact He].
  Qed.

  Lemma fold1_len c L k : length L = (2 * k)%nat -> length (fold1 c L) = k.
  Proof.
    revert L. induction k as [|k IH]; intros L H.
    - destruct L; [reflexivity|cbn in H; lia].
    - destruct L as [|a [|b t]]; cbn [length] in H; try lia. cbn [fold1 length]. rewrite IH by lia. reflexivity.
  Qed.

  Lemma even_pow2 d : Nat.even (2 ^ S d) = true.
  Proof. rewrite Nat.pow_succ_r'. rewrite Nat.even_mul. reflexivity. Qed.

  (* halves of a folded block *)
  Lemma fold1_halves c d L : length L = (2 ^ S (S d))%nat ->
    firstn (2 ^ d) (fold1 c L) = fold1 c (firstn (2 ^ S d) L) /\ skipn (2 ^ d) (fold1 c L) = fold1 c (skipn (2 ^ S d) L).
  Proof.
    intros HL. set (h := (2 ^ S d)%nat).
    assert (E : L = firstn h L ++ skipn h L) by (symmetry; apply firstn_skipn).
    assert (H1 : length (firstn h L) = h) by (rewrite firstn_length, HL; unfold h; rewrite (Nat.pow_succ_r' 2 (S d)); lia).
    rewrite E at 1 3. rewrite fold1_app by (rewrite H1; apply even_pow2).
    assert (Lf : length (fold1 c (firstn h L)) = (2 ^ d)%nat).
    { apply fold1_len. rewrite H1. unfold h. rewrite Nat.pow_succ_r'. reflexivity. }
    split.
    - rewrite firstn_app, <- Lf, Nat.sub_diag, firstn_all. cbn [firstn]. apply app_nil_r.
    - rewrite skipn_app, <- Lf, Nat.sub_diag, skipn_all. reflexivity.
  Qed.

  Lemma nth_tl (cs : list F) k : nth (S k) cs 0 = nth k (tl cs) 0.
  Proof. destruct cs; [destruct k; reflexivity|reflexivity]. Qed.

  Lemma bvalc_shift cs : forall d L, length L = (2 ^ S d)%nat ->
    bvalc cs (S d) L = bvalc (tl cs) d (fold1 (nth 0 cs 0) L).
  Proof.
    induction d as [|d IH]; intros L HL.
    - destruct L as [|a [|b [|x t]]]; cbn in HL; try lia. cbn. reflexivity.
    - cbn [bvalc]. destruct (fold1_halves (nth 0 cs 0) d L HL) as [E1 E2].
      assert (H1 : length (firstn (2 ^ S d) L) = (2 ^ S d)%nat) by (rewrite firstn_length, HL, (Nat.pow_succ_r' 2 (S d)); lia).
      assert (H2 : length (skipn (2 ^ S d) L) = (2 ^ S d)%nat) by (rewrite skipn_length, HL, (Nat.pow_succ_r' 2 (S d)); lia).
      change (bvalc cs (S d) (firstn (2 ^ S d) L) * nth (S d) cs 0 + bvalc cs (S d) (skipn (2 ^ S d) L)
              = bvalc (tl cs) d (firstn (2 ^ d) (fold1 (nth 0 cs 0) L)) * nth d (tl cs) 0 + bvalc (tl cs) d (skipn (2 ^ d) (fold1 (nth 0 cs 0) L))).
      rewrite (IH _ H1), (IH _ H2), E1, E2, nth_tl. reflexivity.
  Qed.

  Lemma levc_shift cs i : forall d L, length L = (2 ^ S d)%nat -> (i <= d)%nat ->
    levc cs (S i) (S d) L = levc (tl cs) i d (fold1 (nth 0 cs 0) L).
  Proof.
    induction d as [|d IH]; intros L HL Hi.
    - assert (i = 0)%nat by lia. subst. rewrite levc_S. cbn [Nat.eqb levc]. rewrite bvalc_shift by exact HL. reflexivity.
    - rewrite (levc_S cs (S i) (S d) L), (levc_S (tl cs) i d). destruct (Nat.eqb_spec i (S d)) as [->|Hne].
      + rewrite Nat.eqb_refl. rewrite bvalc_shift by exact HL. reflexivity.
      + assert (Hne2 : (S i =? S (S d))%nat = false) by (apply Nat.eqb_neq; lia). rewrite Hne2.
        destruct (fold1_halves (nth 0 cs 0) d L HL) as [E1 E2].
        assert (H1 : length (firstn (2 ^ S d) L) = (2 ^ S d)%nat) by (rewrite firstn_length, HL, (Nat.pow_succ_r' 2 (S d)); lia).
        assert (H2 : length (skipn (2 ^ S d) L) = (2 ^ S d)%nat) by (rewrite skipn_length, HL, (Nat.pow_succ_r' 2 (S d)); lia).
        rewrite (IH _ H1 ltac:(lia)), (IH _ H2 ltac:(lia)), E1, E2. reflexivity.
  Qed.

  Fixpoint foldk (cs : list F) (L : list F) : list F :=
    match cs with [] => L | c :: t => foldk t (fold1 c L) end.

  Lemma levc_zero cs : forall d L, length L = (2 ^ d)%nat -> levc cs 0 d L = L.
  Proof.
    induction d as [|d IH]; intros L HL.
    - destruct L as [|a [|b t]]; cbn in HL; try lia. reflexivity.
    - rewrite levc_S. cbn [Nat.eqb].
      rewrite IH by (rewrite firstn_length, HL, Nat.pow_succ_r'; lia).
      rewrite IH by (rewrite skipn_length, HL, Nat.pow_succ_r'; lia). apply firstn_skipn.
  Qed.

  Lemma levc_foldk : forall i cs d L, length L = (2 ^ d)%nat -> (i <= d)%nat -> (i <= length cs)%nat ->
    levc cs i d L = foldk (firstn i cs) L.
  Proof.
    induction i as [|i IH]; intros cs d L HL Hd Hc.
    - rewrite levc_zero by exact HL. reflexivity.
    - destruct d as [|d]; [lia|]. destruct cs as [|c t]; [cbn in Hc; lia|].
      rewrite levc_shift by (try exact HL; lia). cbn [nth tl firstn foldk].
      apply IH; [apply fold1_len; rewrite HL, Nat.pow_succ_r'; reflexivity|lia|cbn in Hc; lia].
  Qed.

  (* levels of the emission of one block *)
  Lemma bemit_levels : forall d L, Forall (fun it : nat * F => (1 <= fst it <= d)%nat) (bemit d L).
  Proof.
    induction d as [|d IH]; intros L; cbn [bemit]; [constructor|].
    rewrite !Forall_app. repeat split.
    - eapply Forall_impl; [|apply IH]. cbn. intros a H. lia.
    - eapply Forall_impl; [|apply IH]. cbn. intros a H. lia.
    - constructor; [cbn; lia|constructor].
  Qed.

  Lemma by_level_app i a b : by_level i (a ++ b) = by_level i a ++ by_level i b.
  Proof. unfold by_level. rewrite filter_app, map_app. reflexivity. Qed.

  Lemma by_level_none i l : Forall (fun it : nat * F => fst it <> i) l -> by_level i l = [].
  Proof.
    induction 1 as [|[lv x] t Hx _ IH]; [reflexivity|]. unfold by_level in *. cbn [filter fst].
    cbn [fst] in Hx. destruct (Nat.eqb_spec lv i); [contradiction|]. exact IH.
  Qed.

  Lemma by_level_bemit i : forall d L, (1 <= i)%nat -> (i <= d)%nat -> by_level i (bemit d L) = levc chs i d L.
  Proof.
    induction d as [|d IH]; intros L Hi Hd; [lia|].
    cbn [bemit]. rewrite levc_S, !by_level_app.
    destruct (Nat.eqb_spec i (S d)) as [->|Hne].
    - rewrite (by_level_none (S d) (bemit d (firstn (2 ^ d) L))), (by_level_none (S d) (bemit d (skipn (2 ^ d) L))).
      + unfold by_level. cbn [filter fst]. rewrite Nat.eqb_refl. cbn [map snd app]. rewrite bval_bvalc. reflexivity.
      + eapply Forall_impl; [|apply bemit_levels]. cbn. intros a H. lia.
      + eapply Forall_impl; [|apply bemit_levels]. cbn. intros a H. lia.
    - rewrite (IH _ Hi ltac:(lia)), (IH _ Hi ltac:(lia)).
      unfold by_level at 1. cbn [filter fst]. destruct (Nat.eqb_spec (S d) i); [lia|]. cbn [map]. rewrite app_nil_r. reflexivity.
  Qed.

  (* foldk distributes over a concatenation of blocks *)
  Lemma foldk_app : forall cs l1 l2, (exists k, length l1 = (k * 2 ^ length cs)%nat) -> foldk cs (l1 ++ l2) = foldk cs l1 ++ foldk cs l2.
  Proof.
    induction cs as [|c t IH]; intros l1 l2 [k Hk]; [reflexivity|]. cbn [foldk length] in *.
    rewrite Nat.pow_succ_r' in Hk.
    rewrite fold1_app by (rewrite Hk, Nat.mul_assoc, (Nat.mul_comm k 2), <- Nat.mul_assoc, Nat.even_mul; reflexivity).
    apply IH. exists k. apply fold1_len. rewrite Hk. lia.
  Qed.

  Lemma foldk_nil : forall cs, foldk cs [] = [].
  Proof. induction cs as [|c t IH]; [reflexivity|exact IH]. Qed.

  Lemma by_level_blocks i : forall bs, Forall (fun b => length b = (2 ^ depth)%nat) bs -> (1 <= i)%nat -> (i <= depth)%nat ->
    by_level i (blocks_emit bs) = foldk (firstn i chs) (concat bs).
  Proof.
    induction 1 as [|b t Hb _ IH]; intros Hi Hd; [cbn [blocks_emit concat]; rewrite foldk_nil; reflexivity|].
    cbn [blocks_emit concat]. rewrite by_level_app, (IH Hi Hd), by_level_bemit by assumption.
    rewrite (levc_foldk i chs depth b Hb Hd Hd).
    rewrite foldk_app; [reflexivity|].
    exists (2 ^ (depth - i))%nat. rewrite firstn_length, Nat.min_l by exact Hd.
    rewrite Hb, <- Nat.pow_add_r. f_equal. lia.
  Qed.

  (* the model's list of successive foldings *)
  Lemma foldings_nth : forall cs L i, (i < length cs)%nat -> nth i (foldings cs L) [] = foldk (firstn (S i) cs) L.
  Proof.
    induction cs as [|c t IH]; intros L i Hi; [cbn in Hi; lia|].
    cbn [foldings]. destruct i as [|i]; [reflexivity|]. cbn [nth firstn foldk]. apply IH. cbn in Hi. lia.
  Qed.

  (* C14: for a stream of complete blocks the level-i items of the tree iterator are the i-th folding *)
  Theorem tree_iter_is_naive_folding bs i :
    Forall (fun b => length b = (2 ^ depth)%nat) bs -> (1 <= i)%nat -> (i <= depth)%nat ->
    by_level i (tree_iter chs (concat bs)) = nth (i - 1) (fold_tree chs (concat bs)) [].
  Proof.
    intros Hb Hi Hd. rewrite (tree_iter_full_blocks bs Hb), (by_level_blocks i bs Hb Hi Hd).
    unfold fold_tree, pad_front. fold depth.
    assert (Ln : length (concat bs) = (length bs * 2 ^ depth)%nat).
    { clear - Hb. induction Hb as [|b t Hl _ IHb]; [reflexivity|]. cbn [concat length]. rewrite app_length, IHb, Hl. lia. }
    rewrite Ln, Nat.mod_mul by (pose proof (pow2_pos depth); lia). cbn [Nat.eqb].
    rewrite foldings_nth by (fold depth; lia). replace (S (i - 1)) with i by lia. reflexivity.
  Qed.
End StreamIter.
