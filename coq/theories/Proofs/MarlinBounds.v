(* C04: degree bounds in MarlinKZG10 - admission by committer and prover, shift elements
   computed by trim, and the verifier's reaction to a mislabelled bound. *)
From Coq Require Import List Arith NArith Bool Lia Field Ring.
From PC Require Import Base.Field Base.Result Base.Poly Base.OrdMap Proofs.PolyFacts
     Schemes.KZG10 Schemes.LC Schemes.Marlin Proofs.KZG10Facts Proofs.KZG10Binding Proofs.MarlinComplete.
Import ListNotations.
Open Scope F_scope.

Section MarlinBounds.
  Context {FO : FieldOps} {FL : FieldLaws FO}.
  Add Field Ffield9 : FL_field.

  (* ---- admission ---- *)
  Definition bound_admissible (ck : CKey) (p : poly) (d : nat) : bool :=
    nat_mem d (bounds_list ck) && (degree p <=? d) && (d <=? ck_max_degree ck).

  Lemma check_dab_iff ck p d :
    check_degrees_and_bounds (ck_max_degree ck) (ck_bounds ck) p (Some d) = Ok tt <-> bound_admissible ck p d = true.
  Proof.
    unfold check_degrees_and_bounds, bound_admissible, bounds_list.
    destruct (ck_bounds ck) as [bs|]; cbn [nat_mem existsb andb]; [|split; discriminate].
    destruct (nat_mem d bs); cbn [negb andb]; [|split; discriminate].
    destruct (Nat.ltb_spec d (degree p)); destruct (Nat.leb_spec (degree p) d); try lia; cbn [orb andb]; try (split; discriminate).
    destruct (Nat.ltb_spec (ck_max_degree ck) d); destruct (Nat.leb_spec d (ck_max_degree ck)); try lia; split; try discriminate; reflexivity.
  Qed.

  Lemma check_dab_refuses ck p d :
    bound_admissible ck p d = false ->
    exists e, check_degrees_and_bounds (ck_max_degree ck) (ck_bounds ck) p (Some d) = Err e.
  Proof.
    intros H. destruct (check_degrees_and_bounds (ck_max_degree ck) (ck_bounds ck) p (Some d)) as [[]|e|] eqn:E.
    - apply check_dab_iff in E. congruence.
    - eauto.
    - exfalso. unfold check_degrees_and_bounds in E. destruct (ck_bounds ck); [|discriminate].
      destruct (negb _); [discriminate|]. destruct (_ || _); discriminate.
  Qed.

  (* the committer refuses a polynomial whose degree exceeds its declared bound, a bound the
     key was not trimmed for, or a bound above the maximum degree *)
  Theorem commit_refuses_bad_bound ck lp d rng :
    lp_bound lp = Some d -> bound_admissible ck (lp_poly lp) d = false ->
    exists e, commit1 ck lp rng = Err e.
  Proof.
    intros Hb Hbad. unfold commit1. rewrite Hb.
    destruct (check_dab_refuses _ _ _ Hbad) as [e ->]. exists e. reflexivity.
  Qed.

  (* ... and a polynomial above the supported degree *)
  Theorem commit_refuses_large ck lp rng :
    (length (ck_powers ck) < degree (lp_poly lp) + 1)%nat ->
    (forall d, lp_bound lp = Some d -> bound_admissible ck (lp_poly lp) d = true) ->
    commit1 ck lp rng = Err ETooManyCoefficients.
  Proof.
    intros Hl Hb. unfold commit1.
    assert (Hc : check_degrees_and_bounds (ck_max_degree ck) (ck_bounds ck) (lp_poly lp) (lp_bound lp) = Ok tt).
    { destruct (lp_bound lp) as [d|] eqn:E; [apply check_dab_iff; apply Hb; reflexivity|reflexivity]. }
    rewrite Hc. cbn [bind].
    assert (Hk : check_degree_is_too_large (degree (lp_poly lp)) (length (pw_g (ck_pw ck))) = Err ETooManyCoefficients).
    { destruct (degree_check_cases (degree (lp_poly lp)) (length (pw_g (ck_pw ck)))) as [[_ H]|[H _]]; [cbn in H; lia|exact H]. }
    unfold kzg_commit_opt, commit. rewrite Hk.
    destruct (lp_hiding lp); destruct rng; reflexivity.
  Qed.

  (* the prover refuses the same requests *)
  Theorem open_refuses_bad_bound ck z lp st items chal a d :
    lp_bound lp = Some d -> mr_shifted st <> None -> bound_admissible ck (lp_poly lp) d = false ->
    exists e, open_loop ck z ((lp, st) :: items) chal a = Err e.
  Proof.
    intros Hb Hs Hbad. cbn [open_loop]. rewrite Hb.
    destruct (mr_shifted st); [|contradiction]. cbn [Bool.eqb negb].
    destruct (check_dab_refuses _ _ _ Hbad) as [e ->]. exists e. reflexivity.
  Qed.

  (* ---- the verifier and a mislabelled bound (one degree-bounded polynomial) ---- *)
  Definition one (c sc : F) (d : nat) : list LComm :=
    [{| lc_label := 0%N; lc_comm := {| mc_comm := c; mc_shifted := Some sc |}; lc_bound := Some d |}].

  Theorem relabelled_bound vk c sc d d' sp sp' z v pf xi xi' rest :
    get_shift_power vk d = Some sp -> get_shift_power vk d' = Some sp' ->
    mcheck vk (one c sc d') z [v] pf (xi :: xi' :: rest) = Ok (true, rest) ->
    (mcheck vk (one c sc d) z [v] pf (xi :: xi' :: rest) = Ok (true, rest) <->
     (sp - sp') * v * xi' * vk_h (mvk_vk vk) = 0).
  Proof.
    intros Hd Hd'. unfold mcheck, one. cbn [accumulate lc_bound lc_comm mc_shifted mc_comm Bool.eqb negb].
    rewrite Hd, Hd'. cbn [bind].
    destruct (check_total (mvk_vk vk) (0 + c * xi + (sc - sp' * v) * xi') z (0 + v * xi) pf) as [b1 E1].
    destruct (check_total (mvk_vk vk) (0 + c * xi + (sc - sp * v) * xi') z (0 + v * xi) pf) as [b2 E2].
    rewrite E1, E2. cbn [bind]. intros H1. inversion H1; subst b1.
    apply check_iff_residual in E1.
    split; intros H2.
    - inversion H2; subst b2. apply check_iff_residual in E2.
      rewrite (residual_comm (mvk_vk vk) (0 + c * xi + (sc - sp' * v) * xi') (0 + c * xi + (sc - sp * v) * xi')) in E2.
      rewrite E1 in E2. transitivity (0 - (0 + (0 + c * xi + (sc - sp * v) * xi' - (0 + c * xi + (sc - sp' * v) * xi')) * vk_h (mvk_vk vk))); [ring|rewrite E2; ring].
    - f_equal. f_equal. destruct b2; [reflexivity|]. exfalso.
      apply check_false_iff in E2. apply E2.
      rewrite (residual_comm (mvk_vk vk) (0 + c * xi + (sc - sp' * v) * xi') (0 + c * xi + (sc - sp * v) * xi')).
      rewrite E1. transitivity (0 - (sp - sp') * v * xi' * vk_h (mvk_vk vk)); [ring|rewrite H2; ring].
  Qed.

  (* with keys from trim the two shift elements are g*beta^(D-d) and g*beta^(D-d') *)
  Corollary relabelled_bound_keys ck vk g gam h b D hi n m c sc d d' z v pf xi xi' rest :
    KeyOK ck vk g gam h b D hi n m ->
    nat_mem d (bounds_list ck) = true -> nat_mem d' (bounds_list ck) = true ->
    mcheck vk (one c sc d') z [v] pf (xi :: xi' :: rest) = Ok (true, rest) ->
    (mcheck vk (one c sc d) z [v] pf (xi :: xi' :: rest) = Ok (true, rest) <->
     (g * fpow b (D - d) - g * fpow b (D - d')) * v * xi' * h = 0).
  Proof.
    intros KO Hd Hd' H.
    destruct (K_shift _ _ _ _ _ _ _ _ _ _ KO d Hd) as [S1 _].
    destruct (K_shift _ _ _ _ _ _ _ _ _ _ KO d' Hd') as [S2 _].
    rewrite <- (K_vk_h _ _ _ _ _ _ _ _ _ _ KO).
    exact (relabelled_bound vk c sc d d' _ _ z v pf xi xi' rest S1 S2 H).
  Qed.

  (* a bound without a shifted part (or a shifted part without a bound) aborts the verifier *)
  Theorem dropped_shifted_part_aborts vk c d rest_cs z vs pf chal :
    mcheck vk ({| lc_label := 0%N; lc_comm := {| mc_comm := c; mc_shifted := None |}; lc_bound := Some d |} :: rest_cs)
           z vs pf chal = Panic \/ vs = [].
  Proof.
    destruct vs as [|v vs]; [right; reflexivity|left]. reflexivity.
  Qed.

  (* a bound the verifier key has no shift element for is an error, not a silent accept *)
  Theorem unknown_bound_is_error vk c sc d rest_cs z v vs pf xi xi' chal :
    get_shift_power vk d = None ->
    mcheck vk ({| lc_label := 0%N; lc_comm := {| mc_comm := c; mc_shifted := Some sc |}; lc_bound := Some d |} :: rest_cs)
           z (v :: vs) pf (xi :: xi' :: chal) = Err EUnsupportedDegreeBound.
  Proof. intros H. unfold mcheck. cbn [accumulate lc_bound lc_comm mc_shifted Bool.eqb negb]. rewrite H. reflexivity. Qed.

  (* trim publishes shift elements for exactly the (sorted, de-duplicated) enforced bounds *)
  Lemma assoc_nat_none (f : nat -> F) d l :
    nat_mem d l = false -> assoc_nat d (map (fun x => (x, f x)) l) = None.
  Proof.
    induction l as [|x l IH]; cbn [nat_mem existsb map assoc_nat]; [reflexivity|].
    rewrite (Nat.eqb_sym x d). destruct (Nat.eqb d x); cbn [orb]; [discriminate|exact IH].
  Qed.

  Theorem trim_shift_elements D beta g gamma_g h up s sh bounds ck vk d :
    setup D false beta g gamma_g h = Ok up ->
    mtrim up s sh bounds = Ok (ck, vk) ->
    get_shift_power vk d =
    (if nat_mem d (bounds_list ck) then Some (g * fpow beta (D - d)) else None).
  Proof.
    intros Hs Ht. destruct (mtrim_keyok _ _ _ _ _ _ _ _ _ _ _ Hs Ht) as (KO & _ & _ & Hb).
    destruct (nat_mem d (bounds_list ck)) eqn:E.
    - apply (K_shift _ _ _ _ _ _ _ _ _ _ KO d E).
    - unfold mtrim in Ht. cbv zeta in Ht.
      destruct (Nat.ltb _ _); [discriminate|].
      destruct (index_all _ _); cbn [bind] in Ht; try discriminate.
      unfold bounds_list in E. rewrite Hb in E.
      destruct (option_map sort_dedup bounds) as [[|b0 bs]|] eqn:Eb; cbn [bind] in Ht.
      + inversion Ht; subst. reflexivity.
      + destruct (Nat.ltb _ _); [discriminate|]. cbn [bind fst snd] in Ht. inversion Ht; subst.
        unfold get_shift_power. cbn [mvk_shifts].
        exact (assoc_nat_none (fun d => nth (max_degree up - d) (up_powers_of_g up) 0) d (b0 :: bs) E).
      + inversion Ht; subst. reflexivity.
  Qed.
End MarlinBounds.
