From Coq Require Import NArith List Bool Lia Field Ring.
From PC Require Import Base.Field Base.Result Base.Poly Proofs.PolyFacts Schemes.CalcT.
Import ListNotations.
Local Open Scope N_scope.

Section CalcTFacts.
  Variables (lam d0 d1 n fsize : N).
  Notation ca := (ca d0 d1). Notation cb := (cb d1). Notation cL := (cL lam).
  Notation bound_holds := (bound_holds lam d0 d1 n fsize).
  Notation holds_at := (holds_at lam n fsize).
  Notation find_t := (find_t lam d0 d1 n fsize).

  (* the search returns the least t (from its starting point) at which the bound holds *)
  Lemma find_t_sound : forall fuel t0 t,
      find_t fuel t0 (ca ^ t0) (cb ^ t0) = Some t ->
      bound_holds t = true /\ t0 <= t /\ forall t', t0 <= t' < t -> bound_holds t' = false.
  Proof.
    induction fuel as [|fuel IH]; intros t0 t H; cbn [CalcT.find_t] in H; [discriminate|].
    destruct (holds_at (ca ^ t0) (cb ^ t0)) eqn:E.
    - inversion H; subst. split; [exact E|]. split; [lia|]. intros t' Ht'. lia.
    - rewrite (N.mul_comm (ca ^ t0) ca), (N.mul_comm (cb ^ t0) cb) in H.
      rewrite <- !N.pow_succ_r' in H. apply IH in H. destruct H as (A & B & C).
      split; [exact A|]. split; [lia|]. intros t' Ht'.
      destruct (N.eq_dec t' t0) as [->|Hne]; [exact E|apply C; lia].
  Qed.

  Theorem t_min_is_least fuel t :
    t_min lam d0 d1 n fsize fuel = Some t ->
    bound_holds t = true /\ forall t', t' < t -> bound_holds t' = false.
  Proof.
    unfold t_min. intros H. change 1 with (ca ^ 0) in H at 1. change 1 with (cb ^ 0) in H.
    apply find_t_sound in H. destruct H as (A & _ & C). split; [exact A|]. intros t' Ht'. apply C. lia.
  Qed.

  (* the bound is monotone in t, so "least t" is also "exactly the t from which it holds" *)
  Theorem bound_mono t : bound_holds t = true -> bound_holds (N.succ t) = true.
  Proof.
    unfold CalcT.bound_holds, CalcT.holds_at. rewrite !N.leb_le, !N.pow_succ_r'.
    set (A := ca ^ t). set (B := cb ^ t). set (L := cL). intros H.
    assert (Hab : ca <= cb) by (unfold CalcT.ca, CalcT.cb; lia).
    assert (H1 : ca * A <= cb * A) by (apply N.mul_le_mono_r; exact Hab).
    assert (H2 : 2 * (ca * A) * L * fsize <= cb * (2 * A * L * fsize)).
    { replace (2 * (ca * A) * L * fsize) with ((ca * A) * (2 * L * fsize)) by ring.
      replace (cb * (2 * A * L * fsize)) with ((cb * A) * (2 * L * fsize)) by ring.
      apply N.mul_le_mono_r. exact H1. }
    assert (H3 : cb * (2 * A * L * fsize + n * B * L) <= cb * (B * fsize)) by (apply N.mul_le_mono_l; exact H).
    replace (n * (cb * B) * L) with (cb * (n * B * L)) by ring.
    replace (cb * B * fsize) with (cb * (B * fsize)) by ring.
    rewrite N.mul_add_distr_l in H3. lia.
  Qed.

  Theorem bound_holds_from t t' : bound_holds t = true -> t <= t' -> bound_holds t' = true.
  Proof.
    intros H Hle. replace t' with (t + (t' - t)) by lia. generalize (t' - t). intros k.
    induction k as [|k IH] using N.peano_ind; [rewrite N.add_0_r; exact H|].
    rewrite N.add_succ_r. apply bound_mono. exact IH.
  Qed.

  (* unusable parameters: n/|F| >= 2^-lambda leaves no t at all *)
  Theorem infeasible_no_t :
    infeasible lam n fsize = true -> 0 < ca -> 0 < fsize -> forall t, bound_holds t = false.
  Proof.
    unfold CalcT.infeasible, CalcT.bound_holds, CalcT.holds_at. rewrite N.leb_le. intros Hi Ha Hf t.
    apply N.leb_gt.
    assert (HA : 0 < ca ^ t) by (apply N.neq_0_lt_0, N.pow_nonzero; lia).
    assert (HL : 0 < cL) by (unfold CalcT.cL; apply N.neq_0_lt_0, N.pow_nonzero; lia).
    set (A := ca ^ t) in *. set (B := cb ^ t). set (L := cL) in *.
    assert (H1 : B * fsize <= B * (n * L)) by (apply N.mul_le_mono_l; exact Hi).
    assert (H2 : 0 < 2 * A * L * fsize) by (repeat apply N.mul_pos_pos; lia).
    replace (n * B * L) with (B * (n * L)) by ring. lia.
  Qed.

  (* calculate_t as a whole *)
  Theorem calc_t_spec fuel r :
    calc_t lam d0 d1 n fsize fuel = Some (Ok r) ->
    exists t, r = N.min t n /\ bound_holds t = true /\ (forall t', t' < t -> bound_holds t' = false) /\
              r <= n /\ infeasible lam n fsize = false /\ bad_distance d0 d1 = false.
  Proof.
    unfold calc_t. destruct (infeasible lam n fsize) eqn:Ei; [discriminate|].
    destruct (bad_distance d0 d1) eqn:Eb; [discriminate|].
    destruct (t_min lam d0 d1 n fsize fuel) as [t|] eqn:Et; [|discriminate].
    intros H. inversion H; subst. apply t_min_is_least in Et. destruct Et as [A C].
    exists t. repeat split; auto. lia.
  Qed.

  Theorem calc_t_errors fuel :
    (infeasible lam n fsize = true \/ bad_distance d0 d1 = true) ->
    calc_t lam d0 d1 n fsize fuel = Some (Err EInvalidParameters).
  Proof.
    unfold calc_t. intros [H|H].
    - rewrite H. reflexivity.
    - destruct (infeasible lam n fsize); [reflexivity|]. rewrite H. reflexivity.
  Qed.
End CalcTFacts.

(* ---- index derivation ---- *)
Theorem index_in_range n bytes i : index_of_bytes n bytes = Ok i -> i < n.
Proof.
  unfold index_of_bytes. destruct (N.eqb_spec n 0); [discriminate|].
  intros H. inversion H; subst. apply N.mod_lt. exact n0.
Qed.

Theorem indices_in_range n : forall sq l, indices_of n sq = Ok l -> Forall (fun i => i < n) l /\ length l = length sq.
Proof.
  unfold indices_of. induction sq as [|b sq IH]; intros l H; cbn [mapM] in H.
  - inversion H; subst. split; [constructor|reflexivity].
  - destruct (index_of_bytes n b) as [i| |] eqn:E; cbn [bind] in H; try discriminate.
    destruct (mapM (index_of_bytes n) sq) as [r| |] eqn:E2; cbn [bind] in H; try discriminate.
    inversion H; subst. destruct (IH r eq_refl) as [A B]. split.
    + constructor; [eapply index_in_range; exact E|exact A].
    + cbn [length]. rewrite B. reflexivity.
Qed.

(* the big-endian fold of k bytes is below 256^k: with k <= 8 the usize arithmetic of the
   code cannot overflow *)
Lemma bytes_to_int_acc : forall bytes acc,
    Forall (fun x => x < 256) bytes ->
    fold_left (fun a x => a * 256 + x) bytes acc < (acc + 1) * 256 ^ N.of_nat (length bytes).
Proof.
  induction bytes as [|b bytes IH]; intros acc Hb; cbn [fold_left length].
  - cbn. lia.
  - inversion Hb; subst. specialize (IH (acc * 256 + b) H2).
    rewrite Nat2N.inj_succ, N.pow_succ_r'.
    eapply N.lt_le_trans; [exact IH|].
    replace ((acc + 1) * (256 * 256 ^ N.of_nat (length bytes))) with ((acc * 256 + 256) * 256 ^ N.of_nat (length bytes)) by ring.
    apply N.mul_le_mono_r. lia.
Qed.

Theorem bytes_to_int_bound bytes :
  Forall (fun x => x < 256) bytes -> bytes_to_int bytes < 256 ^ N.of_nat (length bytes).
Proof. intros H. pose proof (bytes_to_int_acc bytes 0 H) as B. unfold bytes_to_int. lia. Qed.

(* ---- Reed-Solomon encoding is a linear map of the declared length ---- *)
Section RSFacts.
  Context {FO : FieldOps} {FL : FieldLaws FO}.
  Add Field Ffield7 : FL_field.
  Local Open Scope F_scope.

  Lemma domain_from_length cur omega m : length (domain_from cur omega m) = m.
  Proof. revert cur; induction m as [|m IH]; intros cur; cbn [domain_from length]; auto. Qed.

  Theorem rs_length omega m msg : length (rs_encode omega m msg) = m.
  Proof. unfold rs_encode. rewrite map_length. apply domain_from_length. Qed.

  Definition lin2 (a b : F) (u v : list F) : list F := map (fun uv => a * fst uv + b * snd uv) (combine u v).

  Theorem rs_linear omega m a b x y :
    rs_encode omega m (padd (pscale a x) (pscale b y)) = lin2 a b (rs_encode omega m x) (rs_encode omega m y).
  Proof.
    unfold rs_encode, lin2. generalize (domain_from 1 omega m). intros dom.
    induction dom as [|p dom IH]; cbn [map combine]; [reflexivity|].
    rewrite IH. f_equal. cbn [fst snd]. rewrite eval_padd, !eval_pscale. reflexivity.
  Qed.
End RSFacts.
