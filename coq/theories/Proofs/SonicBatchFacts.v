(* SonicKZG10::batch_check: one accumulate_elems call per point group, the k-th scaled by the k-th randomizer (1 for
   the first), then one check_elems.  The value compared with zero is the randomizer-weighted sum of the values the
   single-point check compares with zero, group by group on the shared challenge tape. *)
From Coq Require Import List Arith NArith Bool Lia Field Ring.
From PC Require Import Base.Field Base.Result Base.Poly Base.OrdMap Proofs.PolyFacts Schemes.KZG10 Schemes.Marlin Schemes.Sonic
     Proofs.KZG10Facts.
Import ListNotations.
Open Scope F_scope.

Section SonicBatchFacts.
  Context {FO : FieldOps} {FL : FieldLaws FO}.
  Add Field Ffield41 : FL_field.

  (* the value s_check compares with zero (None: a shift element was missing; the error is kept) *)
  Definition s_resid (vk : SVKey) (cs : list (F * option nat)) (z : F) (vs : list F) (pf : Proof) (chal : list F)
    : res (res F * list F) :=
    match chal with
    | [] => Err EOther
    | c0 :: chal0 =>
      do a <- s_acc vk cs vs c0 chal0 0 0;
      let '(l, va, rest) := a in
      let k := svk_vk vk in
      let adj := fsub (fmul (vk_g k) va) (fmul (pf_w pf) z) in
      let adj := match pf_random_v pf with Some rv => fadd adj (fmul (vk_gamma_g k) rv) | None => adj end in
      Ok (match l with
          | Ok lhs => Ok (fsub (fsub lhs (fmul adj (vk_h k))) (fmul (pf_w pf) (vk_beta_h k)))
          | Err e => Err e
          | Panic => Panic
          end, rest)
    end.

  Lemma s_check_is_resid vk cs z vs pf chal y rest :
    s_resid vk cs z vs pf chal = Ok (Ok y, rest) -> s_check vk cs z vs pf chal = Ok (feqb y 0, rest).
  Proof.
    unfold s_resid, s_check. destruct chal as [|c0 chal0]; [discriminate|].
    destruct (s_acc vk cs vs c0 chal0 0 0) as [[[l va] r]| |]; cbn [bind]; try discriminate.
    destruct l as [lhs| |]; intros H; try discriminate. injection H as <- <-. reflexivity.
  Qed.

  Definition sb_val (k : VKey) (a : sbacc) (x : F) : Prop :=
    exists l, sb_lhs a = Ok l /\ x = l - sb_adj a * vk_h k - sb_wit a * vk_beta_h k.

  Lemma s_accumulate_resid vk cs z vs pf chal rho a y rest x :
    s_resid vk cs z vs pf chal = Ok (Ok y, rest) -> sb_val (svk_vk vk) a x ->
    exists a', s_accumulate vk cs z vs pf chal rho a = Ok (a', rest) /\ sb_val (svk_vk vk) a' (x + rho * y).
  Proof.
    unfold s_resid, s_accumulate. destruct chal as [|c0 chal0]; [discriminate|].
    destruct (s_acc vk cs vs c0 chal0 0 0) as [[[l va] r]| |]; cbn [bind]; try discriminate.
    destruct l as [lhs| |]; intros H (l0 & El & Ex); try discriminate. injection H as <- <-.
    eexists. split; [reflexivity|]. unfold sb_val. cbn [sb_lhs sb_adj sb_wit]. rewrite El.
    eexists. split; [reflexivity|]. rewrite Ex. destruct (pf_random_v pf); ring.
  Qed.

  (* the residuals of the groups, in order, on the shared challenge tape *)
  Fixpoint s_group_resids (vk : SVKey) (cm : list (N * (F * option nat))) (ev : evals) (groups : list (N * (F * list N)))
           (pfs : list Proof) (chal : list F) : res (list F * list F) :=
    match groups, pfs with
    | (_, (pt, labels)) :: t, pf :: pfs' =>
      do cv <- s_gather cm ev pt labels;
      do r <- s_resid vk (fst cv) pt (snd cv) pf chal;
      match fst r with
      | Ok y => do rest <- s_group_resids vk cm ev t pfs' (snd r); Ok (y :: fst rest, snd rest)
      | Err e => Err e
      | Panic => Panic
      end
    | _, _ => Ok ([], chal)
    end.

  Fixpoint wsum (ws rs : list F) : F :=
    match ws, rs with w :: ws', r :: rs' => w * r + wsum ws' rs' | _, _ => 0 end.

  Lemma s_batch_groups_weighted vk cm ev : forall groups pfs chal rho vtape a draws rs rest x,
    s_group_resids vk cm ev groups pfs chal = Ok (rs, rest) ->
    (length rs <= length vtape)%nat ->
    sb_val (svk_vk vk) a x ->
    exists a', s_batch_groups vk cm ev groups pfs chal rho vtape a draws = Ok (a', rest, (draws + length rs)%nat)
               /\ sb_val (svk_vk vk) a' (x + wsum (rho :: vtape) rs).
  Proof.
    induction groups as [|[pl [pt labels]] t IH]; intros pfs chal rho vtape a draws rs rest x H L Hv.
    - cbn [s_group_resids] in H. injection H as <- <-. cbn [s_batch_groups length wsum]. exists a. split; [f_equal; f_equal; lia|].
      replace (x + 0) with x by ring. exact Hv.
    - destruct pfs as [|pf pfs'].
      + cbn [s_group_resids] in H. injection H as <- <-. cbn [s_batch_groups length wsum]. exists a. split; [f_equal; f_equal; lia|].
        replace (x + 0) with x by ring. exact Hv.
      + cbn [s_group_resids] in H. cbn [s_batch_groups].
        destruct (s_gather cm ev pt labels) as [cv| |]; cbn [bind] in *; try discriminate.
        destruct (s_resid vk (fst cv) pt (snd cv) pf chal) as [[r rest1]| |] eqn:Er; cbn [bind fst snd] in H; try discriminate.
        destruct r as [y| |]; try discriminate.
        destruct (s_group_resids vk cm ev t pfs' rest1) as [[rs1 rest2]| |] eqn:Eg; cbn [bind fst snd] in H; try discriminate.
        injection H as <- <-. cbn [length] in L.
        destruct (s_accumulate_resid vk (fst cv) pt (snd cv) pf chal rho a y rest1 x Er Hv) as (a1 & Ea & Hv1).
        rewrite Ea. cbn [bind fst snd].
        destruct vtape as [|rho' vtape']; [cbn in L; lia|].
        destruct (IH pfs' rest1 rho' vtape' a1 (S draws) rs1 rest2 (x + rho * y) Eg ltac:(cbn in L; lia) Hv1) as (a' & Eb & Hv').
        exists a'. split.
        * rewrite Eb. f_equal. f_equal. cbn [length]. lia.
        * change (wsum (rho :: rho' :: vtape') (y :: rs1)) with (rho * y + wsum (rho' :: vtape') rs1).
          replace (x + (rho * y + wsum (rho' :: vtape') rs1)) with (x + rho * y + wsum (rho' :: vtape') rs1) by ring.
          exact Hv'.
  Qed.

  (* the batch verifier decides whether the randomizer-weighted sum of the group residuals is zero *)
  Theorem sonic_batch_m_is_weighted_sum vk cs qs evm pfs chal vtape rs rest :
    length pfs = length (group_queries qs) ->
    s_group_resids vk (s_comm_map cs) evm (group_queries qs) pfs chal = Ok (rs, rest) ->
    (length rs <= length vtape)%nat ->
    s_batch_check_m vk cs qs evm pfs chal vtape = Ok (feqb (wsum (1 :: vtape) rs) 0, rest, length rs).
  Proof.
    intros Hl H L. unfold s_batch_check_m. rewrite Hl, Nat.eqb_refl. cbn [negb].
    assert (V0 : sb_val (svk_vk vk) {| sb_lhs := Ok 0; sb_adj := 0; sb_wit := 0 |} 0).
    { eexists. split; [reflexivity|]. cbn [sb_adj sb_wit]. ring. }
    destruct (s_batch_groups_weighted vk _ _ _ _ _ 1 vtape _ O rs rest 0 H L V0) as (a' & Ea & (l & El & Ex)).
    rewrite Ea. cbn [bind]. rewrite El. cbn [bind]. f_equal. f_equal. f_equal.
    rewrite <- Ex. f_equal. ring.
  Qed.
  Theorem sonic_batch_is_weighted_sum vk cs qs ev pfs chal vtape rs rest :
    length pfs = length (group_queries qs) ->
    s_group_resids vk (s_comm_map cs) (evals_map ev) (group_queries qs) pfs chal = Ok (rs, rest) ->
    (length rs <= length vtape)%nat ->
    s_batch_check vk cs qs ev pfs chal vtape = Ok (feqb (wsum (1 :: vtape) rs) 0, rest, length rs).
  Proof. unfold s_batch_check. apply sonic_batch_m_is_weighted_sum. Qed.

  Lemma wsum_zero ws : forall rs, Forall (fun r => r = 0) rs -> wsum ws rs = 0.
  Proof.
    revert ws. intros ws rs. revert ws. induction rs as [|r rs IH]; intros ws Hf; destruct ws as [|w ws]; cbn [wsum]; try reflexivity.
    inversion Hf as [|? ? Hr Hf']; subst. rewrite (IH ws Hf'). ring.
  Qed.

  (* every group's single check accepts: the batch accepts, whatever the randomizers *)
  Corollary sonic_batch_m_all_true vk cs qs evm pfs chal vtape rs rest :
    length pfs = length (group_queries qs) ->
    s_group_resids vk (s_comm_map cs) evm (group_queries qs) pfs chal = Ok (rs, rest) ->
    (length rs <= length vtape)%nat ->
    Forall (fun r => feqb r 0 = true) rs ->
    s_batch_check_m vk cs qs evm pfs chal vtape = Ok (true, rest, length rs).
  Proof.
    intros Hl H L Hf. rewrite (sonic_batch_m_is_weighted_sum vk cs qs evm pfs chal vtape rs rest Hl H L).
    rewrite wsum_zero; [rewrite (proj2 (FL_eqb 0 0) eq_refl); reflexivity|].
    eapply Forall_impl; [|exact Hf]. intros r Hr. apply FL_eqb. exact Hr.
  Qed.
  Corollary sonic_batch_all_true vk cs qs ev pfs chal vtape rs rest :
    length pfs = length (group_queries qs) ->
    s_group_resids vk (s_comm_map cs) (evals_map ev) (group_queries qs) pfs chal = Ok (rs, rest) ->
    (length rs <= length vtape)%nat ->
    Forall (fun r => feqb r 0 = true) rs ->
    s_batch_check vk cs qs ev pfs chal vtape = Ok (true, rest, length rs).
  Proof.
    intros Hl H L Hf. rewrite (sonic_batch_is_weighted_sum vk cs qs ev pfs chal vtape rs rest Hl H L).
    rewrite wsum_zero; [rewrite (proj2 (FL_eqb 0 0) eq_refl); reflexivity|].
    eapply Forall_impl; [|exact Hf]. intros r Hr. apply FL_eqb. exact Hr.
  Qed.

  (* exactly one group's single check rejects and its randomizer is not zero: the batch rejects *)
  Lemma wsum_single : forall ws pre r post, Forall (fun x => x = 0) pre -> Forall (fun x => x = 0) post ->
    (length pre < length ws)%nat ->
    wsum ws (pre ++ r :: post) = nth (length pre) ws 0 * r.
  Proof.
    induction ws as [|w ws IH]; intros pre r post Hp Hq L; [cbn in L; lia|].
    destruct pre as [|p pre].
    - cbn [app wsum length nth]. rewrite wsum_zero by exact Hq. ring.
    - inversion Hp as [|? ? Hp0 Hp']; subst. cbn [app wsum length nth]. rewrite IH by (try assumption; cbn in L; lia). ring.
  Qed.

  Corollary sonic_batch_one_false vk cs qs ev pfs chal vtape pre r post rest :
    length pfs = length (group_queries qs) ->
    s_group_resids vk (s_comm_map cs) (evals_map ev) (group_queries qs) pfs chal = Ok (pre ++ r :: post, rest) ->
    (length (pre ++ r :: post) <= length vtape)%nat ->
    Forall (fun x => feqb x 0 = true) pre -> Forall (fun x => feqb x 0 = true) post -> feqb r 0 = false ->
    nth (length pre) (1 :: vtape) 0 <> 0 ->
    s_batch_check vk cs qs ev pfs chal vtape = Ok (false, rest, length (pre ++ r :: post)).
  Proof.
    intros Hl H L Hp Hq Hr Hw. rewrite (sonic_batch_is_weighted_sum vk cs qs ev pfs chal vtape _ rest Hl H L).
    assert (Z : forall l, Forall (fun x => feqb x 0 = true) l -> Forall (fun x => x = 0) l).
    { intros l Hf. eapply Forall_impl; [|exact Hf]. intros x Hx. apply FL_eqb. exact Hx. }
    rewrite wsum_single; [| apply Z; exact Hp | apply Z; exact Hq |].
    - destruct (feqb (nth (length pre) (1 :: vtape) 0 * r) 0) eqn:E; [|reflexivity].
      apply FL_eqb in E. destruct (f_integral _ _ E) as [E1|E1]; [contradiction|].
      rewrite E1 in Hr. rewrite (proj2 (FL_eqb 0 0) eq_refl) in Hr. discriminate.
    - rewrite app_length in L. cbn [length] in *. lia.
  Qed.
End SonicBatchFacts.
