(* C08 beyond KZG10/Marlin: the commitments of Sonic, IPA and Marlin-PST13 are the key-defined linear map of the polynomial:
   the sum of the published key elements of the window in force (plain or shifted) weighted by the coefficients, additive,
   zero on the zero polynomial, blind to high-order zero coefficients. *)
From Coq Require Import List Arith NArith Bool Lia Field Ring.
From PC Require Import Base.Field Base.Result Base.Poly Base.OrdMap Proofs.PolyFacts Schemes.KZG10 Schemes.LC Schemes.Marlin Schemes.Sonic
     Proofs.KZG10Facts Proofs.MarlinComplete Proofs.Homomorphic Proofs.SetupFacts Proofs.SonicFacts Proofs.SonicKeys
     Schemes.IPA Proofs.LCFacts Proofs.IPAFacts Proofs.IPAComplete Schemes.PST13 Proofs.PST13Facts Schemes.PST13H Proofs.PST13HFacts.
Import ListNotations.
Open Scope F_scope.

Section CommitLinear.
  Context {FO : FieldOps} {FL : FieldLaws FO}.
  Add Field Ffield53 : FL_field.

  (* ---------------- KZG10.commit under ANY powers (the shared core of Marlin and Sonic) ---------------- *)
  Theorem kzg_commit_key_sum pw p hb rng c r n :
    commit pw p hb rng = Ok (c, r, n) ->
    c = msm (pw_g pw) (trim p) + msm (pw_gamma_g pw) r /\ (hb = None -> r = [] /\ n = O).
  Proof.
    unfold commit. destruct (check_degree_is_too_large (degree p) (length (pw_g pw))) as [[]| |]; cbn [bind]; try discriminate.
    destruct hb as [h|].
    - destruct rng as [tape|]; [|discriminate].
      destruct (take_tape (KZG10.rand_draws h) tape) as [cs| |]; cbn [bind]; try discriminate.
      destruct (check_hiding_bound (degree (trim cs)) (length (pw_gamma_g pw))) as [[]| |]; cbn [bind]; try discriminate.
      intros E. injection E as <- <- <-. rewrite commit_is_msm. split; [reflexivity|discriminate].
    - cbn [bind]. intros E. injection E as <- <- <-. rewrite commit_is_msm. split; [reflexivity|]. intros _. split; reflexivity.
  Qed.

  (* ---------------- Sonic ---------------- *)
  (* the commitment is the key sum over the window commit selects: the plain key, or the shifted powers of the bound *)
  Theorem sonic_commit_key_sum ck lp rng c r n :
    s_commit1 ck lp rng = Ok (c, r, n) ->
    exists pw, match lp_bound lp with
               | Some d => s_shifted_powers ck d = Ok pw
               | None => pw = {| pw_g := sck_g ck; pw_gamma_g := sck_gamma ck |}
               end /\
               c = msm (pw_g pw) (trim (lp_poly lp)) + msm (pw_gamma_g pw) r /\ (lp_hiding lp = None -> r = [] /\ n = O).
  Proof.
    unfold s_commit1.
    destruct (check_degrees_and_bounds (sck_max ck) (sck_bounds ck) (lp_poly lp) (lp_bound lp)) as [[]| |]; cbn [bind]; try discriminate.
    destruct (lp_bound lp) as [d|].
    - destruct (s_shifted_powers ck d) as [pw| |]; cbn [bind]; try discriminate.
      intros H. apply kzg_commit_opt_ok in H. exists pw. split; [reflexivity|]. exact (kzg_commit_key_sum _ _ _ _ _ _ _ H).
    - cbn [bind]. intros H. apply kzg_commit_opt_ok in H. eexists. split; [reflexivity|]. exact (kzg_commit_key_sum _ _ _ _ _ _ _ H).
  Qed.

  (* with parameters from setup and keys from trim: g and gamma_g times the evaluations at the trapdoor, shifted by the bound *)
  Theorem sonic_commit_value D beta g gam h up s sh bounds ck vk lp rng c r nd :
    setup D true beta g gam h = Ok up -> strim up s sh bounds = Ok (ck, vk) -> beta <> 0 ->
    s_commit1 ck lp rng = Ok (c, r, nd) ->
    c = match lp_bound lp with Some d => fpow beta (D - d) | None => 1 end * (g * eval (lp_poly lp) beta + gam * eval r beta).
  Proof.
    intros Hs Ht Hb Hc.
    destruct (strim_keys _ _ _ _ _ _ _ _ _ _ _ Hs Ht Hb) as (Kg & Kgg & V1 & V2 & V3 & V4 & Km & Kb & Kd).
    unfold s_commit1 in Hc.
    destruct (check_degrees_and_bounds (sck_max ck) (sck_bounds ck) (lp_poly lp) (lp_bound lp)) eqn:Ec; cbn [bind] in Hc; try discriminate.
    destruct (lp_bound lp) as [d|] eqn:Eb.
    - assert (Hd : nat_mem d (sbounds ck) = true).
      { unfold check_degrees_and_bounds in Ec. unfold sbounds. destruct (sck_bounds ck) as [bs|]; [|discriminate].
        destruct (nat_mem d bs); [reflexivity|discriminate]. }
      destruct (Kd d Hd) as (HdD & (pw & c0 & k & Esp & Epg & Epgg & Ec0 & Hk) & _).
      rewrite Esp in Hc. cbn [bind] in Hc. apply kzg_commit_opt_ok in Hc.
      destruct (commit_window2 _ _ _ _ _ _ _ _ _ _ _ _ _ _ Epg Epgg Hc) as [Ecm _].
      rewrite Ecm, Ec0. ring.
    - cbn [bind] in Hc. apply kzg_commit_opt_ok in Hc.
      destruct (commit_window2 g 1 gam 1 beta (s + 1) (sh + 2) {| pw_g := sck_g ck; pw_gamma_g := sck_gamma ck |} _ _ _ _ _ _ Kg Kgg Hc) as [Ecm _].
      rewrite Ecm. ring.
  Qed.

  Theorem sonic_commit_additive D beta g gam h up s sh bounds ck vk lab1 lab2 lab3 p q a a' bound rng1 rng2 rng3 c1 c2 c3 r1 r2 r3 n1 n2 n3 :
    setup D true beta g gam h = Ok up -> strim up s sh bounds = Ok (ck, vk) -> beta <> 0 ->
    s_commit1 ck {| lp_label := lab1; lp_poly := p; lp_bound := bound; lp_hiding := None |} rng1 = Ok (c1, r1, n1) ->
    s_commit1 ck {| lp_label := lab2; lp_poly := q; lp_bound := bound; lp_hiding := None |} rng2 = Ok (c2, r2, n2) ->
    s_commit1 ck {| lp_label := lab3; lp_poly := padd (pscale a p) (pscale a' q); lp_bound := bound; lp_hiding := None |} rng3 = Ok (c3, r3, n3) ->
    c3 = a * c1 + a' * c2.
  Proof.
    intros Hs Ht Hb H1 H2 H3.
    pose proof (sonic_commit_value _ _ _ _ _ _ _ _ _ _ _ _ _ _ _ _ Hs Ht Hb H1) as E1.
    pose proof (sonic_commit_value _ _ _ _ _ _ _ _ _ _ _ _ _ _ _ _ Hs Ht Hb H2) as E2.
    pose proof (sonic_commit_value _ _ _ _ _ _ _ _ _ _ _ _ _ _ _ _ Hs Ht Hb H3) as E3.
    destruct (sonic_commit_key_sum _ _ _ _ _ _ H1) as (_ & _ & _ & N1). destruct (N1 eq_refl) as [-> _].
    destruct (sonic_commit_key_sum _ _ _ _ _ _ H2) as (_ & _ & _ & N2). destruct (N2 eq_refl) as [-> _].
    destruct (sonic_commit_key_sum _ _ _ _ _ _ H3) as (_ & _ & _ & N3). destruct (N3 eq_refl) as [-> _].
    cbn [lp_poly lp_bound eval] in E1, E2, E3. rewrite E1, E2, E3, eval_padd, !eval_pscale. ring.
  Qed.

  (* ---------------- IPA (free-module view) ---------------- *)
  (* a non-hiding commitment is, coordinate by coordinate, the coefficient-weighted sum of the key; the shifted part is the same
     sum over the key window starting at supported_degree - bound *)
  Theorem ipa_commit_linear_map d lp rng cm st n :
    i_commit1 d lp rng = Ok (cm, st, n) -> lp_hiding lp = None ->
    (forall i, co i (ic_comm cm) = dot (lp_poly lp) (map (co i) (key_of d))) /\
    match lp_bound lp with
    | Some b => exists sc, ic_shifted cm = Some sc /\ forall i, co i sc = dot (lp_poly lp) (skipn (d - b) (map (co i) (key_of d)))
    | None => ic_shifted cm = None
    end.
  Proof.
    intros H Hn. destruct (commit1_sem_honest d lp rng cm st n H) as (_ & _ & Hc & Hs & Hnh & _).
    destruct (Hnh Hn) as [Er Esr]. split.
    - intros i. rewrite Hc, Er. ring.
    - destruct (lp_bound lp) as [b|]; [|exact Hs].
      destruct Hs as (sc & Esc & Hco). exists sc. split; [exact Esc|].
      intros i. rewrite Hco, Esr, dot_repeat0_app, dot_trim. ring.
  Qed.

  Theorem ipa_commit_additive d lab1 lab2 lab3 p q a a' bound rng1 rng2 rng3 c1 c2 c3 s1 s2 s3 n1 n2 n3 :
    i_commit1 d {| lp_label := lab1; lp_poly := p; lp_bound := bound; lp_hiding := None |} rng1 = Ok (c1, s1, n1) ->
    i_commit1 d {| lp_label := lab2; lp_poly := q; lp_bound := bound; lp_hiding := None |} rng2 = Ok (c2, s2, n2) ->
    i_commit1 d {| lp_label := lab3; lp_poly := padd (pscale a p) (pscale a' q); lp_bound := bound; lp_hiding := None |} rng3 = Ok (c3, s3, n3) ->
    (forall i, co i (ic_comm c3) = a * co i (ic_comm c1) + a' * co i (ic_comm c2)) /\
    match ic_shifted c1, ic_shifted c2, ic_shifted c3 with
    | Some x1, Some x2, Some x3 => forall i, co i x3 = a * co i x1 + a' * co i x2
    | None, None, None => bound = None
    | _, _, _ => False
    end.
  Proof.
    intros H1 H2 H3.
    destruct (ipa_commit_linear_map _ _ _ _ _ _ H1 eq_refl) as [E1 S1].
    destruct (ipa_commit_linear_map _ _ _ _ _ _ H2 eq_refl) as [E2 S2].
    destruct (ipa_commit_linear_map _ _ _ _ _ _ H3 eq_refl) as [E3 S3].
    cbn [lp_poly lp_bound] in *. split.
    - intros i. rewrite E1, E2, E3, dot_padd, !dot_pscale. reflexivity.
    - destruct bound as [b|].
      + destruct S1 as (x1 & -> & C1). destruct S2 as (x2 & -> & C2). destruct S3 as (x3 & -> & C3).
        intros i. rewrite C1, C2, C3, dot_padd, !dot_pscale. reflexivity.
      + rewrite S1, S2, S3. reflexivity.
  Qed.

  Theorem ipa_commit_zero d lab k bound rng cm st n :
    i_commit1 d {| lp_label := lab; lp_poly := repeat 0 k; lp_bound := bound; lp_hiding := None |} rng = Ok (cm, st, n) ->
    gvzero (ic_comm cm) = true /\ match ic_shifted cm with Some sc => gvzero sc = true | None => bound = None end.
  Proof.
    intros H. destruct (ipa_commit_linear_map _ _ _ _ _ _ H eq_refl) as [E S]. cbn [lp_poly lp_bound] in *. split.
    - apply gvzero_co. intros i. rewrite E. apply dot_zeros.
    - destruct bound as [b|]; [destruct S as (sc & -> & C); apply gvzero_co; intros i; rewrite C; apply dot_zeros|rewrite S; reflexivity].
  Qed.

  Theorem ipa_commit_ignores_trailing_zeros d lab p k bound hiding rng :
    i_commit1 d {| lp_label := lab; lp_poly := p ++ repeat 0 k; lp_bound := bound; lp_hiding := hiding |} rng
    = i_commit1 d {| lp_label := lab; lp_poly := p; lp_bound := bound; lp_hiding := hiding |} rng.
  Proof. unfold i_commit1, i_check_dab, degree. cbn [lp_poly lp_bound lp_hiding]. rewrite trim_app_zeros. reflexivity. Qed.

  (* ---------------- Marlin-PST13 (free-module view) ---------------- *)
  Theorem pst13_commit_additive nv s betas p q a rng1 rng2 rng3 c1 c2 c3 b1 b2 b3 n1 n2 n3 :
    ph_commit1 nv s betas p None rng1 = Ok (c1, b1, n1) ->
    ph_commit1 nv s betas q None rng2 = Ok (c2, b2, n2) ->
    ph_commit1 nv s betas (madd_scaled p a q) None rng3 = Ok (c3, b3, n3) ->
    forall i, co i c3 = co i c1 + a * co i c2.
  Proof.
    unfold ph_commit1. intros H1 H2 H3 i.
    destruct (s <? mdeg p)%nat; [discriminate|]. destruct (negb (vars_ok nv p)); [discriminate|]. injection H1 as <- _ _.
    destruct (s <? mdeg q)%nat; [discriminate|]. destruct (negb (vars_ok nv q)); [discriminate|]. injection H2 as <- _ _.
    destruct (s <? mdeg (madd_scaled p a q))%nat; [discriminate|]. destruct (negb (vars_ok nv (madd_scaled p a q))); [discriminate|]. injection H3 as <- _ _.
    destruct i as [|[|i]]; rewrite ?co_el0, ?co_el1, ?co_el2, ?eval_madd_scaled; ring.
  Qed.
End CommitLinear.
