(* Completeness of MarlinKZG10 (single openings of any list of polynomials with and
   without degree bounds and hiding): keys from setup/trim, commitments from commit,
   proof from open, same challenge tape on both sides  ==>  check accepts and both sides
   consume the same number of challenges. *)
From Coq Require Import List Arith NArith Bool Lia Field Ring.
From PC Require Import Base.Field Base.Result Base.Poly Base.OrdMap Proofs.PolyFacts
     Schemes.KZG10 Schemes.LC Schemes.Marlin Proofs.KZG10Facts Proofs.KZG10Binding.
Import ListNotations.
Open Scope F_scope.

Section MarlinComplete.
  Context {FO : FieldOps} {FL : FieldLaws FO}.
  Add Field Ffield8 : FL_field.

  (* [g*c, g*c*b, g*c*b^2, ...] : a window of the published powers *)
  Definition gpowers (g c b : F) (n : nat) : list F := map (fun s => g * s) (powers_from c b n).

  Lemma gpowers_length g c b n : length (gpowers g c b n) = n.
  Proof. unfold gpowers. rewrite map_length. apply powers_from_length. Qed.

  Lemma commit_coeffs_window g c b n p :
    (length (trim p) <= n)%nat -> commit_coeffs (gpowers g c b n) p = g * c * eval p b.
  Proof.
    intros H. unfold gpowers. rewrite commit_coeffs_msm, msm_powers_from by exact H. rewrite eval_trim. reflexivity.
  Qed.

  Lemma msm_window g c b n p :
    (length p <= n)%nat -> msm (gpowers g c b n) p = g * c * eval p b.
  Proof. intros H. unfold gpowers. apply msm_powers_from. exact H. Qed.

  (* KZG10.commit under a window of g-powers of length n and gamma-powers of length m *)
  Lemma commit_window g c gam b n m pw p hb rng cm r draws :
    pw_g pw = gpowers g c b n -> pw_gamma_g pw = gpowers gam 1 b m ->
    commit pw p hb rng = Ok (cm, r, draws) ->
    cm = g * c * eval p b + gam * eval r b /\ (length (trim p) <= n)%nat /\
    trim r = r /\ (length r <= m)%nat /\ (hb = None -> r = []).
  Proof.
    intros Hg Hgg. unfold commit.
    destruct (degree_check_cases (degree p) (length (pw_g pw))) as [[-> Hd]|[-> _]]; [|discriminate].
    cbn [bind].
    assert (Hlen : length (pw_g pw) = n) by (rewrite Hg; apply gpowers_length).
    assert (Hlen2 : length (pw_gamma_g pw) = m) by (rewrite Hgg; apply gpowers_length).
    assert (Hp : (length (trim p) <= n)%nat) by (apply degree_trim_length; lia).
    destruct hb as [hbv|].
    - destruct rng as [tape|]; [|discriminate]. unfold take_tape.
      destruct (Nat.ltb_spec (length tape) (rand_draws hbv)); [discriminate|]. cbn [bind].
      unfold check_hiding_bound.
      destruct (Nat.eqb_spec (degree (trim (firstn (rand_draws hbv) tape))) 0); [discriminate|].
      destruct (Nat.leb_spec (length (pw_gamma_g pw)) (degree (trim (firstn (rand_draws hbv) tape)))); [discriminate|].
      cbn [bind]. intros E. inversion E; subst cm r draws; clear E.
      set (r := trim (firstn (rand_draws hbv) tape)) in *.
      assert (Hr : (length r <= length (pw_gamma_g pw))%nat) by (unfold degree in *; unfold r in *; rewrite trim_idem in *; lia).
      rewrite Hg, Hgg. rewrite commit_coeffs_window by exact Hp.
      rewrite msm_window by lia.
      repeat split; try lia; [ring|unfold r; apply trim_idem|discriminate].
    - cbn [bind]. intros E. inversion E; subst cm r draws; clear E.
      rewrite Hg. rewrite commit_coeffs_window by exact Hp. rewrite msm_nil_r. cbn [eval].
      repeat split; try reflexivity; try lia; try ring. cbn; lia.
  Qed.

  Lemma kzg_commit_opt_ok pw p hb rng x : kzg_commit_opt pw p hb rng = Ok x -> commit pw p hb rng = Ok x.
  Proof.
    unfold kzg_commit_opt. destruct hb as [h|]; destruct rng as [t|]; try (intros H; exact H).
    destruct (check_degree_is_too_large _ _); cbn [bind]; discriminate.
  Qed.

  (* KZG10.open under windows *)
  Lemma open_window g c gam b n m pw p z r pf :
    pw_g pw = gpowers g c b n -> pw_gamma_g pw = gpowers gam 1 b m ->
    trim r = r -> (length r <= m)%nat ->
    KZG10.open pw p z r = Ok pf ->
    pf_w pf = g * c * eval (quot_lin (trim p) z) b + gam * eval (quot_lin r z) b /\
    pf_random_v pf = (if is_hiding r then Some (eval r z) else None).
  Proof.
    intros Hg Hgg Htr Hlr. unfold KZG10.open, open_with_witness.
    destruct (degree_check_cases (degree p) (length (pw_g pw))) as [[-> Hd]|[-> _]]; [|discriminate].
    cbn [bind].
    destruct (degree_check_cases (degree (witness_poly p z)) (length (pw_g pw))) as [[-> Hd2]|[-> _]]; [|discriminate].
    cbn [bind].
    assert (Hlen : length (pw_g pw) = n) by (rewrite Hg; apply gpowers_length).
    assert (Hw : (length (trim (witness_poly p z)) <= n)%nat) by (apply degree_trim_length; lia).
    rewrite Hg, Hgg. rewrite commit_coeffs_window by exact Hw.
    unfold is_hiding. destruct (is_zero_poly r) eqn:Z; cbn [negb].
    - intros E; inversion E; subst pf; clear E. cbn [pf_w pf_random_v].
      apply is_zero_trimmed in Z; [|exact Htr]. subst r.
      unfold witness_poly. rewrite eval_trim. cbn [quot_lin sdiv fst eval]. split; [ring|reflexivity].
    - intros E; inversion E; subst pf; clear E. cbn [pf_w pf_random_v].
      rewrite msm_window.
      + unfold witness_poly. rewrite !eval_trim. rewrite Htr. split; [ring|reflexivity].
      + unfold witness_poly. rewrite trim_idem. pose proof (witness_length (trim r) z). rewrite Htr in *. lia.
  Qed.

  Lemma open_with_witness_window g c gam b n m pw z r wp hw pf :
    pw_g pw = gpowers g c b n -> pw_gamma_g pw = gpowers gam 1 b m ->
    (length (trim hw) <= m)%nat ->
    open_with_witness pw z r wp (Some hw) = Ok pf ->
    pf_w pf = g * c * eval wp b + gam * eval hw b /\ pf_random_v pf = Some (eval r z).
  Proof.
    intros Hg Hgg Hl. unfold open_with_witness.
    destruct (degree_check_cases (degree wp) (length (pw_g pw))) as [[-> Hd]|[-> _]]; [|discriminate].
    cbn [bind]. intros E. inversion E; subst pf; clear E. cbn [pf_w pf_random_v].
    assert (Hlen : length (pw_g pw) = n) by (rewrite Hg; apply gpowers_length).
    rewrite Hg, Hgg, commit_coeffs_window by (apply degree_trim_length; lia).
    rewrite msm_window by exact Hl. rewrite eval_trim. split; [ring|reflexivity].
  Qed.

  (* ---------------- algebra helpers ---------------- *)
  Lemma fpow_add x i j : fpow x (i + j) = fpow x i * fpow x j.
  Proof. induction i as [|i IH]; cbn [fpow Nat.add]; [ring|rewrite IH; ring]. Qed.

  Lemma eval_shift k w x : eval (repeat 0 k ++ w) x = fpow x k * eval w x.
  Proof. induction k as [|k IH]; cbn [repeat app eval fpow]; [ring|rewrite IH; ring]. Qed.

  Lemma witness_eval p z x : eval (witness_poly p z) x * (x - z) = eval p x - eval p z.
  Proof.
    unfold witness_poly. rewrite eval_trim. pose proof (sdiv_spec (trim p) z x) as H.
    rewrite !eval_trim in H. rewrite H. ring.
  Qed.

  Lemma witness_poly_length p z : (length (witness_poly p z) <= length p)%nat.
  Proof.
    unfold witness_poly. pose proof (witness_length (trim p) z). pose proof (trim_length p). lia.
  Qed.

  Lemma length_padd_scaled p c q : length (padd_scaled p c q) = Nat.max (length p) (length q).
  Proof. unfold padd_scaled, pscale. rewrite length_padd, map_length. reflexivity. Qed.

  Lemma zero_poly_eval p x : is_zero_poly p = true -> eval p x = 0.
  Proof. unfold is_zero_poly. intros H. apply trim_nil_eval. destruct (trim p); [reflexivity|discriminate]. Qed.

  (* ---------------- keys ---------------- *)
  Definition bounds_list (ck : CKey) : list nat := match ck_bounds ck with Some l => l | None => [] end.

  Record KeyOK (ck : CKey) (vk : MVKey) (g gam h b : F) (D hi n m : nat) : Prop := {
    K_powers : ck_powers ck = gpowers g 1 b n;
    K_gamma : ck_gamma ck = gpowers gam 1 b m;
    K_vk_g : vk_g (mvk_vk vk) = g;
    K_vk_gam : vk_gamma_g (mvk_vk vk) = gam;
    K_vk_h : vk_h (mvk_vk vk) = h;
    K_vk_bh : vk_beta_h (mvk_vk vk) = h * b;
    K_hi : hi = last (bounds_list ck) O;
    K_hiD : (hi <= D)%nat;
    K_shifted : bounds_list ck <> [] -> ck_shifted_powers ck = Some (gpowers g (fpow b (D - hi)) b (hi + 1));
    K_shift : forall d, nat_mem d (bounds_list ck) = true ->
                        get_shift_power vk d = Some (g * fpow b (D - d)) /\ (d <= hi)%nat
  }.

  Section WithKeys.
    Variables (ck : CKey) (vk : MVKey) (g gam h b : F) (D hi n m : nat).
    Hypothesis KO : KeyOK ck vk g gam h b D hi n m.
    Variable z : F.

    (* what commit returns, semantically *)
    Definition honest (it : LPoly * MRand) (c : LComm) : Prop :=
      let '(lp, st) := it in
      lc_bound c = lp_bound lp /\
      (length (mr_rand st) <= m)%nat /\
      mc_comm (lc_comm c) = g * eval (lp_poly lp) b + gam * eval (mr_rand st) b /\
      match lp_bound lp with
      | None => mc_shifted (lc_comm c) = None /\ mr_shifted st = None
      | Some d => exists rs, mr_shifted st = Some rs /\ (length rs <= m)%nat /\
                             nat_mem d (bounds_list ck) = true /\
                             mc_shifted (lc_comm c) = Some (g * fpow b (D - d) * eval (lp_poly lp) b + gam * eval rs b)
      end.

    Definition Inv (a : oacc) (cc cv : F) : Prop :=
      cc = g * eval (oa_p a) b + gam * eval (oa_r a) b
           + g * fpow b (D - hi) * (b - z) * eval (oa_sw a) b + gam * eval (oa_sr a) b /\
      cv = eval (oa_p a) z /\
      eval (oa_srw a) b * (b - z) = eval (oa_sr a) b - eval (oa_sr a) z /\
      (length (oa_r a) <= m)%nat /\ (length (oa_srw a) <= m)%nat /\ (length (oa_sr a) <= m)%nat /\
      (oa_enf a = true -> bounds_list ck <> []) /\
      (oa_enf a = false -> oa_sw a = [] /\ oa_sr a = []).

    Lemma shift_polynomial_eval w d sw :
      nat_mem d (bounds_list ck) = true ->
      shift_polynomial ck w d = Ok sw -> eval sw b = fpow b (hi - d) * eval w b.
    Proof.
      intros Hm. unfold shift_polynomial. destruct (is_zero_poly w) eqn:Z.
      - intros E; inversion E; subst. rewrite (zero_poly_eval w b Z). cbn [eval]. ring.
      - rewrite (K_hi _ _ _ _ _ _ _ _ _ _ KO). unfold bounds_list in *.
        destruct (ck_bounds ck) as [bs|]; [|discriminate].
        destruct (Nat.ltb (last bs O) d); [discriminate|].
        intros E; inversion E; subst. apply eval_shift.
    Qed.

    Lemma joint : forall items cs chal a cc cv a' rest,
        Forall2 honest items cs ->
        open_loop ck z items chal a = Ok (a', rest) ->
        Inv a cc cv ->
        exists cc' cv',
          accumulate vk cs (map (fun it => eval (lp_poly (fst it)) z) items) chal cc cv = Ok (cc', cv', rest)
          /\ Inv a' cc' cv'.
    Proof.
      induction items as [|[lp st] items IH]; intros cs chal a cc cv a' rest HF HO HI.
      - inversion HF; subst. cbn [open_loop] in HO. inversion HO; subst. exists cc, cv. split; [reflexivity|exact HI].
      - inversion HF as [|it c items' cs' Hh HF']; subst. clear HF.
        cbn [map fst]. cbn [open_loop] in HO. cbn [accumulate].
        destruct Hh as (Hb & Hlr & Hc & Hs).
        destruct HI as (I1 & I2 & I3 & L1 & L2 & L3 & I7 & I8).
        destruct (lp_bound lp) as [d|] eqn:Eb.
        + destruct Hs as (rs & Ers & Hlrs & Hmem & Hsc).
          rewrite Ers in HO. cbn [Bool.eqb negb] in HO.
          destruct (check_degrees_and_bounds _ _ _ _) as [[]| |]; cbn [bind] in HO; try discriminate.
          destruct chal as [|cj chal1]; [discriminate|].
          destruct chal1 as [|cj1 chal2]; [discriminate|].
          destruct (shift_polynomial ck (witness_poly (lp_poly lp) z) d) as [sw| |] eqn:Esw; cbn [bind] in HO; try discriminate.
          rewrite Hb, Hsc. cbn [Bool.eqb negb].
          destruct (K_shift _ _ _ _ _ _ _ _ _ _ KO d Hmem) as [-> Hdhi].
          eapply IH; [exact HF'|exact HO|].
          pose proof (shift_polynomial_eval _ _ _ Hmem Esw) as Esh.
          pose proof (witness_eval (lp_poly lp) z b) as Ew.
          assert (Epow : fpow b (D - hi) * fpow b (hi - d) = fpow b (D - d)).
          { rewrite <- fpow_add. f_equal. pose proof (K_hiD _ _ _ _ _ _ _ _ _ _ KO). lia. }
          unfold Inv. cbn [oa_p oa_r oa_sw oa_sr oa_srw].
          rewrite !eval_padd_scaled, !length_padd_scaled.
          refine (conj _ (conj _ (conj _ (conj _ (conj _ (conj _ (conj _ _))))))).
          * rewrite I1, Hc, Esh. rewrite <- Epow.
            transitivity (g * eval (oa_p a) b + gam * eval (oa_r a) b + g * fpow b (D - hi) * (b - z) * eval (oa_sw a) b +
                          gam * eval (oa_sr a) b + (g * eval (lp_poly lp) b + gam * eval (mr_rand st) b) * cj +
                          (g * (fpow b (D - hi) * fpow b (hi - d)) * (eval (witness_poly (lp_poly lp) z) b * (b - z)) + gam * eval rs b) * cj1);
              [rewrite Ew; ring|ring].
          * rewrite I2. ring.
          * destruct (is_hiding rs) eqn:Hh.
            -- rewrite eval_padd_scaled. pose proof (witness_eval rs z b) as Ewr.
               transitivity (eval (oa_srw a) b * (b - z) + cj1 * (eval (witness_poly rs z) b * (b - z))); [ring|].
               rewrite I3, Ewr. ring.
            -- unfold is_hiding in Hh. apply negb_false_iff in Hh.
               rewrite (zero_poly_eval rs b Hh), (zero_poly_eval rs z Hh). rewrite I3. ring.
          * lia.
          * destruct (is_hiding rs); [rewrite length_padd_scaled; pose proof (witness_poly_length rs z); lia|lia].
          * lia.
          * intros _ E. rewrite E in Hmem. discriminate.
          * cbn [oa_enf]. discriminate.
        + destruct Hs as (Hsn & Hrn). rewrite Hrn in HO. cbn [Bool.eqb negb] in HO.
          destruct (check_degrees_and_bounds _ _ _ _) as [[]| |]; cbn [bind] in HO; try discriminate.
          destruct chal as [|cj chal1]; [discriminate|].
          rewrite Hb, Hsn. cbn [Bool.eqb negb].
          eapply IH; [exact HF'|exact HO|].
          unfold Inv. cbn [oa_p oa_r oa_sw oa_sr oa_srw oa_enf].
          rewrite !eval_padd_scaled, !length_padd_scaled.
          refine (conj _ (conj _ (conj _ (conj _ (conj _ (conj _ (conj _ _))))))); try lia.
          * rewrite I1, Hc. ring.
          * rewrite I2. ring.
          * exact I3.
          * exact I7.
          * exact I8.
    Qed.

    Definition oacc0 : oacc := {| oa_p := []; oa_r := []; oa_sw := []; oa_sr := []; oa_srw := []; oa_enf := false |}.

    Lemma Inv0 : Inv oacc0 0 0.
    Proof. unfold Inv, oacc0. cbn. repeat split; try ring; try lia; try discriminate. Qed.

    Lemma quot_eval p x : eval (quot_lin (trim p) z) x * (x - z) = eval p x - eval p z.
    Proof. pose proof (sdiv_spec (trim p) z x) as H. rewrite !eval_trim in H. rewrite H. ring. Qed.

    (* C01 for MarlinKZG10::open / ::check.  The side condition excludes one algebraic
       coincidence of the code as it stands: if the challenge-weighted sum of the unshifted
       blinding polynomials vanishes identically (e.g. a zero challenge) while shifted blinding
       polynomials are present, the prover drops the blinding value from the proof. *)
    Theorem marlin_open_check_complete items cs chal pf rest :
      Forall2 honest items cs ->
      mopen ck items z chal = Ok (pf, rest) ->
      (forall a r, open_loop ck z items chal oacc0 = Ok (a, r) ->
                   is_hiding (trim (oa_r a)) = false -> eval (oa_sr a) z = 0) ->
      mcheck vk cs z (map (fun it => eval (lp_poly (fst it)) z) items) pf chal = Ok (true, rest).
    Proof.
      intros HF HO Hco. unfold mopen in HO. fold oacc0 in HO.
      destruct (open_loop ck z items chal oacc0) as [[a rest']| |] eqn:EL; cbn [bind] in HO; try discriminate.
      specialize (Hco a rest' eq_refl).
      destruct (joint _ _ _ _ _ _ _ _ HF EL Inv0) as (cc & cv & Hacc & HI).
      destruct HI as (I1 & I2 & I3 & L1 & L2 & L3 & I7 & I8).
      unfold mcheck. rewrite Hacc. cbn [bind].
      destruct (KZG10.open (ck_pw ck) (oa_p a) z (trim (oa_r a))) as [pf1| |] eqn:EO; cbn [bind] in HO; try discriminate.
      assert (Hpw : pw_g (ck_pw ck) = gpowers g 1 b n) by (cbn; apply (K_powers _ _ _ _ _ _ _ _ _ _ KO)).
      assert (Hpg : pw_gamma_g (ck_pw ck) = gpowers gam 1 b m) by (cbn; apply (K_gamma _ _ _ _ _ _ _ _ _ _ KO)).
      assert (Hlt : (length (trim (oa_r a)) <= m)%nat) by (pose proof (trim_length (oa_r a)); lia).
      destruct (open_window _ _ _ _ _ _ _ _ _ _ _ Hpw Hpg (trim_idem _) Hlt EO) as (Ew1 & Erv1).
      pose proof (quot_eval (oa_p a) b) as QP.
      pose proof (quot_eval (oa_r a) b) as QR. rewrite <- (trim_idem (oa_r a)) in QR at 1.
      unfold KZG10.check. cbn [bind].
      rewrite (K_vk_g _ _ _ _ _ _ _ _ _ _ KO), (K_vk_gam _ _ _ _ _ _ _ _ _ _ KO),
              (K_vk_h _ _ _ _ _ _ _ _ _ _ KO), (K_vk_bh _ _ _ _ _ _ _ _ _ _ KO).
      destruct (oa_enf a) eqn:Eenf.
      - (* some polynomial had a degree bound *)
        pose proof (K_shifted _ _ _ _ _ _ _ _ _ _ KO (I7 eq_refl)) as Ksp.
        unfold shifted_pw in HO. rewrite Ksp in HO. cbn [bind] in HO.
        destruct (open_with_witness _ z (trim (oa_sr a)) (trim (oa_sw a)) (Some (oa_srw a))) as [spf| |] eqn:ES; cbn [bind] in HO; try discriminate.
        assert (Hl2 : (length (trim (oa_srw a)) <= m)%nat) by (pose proof (trim_length (oa_srw a)); lia).
        destruct (open_with_witness_window g (fpow b (D - hi)) gam b (hi + 1) m
                    {| pw_g := gpowers g (fpow b (D - hi)) b (hi + 1); pw_gamma_g := ck_gamma ck |}
                    z _ _ _ _ eq_refl (K_gamma _ _ _ _ _ _ _ _ _ _ KO) Hl2 ES) as (Ew2 & Erv2).
        inversion HO; subst pf rest'; clear HO. cbn [pf_w pf_random_v].
        rewrite Erv1, Erv2, Ew1, Ew2, !eval_trim.
        f_equal. f_equal. apply FL_eqb.
        destruct (is_hiding (trim (oa_r a))) eqn:Hh.
        + rewrite I1, I2.
          transitivity (h * ((g * (eval (quot_lin (trim (oa_p a)) z) b * (b - z)) + gam * (eval (quot_lin (trim (trim (oa_r a))) z) b * (b - z)))
                             + g * fpow b (D - hi) * (b - z) * eval (oa_sw a) b + gam * (eval (oa_srw a) b * (b - z))));
            [rewrite QP, QR, I3; ring|rewrite trim_idem; ring].
        + specialize (Hco eq_refl).
          unfold is_hiding in Hh. apply negb_false_iff in Hh.
          assert (Z1 : forall x, eval (oa_r a) x = 0) by (intros x; rewrite <- eval_trim; apply zero_poly_eval; exact Hh).
          rewrite I1, I2.
          transitivity (h * ((g * (eval (quot_lin (trim (oa_p a)) z) b * (b - z)) + gam * (eval (quot_lin (trim (trim (oa_r a))) z) b * (b - z)))
                             + g * fpow b (D - hi) * (b - z) * eval (oa_sw a) b + gam * (eval (oa_srw a) b * (b - z))));
            [rewrite QP, QR, I3, Hco, !Z1; ring|rewrite trim_idem; ring].
      - (* no degree bounds among the opened polynomials *)
        destruct (I8 eq_refl) as (Esw & Esr).
        inversion HO; subst pf rest'; clear HO.
        rewrite Erv1, Ew1. f_equal. f_equal. apply FL_eqb.
        rewrite I1, I2, Esw, Esr. cbn [eval].
        destruct (is_hiding (trim (oa_r a))) eqn:Hh.
        + rewrite eval_trim.
          transitivity (h * (g * (eval (quot_lin (trim (oa_p a)) z) b * (b - z)) + gam * (eval (quot_lin (trim (trim (oa_r a))) z) b * (b - z))));
            [rewrite QP, QR; ring|rewrite trim_idem; ring].
        + unfold is_hiding in Hh. apply negb_false_iff in Hh.
          assert (Z1 : forall x, eval (oa_r a) x = 0) by (intros x; rewrite <- eval_trim; apply zero_poly_eval; exact Hh).
          transitivity (h * (g * (eval (quot_lin (trim (oa_p a)) z) b * (b - z)) + gam * (eval (quot_lin (trim (trim (oa_r a))) z) b * (b - z))));
            [rewrite QP, QR, !Z1; ring|rewrite trim_idem; ring].
    Qed.
  End WithKeys.

  (* ---------------- keys produced by setup + trim satisfy KeyOK ---------------- *)
  Lemma skipn_powers_from : forall k cur b n,
      skipn k (powers_from cur b n) = powers_from (cur * fpow b k) b (n - k).
  Proof.
    induction k as [|k IH]; intros cur b n.
    - cbn [skipn fpow]. rewrite Nat.sub_0_r. f_equal. ring.
    - destruct n as [|n]; [reflexivity|]. cbn [powers_from skipn fpow Nat.sub]. rewrite IH. f_equal. ring.
  Qed.

  Lemma skipn_gpowers k g c b n : skipn k (gpowers g c b n) = gpowers g (c * fpow b k) b (n - k).
  Proof. unfold gpowers. rewrite skipn_map, skipn_powers_from. reflexivity. Qed.

  Lemma nth_gpowers g c b n i : (i < n)%nat -> nth i (gpowers g c b n) 0 = g * (c * fpow b i).
  Proof.
    intros H. unfold gpowers.
    rewrite (nth_indep _ 0 (g * 0)) by (rewrite map_length, powers_from_length; exact H).
    rewrite (map_nth (fun s => g * s)). rewrite nth_powers_from by exact H. reflexivity.
  Qed.

  Lemma index_all_seq {A} (l : list A) : forall k i r,
      index_all l (seq i k) = Ok r -> r = firstn k (skipn i l) /\ (i + k <= length l \/ k = 0)%nat.
  Proof.
    induction k as [|k IH]; intros i r H; cbn [seq index_all] in H.
    - inversion H; subst. split; [reflexivity|right; reflexivity].
    - destruct (nth_error l i) as [a|] eqn:E; [|discriminate].
      destruct (index_all l (seq (S i) k)) as [r'| |] eqn:E2; cbn [bind] in H; try discriminate.
      inversion H; subst. destruct (IH _ _ E2) as [-> Hl].
      assert (Hi : (i < length l)%nat) by (apply nth_error_Some; congruence).
      split.
      + clear - E Hi. revert i E Hi. induction l as [|x l IHl]; intros i E Hi; [cbn in Hi; lia|].
        destruct i as [|i]; cbn [nth_error skipn firstn] in *.
        * inversion E; subst. reflexivity.
        * apply IHl; [exact E|cbn in Hi; lia].
      + left. destruct Hl as [Hl| ->]; lia.
  Qed.

  (* sort_dedup: membership and maximality of the last element *)
  Lemma nat_mem_In d l : nat_mem d l = true <-> In d l.
  Proof.
    unfold nat_mem. rewrite existsb_exists. split.
    - intros (x & Hx & E). apply Nat.eqb_eq in E. subst. exact Hx.
    - intros H. exists d. split; [exact H|apply Nat.eqb_refl].
  Qed.

  Inductive lsorted : list nat -> Prop :=
  | ls_nil : lsorted []
  | ls_one x : lsorted [x]
  | ls_cons x y t : (x < y)%nat -> lsorted (y :: t) -> lsorted (x :: y :: t).

  Lemma nat_insert_sorted x l : lsorted l -> lsorted (nat_insert x l).
  Proof.
    induction 1 as [|y|y1 y2 t Hlt Hs IH]; cbn [nat_insert].
    - constructor.
    - destruct (Nat.compare_spec x y); [constructor|constructor; [lia|constructor]|constructor; [lia|constructor]].
    - destruct (Nat.compare_spec x y1).
      + constructor; assumption.
      + constructor; [lia|constructor; assumption].
      + cbn [nat_insert] in IH. destruct (Nat.compare_spec x y2).
        * constructor; assumption.
        * constructor; [lia|]. exact IH.
        * constructor; [lia|]. exact IH.
  Qed.

  Lemma sort_dedup_sorted l : lsorted (sort_dedup l).
  Proof.
    unfold sort_dedup. assert (H : lsorted []) by constructor. revert H. generalize (@nil nat).
    induction l as [|x l IH]; intros acc H; cbn [fold_left]; [exact H|]. apply IH. apply nat_insert_sorted. exact H.
  Qed.

  Lemma lsorted_le_last : forall l d, lsorted l -> In d l -> (d <= last l O)%nat.
  Proof.
    induction l as [|x l IH]; intros d Hs Hin; [inversion Hin|].
    inversion Hs as [|? |? y t Hlt Hs']; subst.
    - destruct Hin as [->|[]]. cbn. lia.
    - destruct Hin as [->|Hin].
      + assert (Hy : (y <= last (y :: t) O)%nat) by (apply IH; [exact Hs'|left; reflexivity]).
        change (last (d :: y :: t) O) with (last (y :: t) O). lia.
      + change (last (x :: y :: t) O) with (last (y :: t) O). apply IH; assumption.
  Qed.

  Lemma assoc_nat_map (f : nat -> F) d l :
    nat_mem d l = true -> assoc_nat d (map (fun x => (x, f x)) l) = Some (f d).
  Proof.
    induction l as [|x l IH]; cbn [nat_mem existsb map assoc_nat]; [discriminate|].
    rewrite (Nat.eqb_sym x d). destruct (Nat.eqb_spec d x) as [->|Hne]; [reflexivity|].
    cbn [orb]. exact IH.
  Qed.

  Theorem mtrim_keyok D beta g gamma_g h up s sh bounds ck vk :
    setup D false beta g gamma_g h = Ok up ->
    mtrim up s sh bounds = Ok (ck, vk) ->
    KeyOK ck vk g gamma_g h beta D (last (bounds_list ck) O) (s + 1) (sh + 2) /\
    (s <= D)%nat /\ ck_max_degree ck = D /\
    ck_bounds ck = option_map sort_dedup bounds.
  Proof.
    intros Hs Ht. pose proof (setup_ok _ _ _ _ _ _ _ Hs) as (HD & Hg & Hgg & Hh & Hbh).
    assert (HmaxD : max_degree up = D).
    { unfold max_degree. rewrite Hg, map_length. unfold powers. rewrite powers_from_length. lia. }
    unfold mtrim in Ht. cbv zeta in Ht. rewrite !HmaxD in Ht.
    destruct (Nat.ltb_spec D s) as [|HsD]; [discriminate|].
    destruct (index_all (up_powers_of_gamma_g up) (seq 0 (sh + 2))) as [gam| |] eqn:Eg; cbn [bind] in Ht; try discriminate.
    destruct (index_all_seq _ _ _ _ Eg) as [Egam Hlen]. cbn [skipn] in Egam.
    rewrite Hgg, map_length in Hlen. unfold powers in Hlen. rewrite powers_from_length in Hlen.
    assert (Hsh : (sh + 2 <= D + 2)%nat) by lia.
    assert (Kpow : firstn (s + 1) (up_powers_of_g up) = gpowers g 1 beta (s + 1)).
    { rewrite Hg. unfold gpowers. rewrite firstn_map. f_equal. apply firstn_powers. lia. }
    assert (Kgam : gam = gpowers gamma_g 1 beta (sh + 2)).
    { rewrite Egam, Hgg. unfold gpowers. rewrite firstn_map. f_equal. apply firstn_powers. lia. }
    destruct (vk_of_setup _ _ _ _ _ _ _ Hs) as (Vg & Vgg & Vh & Vbh).
    assert (Hpg : up_powers_of_g up = gpowers g 1 beta (D + 1)) by (rewrite Hg; reflexivity).
    destruct (option_map sort_dedup bounds) as [bs|] eqn:Eb.
    - destruct bs as [|b0 bs'] eqn:Ebs.
      + cbn [bind fst snd] in Ht. inversion Ht; subst ck vk; clear Ht.
        split; [|repeat split; auto].
        constructor; cbn [ck_powers ck_gamma mvk_vk ck_bounds bounds_list ck_shifted_powers last]; auto.
        * rewrite Vg. ring.
        * rewrite Vgg. ring.
        * lia.
        * intros H; exfalso; apply H; reflexivity.
        * intros d Hd. cbn in Hd. discriminate.
      + rewrite <- Ebs in *.
        assert (Hsorted : lsorted bs).
        { destruct bounds as [l|]; cbn in Eb; [|discriminate]. inversion Eb; subst. apply sort_dedup_sorted. }
        destruct (Nat.ltb_spec s (last bs O)) as [|Hhi]; [rewrite Ebs in Ht; rewrite <- Ebs in Ht; discriminate|].
        rewrite Ebs in Ht. rewrite <- Ebs in Ht. cbn [bind fst snd] in Ht. inversion Ht; subst ck vk; clear Ht.
        split; [|repeat split; auto].
        constructor; cbn [ck_powers ck_gamma mvk_vk ck_bounds bounds_list ck_shifted_powers]; auto.
        * rewrite Vg. ring.
        * rewrite Vgg. ring.
        * lia.
        * intros _. f_equal. rewrite Hpg, skipn_gpowers. f_equal; [ring|lia].
        * intros d Hd. assert (Hdle : (d <= last bs O)%nat) by (apply lsorted_le_last; [exact Hsorted|apply nat_mem_In; exact Hd]).
          split; [|exact Hdle]. unfold get_shift_power. cbn [mvk_shifts].
          rewrite (assoc_nat_map (fun d => nth (D - d) (up_powers_of_g up) 0)) by exact Hd.
          f_equal. rewrite Hpg, nth_gpowers by lia. ring.
    - cbn [bind fst snd] in Ht. inversion Ht; subst ck vk; clear Ht.
      split; [|repeat split; auto].
      constructor; cbn [ck_powers ck_gamma mvk_vk ck_bounds bounds_list ck_shifted_powers last]; auto.
      + rewrite Vg. ring.
      + rewrite Vgg. ring.
      + lia.
      + intros H; exfalso; apply H; reflexivity.
      + intros d Hd. cbn in Hd. discriminate.
  Qed.

  (* ---------------- what commit returns ---------------- *)
  Lemma check_dab_ok ck p d :
    check_degrees_and_bounds (ck_max_degree ck) (ck_bounds ck) p (Some d) = Ok tt ->
    nat_mem d (bounds_list ck) = true.
  Proof.
    unfold check_degrees_and_bounds, bounds_list. destruct (ck_bounds ck) as [bs|]; [|discriminate].
    destruct (nat_mem d bs); [reflexivity|discriminate].
  Qed.

  Lemma commit1_honest ck vk g gam h b D hi n m lp rng mc mr nd :
    KeyOK ck vk g gam h b D hi n m ->
    commit1 ck lp rng = Ok (mc, mr, nd) ->
    honest ck g gam b D m (lp, mr) {| lc_label := lp_label lp; lc_comm := mc; lc_bound := lp_bound lp |}.
  Proof.
    intros KO H. unfold commit1 in H.
    destruct (check_degrees_and_bounds _ _ _ _) as [[]| |] eqn:Ec; cbn [bind] in H; try discriminate.
    destruct (kzg_commit_opt (ck_pw ck) (lp_poly lp) (lp_hiding lp) rng) as [[[c r] n1]| |] eqn:E1; cbn [bind] in H; try discriminate.
    apply kzg_commit_opt_ok in E1.
    assert (Hpw : pw_g (ck_pw ck) = gpowers g 1 b n) by (cbn; apply (K_powers _ _ _ _ _ _ _ _ _ _ KO)).
    assert (Hpg : pw_gamma_g (ck_pw ck) = gpowers gam 1 b m) by (cbn; apply (K_gamma _ _ _ _ _ _ _ _ _ _ KO)).
    destruct (commit_window _ _ _ _ _ _ _ _ _ _ _ _ _ Hpw Hpg E1) as (Ecm & _ & Htr & Hlr & _).
    unfold honest. cbn [lc_bound lc_comm].
    destruct (lp_bound lp) as [d|] eqn:Eb.
    - pose proof (check_dab_ok _ _ _ Ec) as Hmem.
      destruct (K_shift _ _ _ _ _ _ _ _ _ _ KO d Hmem) as [_ Hdhi].
      assert (Hne : bounds_list ck <> []) by (intros E; rewrite E in Hmem; discriminate).
      unfold shifted_pw in H. rewrite (K_shifted _ _ _ _ _ _ _ _ _ _ KO Hne) in H.
      assert (Ebs : ck_bounds ck = Some (bounds_list ck)).
      { unfold bounds_list in *. destruct (ck_bounds ck); [reflexivity|exfalso; apply Hne; reflexivity]. }
      rewrite Ebs, Hmem in H. cbn [negb] in H.
      rewrite <- (K_hi _ _ _ _ _ _ _ _ _ _ KO) in H.
      rewrite gpowers_length in H.
      destruct (Nat.ltb_spec (hi + 1) (hi - d)) as [|_]; [lia|]. cbn [bind] in H.
      destruct (kzg_commit_opt _ (lp_poly lp) (lp_hiding lp) (option_map (skipn n1) rng)) as [[[sc sr] n2]| |] eqn:E2; cbn [bind] in H; try discriminate.
      apply kzg_commit_opt_ok in E2.
      inversion H; subst mc mr nd; clear H. cbn [mc_comm mc_shifted mr_rand mr_shifted].
      assert (Hspw : skipn (hi - d) (gpowers g (fpow b (D - hi)) b (hi + 1)) = gpowers g (fpow b (D - d)) b (d + 1)).
      { rewrite skipn_gpowers. f_equal; [|lia]. rewrite <- fpow_add. f_equal.
        pose proof (K_hiD _ _ _ _ _ _ _ _ _ _ KO). lia. }
      destruct (commit_window g (fpow b (D - d)) gam b (d + 1) m
                                {| pw_g := skipn (hi - d) (gpowers g (fpow b (D - hi)) b (hi + 1)); pw_gamma_g := ck_gamma ck |}
                                _ _ _ _ _ _ Hspw (K_gamma _ _ _ _ _ _ _ _ _ _ KO) E2)
        as (Esc & _ & Htrs & Hlrs & _).
      repeat split; auto.
      + rewrite Ecm. ring.
      + exists sr. repeat split; auto. rewrite Esc. reflexivity.
    - inversion H; subst mc mr nd; clear H. cbn [mc_comm mc_shifted mr_rand mr_shifted].
      repeat split; auto. rewrite Ecm. ring.
  Qed.

  Definition labelled (lps : list LPoly) (csts : list (MComm * MRand)) : list LComm :=
    map (fun x => {| lc_label := lp_label (fst x); lc_comm := fst (snd x); lc_bound := lp_bound (fst x) |}) (combine lps csts).
  Definition with_states (lps : list LPoly) (csts : list (MComm * MRand)) : list (LPoly * MRand) :=
    map (fun x => (fst x, snd (snd x))) (combine lps csts).

  Lemma commit_all_honest ck vk g gam h b D hi n m :
    KeyOK ck vk g gam h b D hi n m ->
    forall lps rng csts nd,
      commit_all ck lps rng = Ok (csts, nd) ->
      Forall2 (honest ck g gam b D m) (with_states lps csts) (labelled lps csts) /\ length csts = length lps.
  Proof.
    intros KO. induction lps as [|lp lps IH]; intros rng csts nd H; cbn [commit_all] in H.
    - inversion H; subst. split; [constructor|reflexivity].
    - destruct (commit1 ck lp rng) as [[[mc mr] n1]| |] eqn:E1; cbn [bind] in H; try discriminate.
      destruct (commit_all ck lps (option_map (skipn n1) rng)) as [[rest n2]| |] eqn:E2; cbn [bind] in H; try discriminate.
      inversion H; subst csts nd; clear H. cbn [fst snd].
      destruct (IH _ _ _ E2) as [HF Hl]. split; [|cbn [length]; lia].
      unfold with_states, labelled. cbn [combine map fst snd].
      constructor; [|exact HF]. eapply commit1_honest; eassumption.
  Qed.

  Lemma Forall2_nth {A B} (R : A -> B -> Prop) l1 l2 d1 d2 :
    Forall2 R l1 l2 -> forall i, (i < length l1)%nat -> R (nth i l1 d1) (nth i l2 d2).
  Proof.
    induction 1 as [|x y l1 l2 Hxy HF IH]; intros i Hi; [cbn in Hi; lia|].
    destruct i as [|i]; cbn [nth]; [exact Hxy|]. apply IH. cbn in Hi. lia.
  Qed.

  (* ---------------- end to end ---------------- *)
  Theorem marlin_complete :
    forall D beta g gamma_g h up s sh bounds ck vk lps rng csts nd sel z chal pf rest,
      setup D false beta g gamma_g h = Ok up ->
      mtrim up s sh bounds = Ok (ck, vk) ->
      commit_all ck lps rng = Ok (csts, nd) ->
      (* any sub-list / re-ordering of the committed polynomials, given by positions *)
      let items := map (fun i => nth i (with_states lps csts) ({| lp_label := 0%N; lp_poly := []; lp_bound := None; lp_hiding := None |}, {| mr_rand := []; mr_shifted := None |})) sel in
      let cs := map (fun i => nth i (labelled lps csts) {| lc_label := 0%N; lc_comm := {| mc_comm := 0; mc_shifted := None |}; lc_bound := None |}) sel in
      Forall (fun i => (i < length lps)%nat) sel ->
      mopen ck items z chal = Ok (pf, rest) ->
      (forall a r, open_loop ck z items chal oacc0 = Ok (a, r) ->
                   is_hiding (trim (oa_r a)) = false -> eval (oa_sr a) z = 0) ->
      mcheck vk cs z (map (fun it => eval (lp_poly (fst it)) z) items) pf chal = Ok (true, rest).
  Proof.
    intros D beta g gamma_g h up s sh bounds ck vk lps rng csts nd sel z chal pf rest Hs Ht Hc items cs Hsel Ho Hco.
    destruct (mtrim_keyok _ _ _ _ _ _ _ _ _ _ _ Hs Ht) as (KO & _).
    destruct (commit_all_honest _ _ _ _ _ _ _ _ _ _ KO _ _ _ _ Hc) as [HF Hl].
    eapply marlin_open_check_complete; [exact KO| |exact Ho|exact Hco].
    assert (L1 : length (with_states lps csts) = length lps).
    { unfold with_states. rewrite map_length, combine_length. lia. }
    assert (L2 : length (labelled lps csts) = length lps).
    { unfold labelled. rewrite map_length, combine_length. lia. }
    subst items cs. clear Ho Hco. induction sel as [|i sel IH]; cbn [map]; [constructor|].
    inversion Hsel; subst. constructor; [|apply IH; assumption].
    apply Forall2_nth; [exact HF|lia].
  Qed.

  (* the side condition of the completeness theorem holds outright when the opened
     polynomials carry no shifted blinding (no hiding, or no degree bounds) *)
  Definition no_shifted_blinding (it : LPoly * MRand) : Prop :=
    match mr_shifted (snd it) with Some rs => rs = [] | None => True end.

  Lemma open_loop_sr_zero ck z : forall items chal a a' r,
      Forall no_shifted_blinding items ->
      (forall x, eval (oa_sr a) x = 0) ->
      open_loop ck z items chal a = Ok (a', r) -> forall x, eval (oa_sr a') x = 0.
  Proof.
    induction items as [|[lp st] items IH]; intros chal a a' r HF H0 HO; cbn [open_loop] in HO.
    - inversion HO; subst. exact H0.
    - inversion HF as [|? ? Hn HF']; subst. unfold no_shifted_blinding in Hn. cbn [snd] in Hn.
      destruct (negb _); [discriminate|].
      destruct (check_degrees_and_bounds _ _ _ _) as [[]| |]; cbn [bind] in HO; try discriminate.
      destruct chal as [|cj chal1]; [discriminate|].
      destruct (lp_bound lp) as [d|]; destruct (mr_shifted st) as [rs|].
      + destruct chal1 as [|cj1 chal2]; [discriminate|].
        destruct (shift_polynomial _ _ _) as [sw| |]; cbn [bind] in HO; try discriminate.
        eapply IH; [exact HF'| |exact HO]. cbn [oa_sr]. intros x. subst rs.
        rewrite eval_padd_scaled, H0. cbn [eval]. ring.
      + eapply IH; [exact HF'| |exact HO]. exact H0.
      + eapply IH; [exact HF'| |exact HO]. exact H0.
      + eapply IH; [exact HF'| |exact HO]. exact H0.
  Qed.

  Corollary marlin_open_check_complete_unconditional ck vk g gam h b D hi n m z items cs chal pf rest :
    KeyOK ck vk g gam h b D hi n m ->
    Forall2 (honest ck g gam b D m) items cs ->
    Forall no_shifted_blinding items ->
    mopen ck items z chal = Ok (pf, rest) ->
    mcheck vk cs z (map (fun it => eval (lp_poly (fst it)) z) items) pf chal = Ok (true, rest).
  Proof.
    intros KO HF Hn HO. eapply marlin_open_check_complete; [exact KO|exact HF|exact HO|].
    intros a r EL _. eapply open_loop_sr_zero; [exact Hn| |exact EL]. intros x. reflexivity.
  Qed.
End MarlinComplete.
