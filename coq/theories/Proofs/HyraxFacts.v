(* Hyrax in the free-module view: honest openings verify; a proof pins one value (the verifier compares com_eval with
   value * G_0 + r_eval * h: the repaired defect d63271c); malformed shapes are refused. *)
From Coq Require Import List Arith NArith Bool Lia Field Ring.
From PC Require Import Base.Field Base.Result Base.Poly Proofs.PolyFacts Schemes.Hyrax.
Import ListNotations.
Open Scope F_scope.

Section HyraxFacts.
  Context {FO : FieldOps} {FL : FieldLaws FO}.
  Add Field Ffield23 : FL_field.

  Lemma veqb_eq : forall a b, veqb a b = true <-> a = b.
  Proof.
    induction a as [|x a IH]; intros [|y b]; cbn [veqb]; split; intros H; try reflexivity; try discriminate.
    - apply andb_true_iff in H. destruct H as [H1 H2]. apply FL_eqb in H1. apply IH in H2. subst. reflexivity.
    - injection H as -> ->. apply andb_true_iff. split; [apply FL_eqb; reflexivity|apply IH; reflexivity].
  Qed.
  Lemma geqb_eq p q : geqb p q = true <-> p = q.
  Proof.
    unfold geqb. destruct p as [a x], q as [b y]. cbn [fst snd]. rewrite andb_true_iff, veqb_eq, FL_eqb.
    split; [intros [-> ->]; reflexivity|intros H; injection H as -> ->; split; reflexivity].
  Qed.

  (* a proof pins one value *)
  Theorem h_check_one_value keylen point rows v1 v2 pf c : (1 <= keylen)%nat ->
    h_check1 keylen point rows v1 pf c = Ok true -> h_check1 keylen point rows v2 pf c = Ok true -> v1 = v2.
  Proof.
    intros Hk H1 H2. unfold h_check1 in *. destruct (h_lr point) as [l r].
    destruct (negb (length rows =? 2 ^ (length point / 2))%nat); [discriminate|].
    destruct (geqb (hp_com_eval pf) (g0 keylen v1 (hp_reval pf))) eqn:E1; cbn [negb] in H1; [|discriminate].
    destruct (geqb (hp_com_eval pf) (g0 keylen v2 (hp_reval pf))) eqn:E2; cbn [negb] in H2; [|discriminate].
    apply geqb_eq in E1. apply geqb_eq in E2. rewrite E1 in E2. unfold g0 in E2. injection E2 as E. exact E.
  Qed.

  (* ---------------- vector algebra ---------------- *)
  Lemma vdot_comm : forall a b, vdot a b = vdot b a.
  Proof. induction a as [|x a IH]; intros [|y b]; cbn [vdot]; try reflexivity. rewrite IH. ring. Qed.

  Lemma vdot_vadd_scale c : forall r d lt, length d = length r -> length lt = length r ->
    vdot r (vadd d (vscale c lt)) = vdot r d + c * vdot r lt.
  Proof.
    induction r as [|x r IH]; intros [|y d] [|w lt] Hd Hl; cbn in Hd, Hl; try lia; cbn [vadd vscale map vdot]; [ring|].
    change (map (fun x0 => x0 * c) lt) with (vscale c lt). rewrite IH by lia. ring.
  Qed.

  Lemma vadd_scale_length c : forall d lt, length lt = length d -> length (vadd d (vscale c lt)) = length d.
  Proof.
    induction d as [|y d IH]; intros [|w lt] H; cbn in H; try lia; [reflexivity|].
    cbn [vadd vscale map length]. change (map (fun x => x * c) lt) with (vscale c lt). rewrite IH by lia. reflexivity.
  Qed.

  Lemma vadd_pad_scale c : forall lt d, length lt = length d ->
    vadd_pad (map (fun x => x * c) lt) d = vadd d (vscale c lt).
  Proof.
    induction lt as [|x lt IH]; intros [|y d] H; cbn in H; try lia; [reflexivity|].
    cbn [map vadd_pad vadd vscale]. change (map (fun x0 => x0 * c) lt) with (vscale c lt) in *. rewrite <- IH by lia. f_equal. ring.
  Qed.

  Lemma zeros_scale_add c : forall k, vadd_pad (map (fun x => x * c) (repeat 0 k)) (repeat 0 k) = repeat 0 k.
  Proof. induction k as [|k IH]; [reflexivity|]. cbn [repeat map vadd_pad]. rewrite IH. f_equal. ring. Qed.

  (* com_key[0]-commitments are linear *)
  Lemma g0_lin keylen c a ra b rb : gadd (gscale c (g0 keylen a ra)) (g0 keylen b rb) = g0 keylen (a * c + b) (ra * c + rb).
  Proof. unfold gadd, gscale, g0. cbn [fst snd map vadd_pad]. rewrite zeros_scale_add. reflexivity. Qed.

  (* ---------------- the row commitments combine to the commitment of the row combination ---------------- *)
  Definition col (mat : list (list F)) (j : nat) : list F := map (fun row => nth j row 0) mat.

  Lemma vadd_pad_cols x : forall (row acc : list F) m, length row = m -> length acc = m ->
    vadd_pad (map (fun y => y * x) row) acc = map (fun j => nth j row 0 * x + nth j acc 0) (seq 0 m).
  Proof.
    intros row acc m. revert row acc. induction m as [|m IH]; intros row acc Hr Ha.
    - destruct row; [|discriminate]. destruct acc; [|discriminate]. reflexivity.
    - destruct row as [|y row]; [discriminate|]. destruct acc as [|a acc]; [discriminate|].
      cbn [map vadd_pad seq nth]. f_equal. rewrite <- seq_shift, map_map. cbn [nth]. apply IH; cbn in *; lia.
  Qed.

  Lemma vadd_pad_nil_r (v : list F) : vadd_pad v [] = v.
  Proof. destruct v; reflexivity. Qed.

  Lemma map_nth_seq (row : list F) : row = map (fun j => nth j row 0) (seq 0 (length row)).
  Proof.
    induction row as [|y row IH]; [reflexivity|]. cbn [length seq map nth]. f_equal.
    rewrite <- seq_shift, map_map. cbn [nth]. exact IH.
  Qed.

  Lemma nth_map_seq (f : nat -> F) : forall m s j, (j < m)%nat -> nth j (map f (seq s m)) 0 = f (s + j)%nat.
  Proof.
    induction m as [|m IH]; intros s j H; [lia|]. destruct j as [|j]; cbn [seq map nth]; [rewrite Nat.add_0_r; reflexivity|].
    rewrite IH by lia. f_equal. lia.
  Qed.

  Lemma gmsm_rows m : forall (mat : list (list F)) (rands l : list F),
    length rands = length mat -> length l = length mat -> Forall (fun row => length row = m) mat -> mat <> [] ->
    gmsm (combine mat rands) l = (map (fun j => vdot l (col mat j)) (seq 0 m), vdot l rands).
  Proof.
    induction mat as [|row mat IH]; intros rands l Hr Hl Hm Hne; [contradiction|].
    destruct rands as [|rr rands]; [discriminate|]. destruct l as [|x l]; [discriminate|].
    inversion Hm as [|? ? Hrow Hm']; subst. cbn [combine gmsm].
    destruct mat as [|row2 mat2].
    - destruct rands; [|cbn in Hr; lia]. destruct l; [|cbn in Hl; lia]. cbn [combine gmsm].
      unfold gadd, gscale. cbn [fst snd vdot]. rewrite vadd_pad_nil_r. f_equal; [|ring].
      rewrite (map_nth_seq row) at 1. rewrite map_map. apply map_ext. intros j. unfold col. cbn [map vdot]. ring.
    - rewrite (IH rands l ltac:(cbn in *; lia) ltac:(cbn in *; lia) Hm' ltac:(discriminate)).
      unfold gadd, gscale. cbn [fst snd vdot]. f_equal; [|ring].
      assert (La : length (map (fun j : nat => vdot l (col (row2 :: mat2) j)) (seq 0 (length row))) = length row) by (rewrite map_length, seq_length; reflexivity).
      rewrite (vadd_pad_cols x row _ (length row) eq_refl La).
      apply map_ext_in. intros j Hj. apply in_seq in Hj.
      rewrite nth_map_seq by lia. unfold col. cbn [map vdot Nat.add]. ring.
  Qed.

  Lemma row_mul_cols mat m l : row_mul mat m l = map (fun j => vdot l (col mat j)) (seq 0 m).
  Proof. reflexivity. Qed.

  (* ---------------- completeness: the honest proof of one polynomial verifies ---------------- *)
  Theorem h_check_complete keylen nv evals ctape rows st ndraws point otape c pf nd :
    (1 <= keylen)%nat -> length point = nv ->
    h_commit1 keylen nv evals ctape = Ok (rows, st, ndraws) ->
    keylen = (2 ^ (nv / 2))%nat ->
    h_open1 keylen point st otape c = Ok (pf, nd) ->
    let '(l, r) := h_lr point in
    length l = keylen -> length r = keylen ->
    h_check1 keylen point rows (vdot (row_mul (hs_mat st) keylen l) r) pf c = Ok true.
  Proof.
    intros Hk Hp Hc Hkey Ho. destruct (h_lr point) as [l r] eqn:Elr. intros Ll Lr.
    unfold h_commit1 in Hc. rewrite <- Hkey in Hc.
    destruct (Nat.odd nv); [discriminate|]. destruct (keylen <? nv)%nat; [discriminate|].
    destruct (negb (length evals =? keylen * keylen)%nat); [discriminate|].
    destruct (length ctape <? keylen)%nat eqn:Et; [discriminate|]. apply Nat.ltb_ge in Et.
    set (m := to_matrix evals keylen keylen) in *. set (rs := firstn keylen ctape) in *.
    assert (Lm : length m = keylen) by (unfold m, to_matrix; rewrite map_length, seq_length; reflexivity).
    assert (Fm : Forall (fun row => length row = keylen) m).
    { unfold m, to_matrix. apply Forall_forall. intros row Hr. apply in_map_iff in Hr. destruct Hr as (i & <- & _). rewrite map_length, seq_length. reflexivity. }
    assert (Lrs : length rs = keylen) by (unfold rs; rewrite firstn_length; lia).
    assert (Erows : mapM (fun rr : list F * F => ped keylen (fst rr) (snd rr)) (combine m rs) = Ok (combine m rs)).
    { assert (G : forall (mm : list (list F)) (rr : list F), Forall (fun row => length row = keylen) mm ->
                  mapM (fun rr0 : list F * F => ped keylen (fst rr0) (snd rr0)) (combine mm rr) = Ok (combine mm rr)).
      { induction mm as [|row mm IHm]; intros rr HF; [reflexivity|]. destruct rr as [|x rr]; [reflexivity|].
        inversion HF as [|? ? Hrow HF']. cbn [combine mapM fst snd]. unfold ped at 1. rewrite Hrow, Nat.eqb_refl. cbn [bind].
        rewrite IHm by exact HF'. reflexivity. }
      apply G. exact Fm. }
    rewrite Erows in Hc. cbn [bind] in Hc. injection Hc as <- <- _.
    unfold h_open1 in Ho. rewrite Elr, Hp, <- Hkey in Ho. cbn [hs_mat hs_rand] in Ho.
    destruct (length otape <? keylen + 3)%nat; [discriminate|].
    rewrite Ll, Lm, Nat.eqb_refl in Ho. cbn [negb] in Ho.
    set (d := firstn keylen (skipn 1 otape)) in *.
    unfold ped in Ho.
    destruct (Nat.eqb_spec (length d) keylen) as [Ld|]; [|discriminate]. cbn [bind] in Ho. injection Ho as <- _.
    unfold h_check1. rewrite Elr, Hp, <- Hkey. cbn [hp_com_eval hp_com_d hp_com_b hp_z hp_zd hp_zb hp_reval hs_mat].
    unfold gel. rewrite combine_length, Lm, Lrs, Nat.min_id, Nat.eqb_refl. cbn [negb].
    set (lt := row_mul m keylen l) in *.
    assert (Llt : length lt = keylen) by (unfold lt, row_mul; rewrite map_length, seq_length; reflexivity).
    (* equation 1 *)
    replace (geqb (g0 keylen (vdot lt r) (nth 0 otape 0)) (g0 keylen (vdot lt r) (nth 0 otape 0))) with true by (symmetry; apply geqb_eq; reflexivity).
    cbn [negb].
    (* equation 2 *)
    rewrite g0_lin.
    assert (E2 : vdot r (vadd d (vscale c lt)) = vdot lt r * c + vdot r d).
    { rewrite vdot_vadd_scale by lia. rewrite (vdot_comm lt r). ring. }
    rewrite E2.
    replace (c * nth 0 otape 0 + nth (keylen + 2) otape 0) with (nth 0 otape 0 * c + nth (keylen + 2) otape 0) by ring.
    replace (geqb (g0 keylen (vdot lt r * c + vdot r d) (nth 0 otape 0 * c + nth (keylen + 2) otape 0))
                  (g0 keylen (vdot lt r * c + vdot r d) (nth 0 otape 0 * c + nth (keylen + 2) otape 0))) with true by (symmetry; apply geqb_eq; reflexivity).
    cbn [negb].
    (* equation 3 *)
    unfold ped. assert (Lz : length (vadd d (vscale c lt)) = keylen) by (rewrite vadd_scale_length; lia).
    rewrite Lz, Nat.eqb_refl. cbn [bind]. f_equal. apply geqb_eq.
    rewrite (gmsm_rows keylen m rs l) by (try lia; try exact Fm; intros E; rewrite E in Lm; cbn in Lm; lia).
    rewrite <- row_mul_cols. fold lt. unfold gadd, gscale. cbn [fst snd].
    rewrite vadd_pad_scale by lia. f_equal. ring.
  Qed.
  (* ---------------- several polynomials at one point ---------------- *)
  (* a (state, row commitments) pair produced by commit under this key *)
  Definition committed (keylen nv : nat) (sr : HState * list gel) : Prop :=
    exists evals ctape nd, h_commit1 keylen nv evals ctape = Ok (snd sr, fst sr, nd).

  Lemma h_loop_complete keylen nv point l r :
    (1 <= keylen)%nat -> length point = nv -> keylen = (2 ^ (nv / 2))%nat ->
    h_lr point = (l, r) -> length l = keylen -> length r = keylen ->
    forall srs otape chal pfs ot' ch',
      Forall (committed keylen nv) srs ->
      h_open_loop keylen point (map fst srs) otape chal = Ok (pfs, ot', ch') ->
      h_check_loop keylen point (map snd srs) (map (fun sr => vdot (row_mul (hs_mat (fst sr)) keylen l) r) srs) pfs chal
        = Ok (true, ch').
  Proof.
    intros Hk Hp Hkey Elr Ll Lr.
    induction srs as [|[st rows] srs IH]; intros otape chal pfs ot' ch' Hc H.
    - cbn [map h_open_loop] in H. injection H as <- _ <-. reflexivity.
    - assert (HC : committed keylen nv (st, rows) /\ Forall (committed keylen nv) srs) by (inversion Hc; split; assumption).
      destruct HC as [(evals & ctape & nd & Hc1) Hc2]. cbn [fst snd] in Hc1.
      cbn [map h_open_loop fst] in H. destruct chal as [|c chal']; [discriminate|].
      destruct (h_open1 keylen point st otape c) as [[pf k]| |] eqn:Eo; cbn [bind] in H; try discriminate.
      destruct (h_open_loop keylen point (map fst srs) (skipn k otape) chal') as [[[pfs0 ot0] ch0]| |] eqn:El; cbn [bind] in H; try discriminate.
      injection H as <- <- <-.
      cbn [map h_check_loop fst snd].
      pose proof (h_check_complete keylen nv evals ctape rows st nd point otape c pf k Hk Hp Hc1 Hkey Eo) as C.
      rewrite Elr in C. rewrite (C Ll Lr). cbn [bind].
      exact (IH _ _ _ _ _ Hc2 El).
  Qed.

  Lemma h_open_loop_length keylen point : forall sts otape chal pfs ot' ch',
    h_open_loop keylen point sts otape chal = Ok (pfs, ot', ch') -> length pfs = length sts.
  Proof.
    induction sts as [|st sts IH]; intros otape chal pfs ot' ch' H.
    - cbn in H. injection H as <- _ _. reflexivity.
    - cbn [h_open_loop] in H. destruct chal as [|c chal']; [discriminate|].
      destruct (h_open1 keylen point st otape c) as [[pf k]| |]; cbn [bind] in H; try discriminate.
      destruct (h_open_loop keylen point sts (skipn k otape) chal') as [[[pfs0 ot0] ch0]| |] eqn:El; cbn [bind] in H; try discriminate.
      injection H as <- _ _. cbn [length]. f_equal. exact (IH _ _ _ _ _ El).
  Qed.

  (* open of a list of committed polynomials at one point is accepted by check for the true values, and the verifier
     ends on the prover's challenge position *)
  Theorem h_list_complete keylen nv point srs otape chal pfs ot' ch' :
    (1 <= keylen)%nat -> length point = nv -> keylen = (2 ^ (nv / 2))%nat ->
    length (fst (h_lr point)) = keylen -> length (snd (h_lr point)) = keylen ->
    Forall (committed keylen nv) srs ->
    h_open_list keylen point (map fst srs) otape chal = Ok (pfs, ot', ch') ->
    h_check_list keylen point (map snd srs)
      (map (fun sr => vdot (row_mul (hs_mat (fst sr)) keylen (fst (h_lr point))) (snd (h_lr point))) srs) pfs chal = Ok (true, ch').
  Proof.
    intros Hk Hp Hkey Ll Lr Hc H. unfold h_open_list in H. unfold h_check_list.
    destruct (Nat.odd (length point)); [discriminate|].
    destruct (h_lr point) as [l r] eqn:Elr. cbn [fst snd] in *.
    pose proof (h_open_loop_length keylen point (map fst srs) otape chal pfs ot' ch' H) as Lp. rewrite map_length in Lp.
    rewrite !map_length, Lp, Nat.eqb_refl. cbn [negb orb].
    exact (h_loop_complete keylen nv point l r Hk Hp Hkey Elr Ll Lr srs otape chal pfs ot' ch' Hc H).
  Qed.
End HyraxFacts.
