(* Lookups in maps built by of_list (BTreeMap::from_iter / collect): with distinct keys the map holds exactly the listed pairs;
   mapping the values keeps the keys. *)
From Coq Require Import List.
From PC Require Import Base.OrdMap.
Import ListNotations.

Section OrdMapFacts.
  Context {K V : Type} (cmp : K -> K -> comparison).
  Hypothesis cmp_eq : forall a b, cmp a b = Eq <-> a = b.

  Lemma key_dec (a b : K) : a = b \/ a <> b.
  Proof. destruct (cmp a b) eqn:E; [left; apply cmp_eq; exact E| |]; right; intros H; apply cmp_eq in H; congruence. Qed.

  Lemma lookup_fold_insert_notin : forall (l : list (K * V)) m k,
    ~ In k (map fst l) ->
    lookup cmp k (fold_left (fun m0 kv => insert cmp (fst kv) (snd kv) m0) l m) = lookup cmp k m.
  Proof.
    induction l as [|[k0 v0] t IH]; intros m k Hn; cbn [fold_left fst snd]; [reflexivity|].
    rewrite IH by (intros H; apply Hn; right; exact H).
    apply lookup_insert_other; [exact cmp_eq|]. intros E. apply Hn. left. cbn [fst]. congruence.
  Qed.

  Lemma lookup_fold_insert_in : forall (l : list (K * V)) m k v,
    NoDup (map fst l) -> In (k, v) l ->
    lookup cmp k (fold_left (fun m0 kv => insert cmp (fst kv) (snd kv) m0) l m) = Some v.
  Proof.
    induction l as [|[k0 v0] t IH]; intros m k v Hd Hin; [destruct Hin|].
    cbn [map fst] in Hd. inversion Hd as [|? ? Hn Hd']; subst. cbn [fold_left fst snd].
    destruct Hin as [E|Hin].
    - injection E as -> ->. rewrite lookup_fold_insert_notin by exact Hn. apply lookup_insert_same. exact cmp_eq.
    - apply IH; assumption.
  Qed.

  Lemma lookup_of_list_in (l : list (K * V)) k v :
    NoDup (map fst l) -> In (k, v) l -> lookup cmp k (of_list cmp l) = Some v.
  Proof. intros Hd Hin. unfold of_list. apply lookup_fold_insert_in; assumption. Qed.
  Lemma lookup_of_list_notin (l : list (K * V)) k :
    ~ In k (map fst l) -> lookup cmp k (of_list cmp l) = None.
  Proof. intros Hn. unfold of_list. rewrite lookup_fold_insert_notin by exact Hn. reflexivity. Qed.

  (* a lookup that succeeds comes from the list *)
  Lemma lookup_fold_insert_some : forall (l : list (K * V)) m k v,
    lookup cmp k (fold_left (fun m0 kv => insert cmp (fst kv) (snd kv) m0) l m) = Some v ->
    In (k, v) l \/ lookup cmp k m = Some v.
  Proof.
    induction l as [|[k0 v0] t IH]; intros m k v H; cbn [fold_left fst snd] in H; [right; exact H|].
    destruct (IH _ _ _ H) as [Hin|Hl]; [left; right; exact Hin|].
    destruct (key_dec k k0) as [->|Hne].
    - rewrite (lookup_insert_same cmp cmp_eq) in Hl. injection Hl as <-. left. left. reflexivity.
    - rewrite (lookup_insert_other cmp cmp_eq) in Hl by exact Hne. right. exact Hl.
  Qed.
  Lemma lookup_of_list_some (l : list (K * V)) k v : lookup cmp k (of_list cmp l) = Some v -> In (k, v) l.
  Proof. intros H. destruct (lookup_fold_insert_some l [] k v H) as [Hin|Hn]; [exact Hin|discriminate]. Qed.
End OrdMapFacts.

Lemma lookup_map_values {K V W} (cmp : K -> K -> comparison) (cmp_eq : forall a b, cmp a b = Eq <-> a = b)
      (f : K -> V -> W) k : forall m : list (K * V),
  lookup cmp k (map (fun kv => (fst kv, f (fst kv) (snd kv))) m) = option_map (f k) (lookup cmp k m).
Proof.
  induction m as [|[k' v'] t IH]; cbn [map lookup fst snd option_map]; [reflexivity|].
  destruct (cmp k k') eqn:E; [apply cmp_eq in E; subst k'; reflexivity|exact IH|exact IH].
Qed.
