(* C11: prover and verifier stay in lock-step over histories of openings on one challenge
   tape (the sponge is modelled as the tape of its outputs); a proof checked under other
   challenges is accepted only on an explicit coincidence. *)
From Coq Require Import List Arith NArith Bool Lia Field Ring.
From PC Require Import Base.Field Base.Result Base.Poly Base.OrdMap Proofs.PolyFacts
     Schemes.KZG10 Schemes.LC Schemes.Marlin Proofs.KZG10Facts Proofs.KZG10Binding Proofs.MarlinComplete.
Import ListNotations.
Open Scope F_scope.

Section MarlinLockstep.
  Context {FO : FieldOps} {FL : FieldLaws FO}.
  Add Field Ffield11 : FL_field.

  (* a history: each operation opens a list of (polynomial, state) at a point *)
  Definition pop := (list (LPoly * MRand) * F)%type.

  Fixpoint prover_history (ck : CKey) (ops : list pop) (chal : list F) : res (list Proof * list F) :=
    match ops with
    | [] => Ok ([], chal)
    | (items, z) :: t =>
      do r <- mopen ck items z chal;
      do rest <- prover_history ck t (snd r);
      Ok (fst r :: fst rest, snd rest)
    end.

  (* the verifier's view of the same history: commitments, point, claimed values, proof *)
  Definition vop := (list LComm * F * list F * Proof)%type.

  Fixpoint verifier_history (vk : MVKey) (ops : list vop) (chal : list F) : res (bool * list F) :=
    match ops with
    | [] => Ok (true, chal)
    | (cs, z, vs, pf) :: t =>
      do r <- mcheck vk cs z vs pf chal;
      do rest <- verifier_history vk t (snd r);
      Ok (fst r && fst rest, snd rest)
    end.

  Section WithKeys.
    Variables (ck : CKey) (vk : MVKey) (g gam h b : F) (D hi n m : nat).
    Hypothesis KO : KeyOK ck vk g gam h b D hi n m.

    Definition op_ok (p : pop) (cs : list LComm) : Prop :=
      Forall2 (honest ck g gam b D m) (fst p) cs /\ Forall no_shifted_blinding (fst p).

    Definition vop_of (p : pop) (cs : list LComm) (pf : Proof) : vop :=
      (cs, snd p, map (fun it => eval (lp_poly (fst it)) (snd p)) (fst p), pf).

    (* for every history length: if the prover completes the history, the verifier accepts every
       proof and ends on exactly the prover's tape position *)
    Theorem lockstep_history : forall (ops : list pop) (css : list (list LComm)) chal pfs rest,
        Forall2 op_ok ops css ->
        prover_history ck ops chal = Ok (pfs, rest) ->
        verifier_history vk (map (fun x => vop_of (fst (fst x)) (snd (fst x)) (snd x)) (combine (combine ops css) pfs)) chal
        = Ok (true, rest) /\ length pfs = length ops.
    Proof.
      induction ops as [|[items z] ops IH]; intros css chal pfs rest HF HP.
      - inversion HF; subst. cbn in HP. inversion HP; subst. cbn. split; reflexivity.
      - inversion HF as [|? cs ? css' [Hh Hn] HF']; subst. cbn [prover_history] in HP.
        destruct (mopen ck items z chal) as [[pf r1]| |] eqn:EO; cbn [bind fst snd] in HP; try discriminate.
        destruct (prover_history ck ops r1) as [[pfs' rest']| |] eqn:EP; cbn [bind fst snd] in HP; try discriminate.
        inversion HP; subst pfs rest; clear HP.
        destruct (IH _ _ _ _ HF' EP) as [IHv IHl].
        cbn [combine map fst snd verifier_history vop_of].
        pose proof (marlin_open_check_complete_unconditional _ _ _ _ _ _ _ _ _ _ _ _ _ _ _ _ KO Hh Hn EO) as HC.
        cbn [fst snd] in HC. rewrite HC. cbn [bind fst snd]. rewrite IHv. cbn [bind fst snd andb].
        split; [reflexivity|cbn [length]; lia].
    Qed.
  End WithKeys.

  (* ---- binding to the transcript: one polynomial without degree bound ---- *)
  Definition plain (c : F) : list LComm :=
    [{| lc_label := 0%N; lc_comm := {| mc_comm := c; mc_shifted := None |}; lc_bound := None |}].

  Theorem other_challenge vk c z v pf xi xi' rest :
    mcheck vk (plain c) z [v] pf (xi :: rest) = Ok (true, rest) ->
    (mcheck vk (plain c) z [v] pf (xi' :: rest) = Ok (true, rest) <->
     (xi' - xi) * (c - vk_g (mvk_vk vk) * v) * vk_h (mvk_vk vk) = 0).
  Proof.
    unfold mcheck, plain. cbn [accumulate lc_bound lc_comm mc_shifted mc_comm Bool.eqb negb bind].
    destruct (check_total (mvk_vk vk) (0 + c * xi) z (0 + v * xi) pf) as [b1 E1].
    destruct (check_total (mvk_vk vk) (0 + c * xi') z (0 + v * xi') pf) as [b2 E2].
    rewrite E1, E2. cbn [bind]. intros H1. inversion H1; subst b1.
    apply check_iff_residual in E1. rewrite residual_closed in E1.
    split; intros H2.
    - inversion H2; subst b2. apply check_iff_residual in E2. rewrite residual_closed in E2.
      transitivity (((0 + c * xi' - vk_g (mvk_vk vk) * (0 + v * xi') - vk_gamma_g (mvk_vk vk) * rv_of pf) * vk_h (mvk_vk vk) - pf_w pf * (vk_beta_h (mvk_vk vk) - vk_h (mvk_vk vk) * z))
                    - ((0 + c * xi - vk_g (mvk_vk vk) * (0 + v * xi) - vk_gamma_g (mvk_vk vk) * rv_of pf) * vk_h (mvk_vk vk) - pf_w pf * (vk_beta_h (mvk_vk vk) - vk_h (mvk_vk vk) * z)));
        [ring|rewrite E1, E2; ring].
    - f_equal. f_equal. destruct b2; [reflexivity|]. exfalso.
      apply check_false_iff in E2. apply E2. rewrite residual_closed.
      transitivity (((0 + c * xi - vk_g (mvk_vk vk) * (0 + v * xi) - vk_gamma_g (mvk_vk vk) * rv_of pf) * vk_h (mvk_vk vk) - pf_w pf * (vk_beta_h (mvk_vk vk) - vk_h (mvk_vk vk) * z))
                    + (xi' - xi) * (c - vk_g (mvk_vk vk) * v) * vk_h (mvk_vk vk));
        [ring|rewrite E1, H2; ring].
  Qed.
End MarlinLockstep.
