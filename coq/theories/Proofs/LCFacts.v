From Coq Require Import List Arith NArith Bool Lia Field Ring.
From PC Require Import Base.Field Base.Result Base.Poly Base.OrdMap Proofs.PolyFacts Schemes.LC.
Import ListNotations.
Open Scope F_scope.

Section LCFacts.
  Context {FO : FieldOps} {FL : FieldLaws FO}.
  Add Field Ffield4 : FL_field.

  Lemma lc_value_app ev a b : lc_value ev (a ++ b) = lc_value ev a + lc_value ev b.
  Proof.
    induction a as [|[c t] a IH]; cbn [app lc_value]; [ring|]. rewrite IH. ring.
  Qed.

  Lemma lc_value_map_scale ev k o :
    lc_value ev (map (fun ct => (k * fst ct, snd ct)) o) = k * lc_value ev o.
  Proof.
    induction o as [|[c t] o IH]; cbn [map lc_value fst snd]; [ring|]. rewrite IH. ring.
  Qed.

  Theorem lc_add_scaled_value ev l c o :
    lc_value ev (lc_add_scaled l c o) = lc_value ev l + c * lc_value ev o.
  Proof. unfold lc_add_scaled. rewrite lc_value_app, lc_value_map_scale. reflexivity. Qed.

  Theorem lc_sub_scaled_value ev l c o :
    lc_value ev (lc_sub_scaled l c o) = lc_value ev l - c * lc_value ev o.
  Proof. unfold lc_sub_scaled. rewrite lc_value_app, lc_value_map_scale. ring. Qed.

  Theorem lc_add_value ev l o : lc_value ev (lc_add l o) = lc_value ev l + lc_value ev o.
  Proof. apply lc_value_app. Qed.

  Theorem lc_sub_value ev l o : lc_value ev (lc_sub l o) = lc_value ev l - lc_value ev o.
  Proof.
    unfold lc_sub. rewrite lc_value_app.
    assert (H : lc_value ev (map (fun ct => (- fst ct, snd ct)) o) = - lc_value ev o).
    { induction o as [|[c t] o IH]; cbn [map lc_value fst snd]; [ring|]. rewrite IH. ring. }
    rewrite H. ring.
  Qed.

  Theorem lc_add_const_value ev l c : lc_value ev (lc_add_const l c) = lc_value ev l + c.
  Proof. unfold lc_add_const. rewrite lc_value_app. cbn [lc_value term_value]. ring. Qed.

  Theorem lc_sub_const_value ev l c : lc_value ev (lc_sub_const l c) = lc_value ev l - c.
  Proof. unfold lc_sub_const. rewrite lc_value_app. cbn [lc_value term_value]. ring. Qed.

  Theorem lc_mul_value ev l c : lc_value ev (lc_mul l c) = lc_value ev l * c.
  Proof.
    unfold lc_mul. induction l as [|[c' t] l IH]; cbn [map lc_value fst snd]; [ring|].
    rewrite IH. ring.
  Qed.

  Theorem apply_op_value_spec ev l op :
    lc_value ev (apply_op l op) = apply_op_value ev (lc_value ev l) op.
  Proof.
    destruct op; cbn [apply_op apply_op_value].
    - apply lc_add_scaled_value. - apply lc_sub_scaled_value. - apply lc_add_value.
    - apply lc_sub_value. - apply lc_add_const_value. - apply lc_sub_const_value.
    - apply lc_mul_value.
  Qed.

  (* every operator sequence *)
  Theorem lc_ops_sequence ev ops l :
    lc_value ev (fold_left apply_op ops l) = fold_left (apply_op_value ev) ops (lc_value ev l).
  Proof.
    revert l; induction ops as [|op ops IH]; intros l; cbn [fold_left]; [reflexivity|].
    rewrite IH, apply_op_value_spec. reflexivity.
  Qed.

  (* the terms themselves: operators never touch existing terms except `*=` *)
  Lemma apply_op_prefix l op : (forall c, op <> OpMul c) -> firstn (length l) (apply_op l op) = l.
  Proof.
    intros H. destruct op; cbn [apply_op]; unfold lc_add_scaled, lc_sub_scaled, lc_add, lc_sub,
      lc_add_const, lc_sub_const; try (rewrite firstn_app, Nat.sub_diag, firstn_all; cbn [firstn]; apply app_nil_r).
    exfalso. apply (H c). reflexivity.
  Qed.

  (* ---------- evaluate_query_set ---------- *)
  Lemma qkey_cmp_eq : forall a b : qkey, qkey_cmp a b = Eq <-> a = b.
  Proof. apply cmp_pair_eq; [apply N.compare_eq_iff|apply FL_cmp]. Qed.

  Definition entries_correct (pm : list (N * poly)) (m : list (qkey * F)) : Prop :=
    forall k v, lookup qkey_cmp k m = Some v ->
                exists p, lookup N.compare (fst k) pm = Some p /\ v = eval p (snd k).

  Lemma qkey_dec (a b : qkey) : a = b \/ a <> b.
  Proof.
    destruct (qkey_cmp a b) eqn:E; [left; apply qkey_cmp_eq; exact E| |];
      right; intros H; apply qkey_cmp_eq in H; congruence.
  Qed.

  Theorem evaluate_query_set_spec pm qs : forall acc m,
      evaluate_query_set pm qs acc = Ok m -> entries_correct pm acc ->
      entries_correct pm m /\
      (forall label pl z, In (label, (pl, z)) qs ->
                          exists p, lookup N.compare label pm = Some p /\
                                    lookup qkey_cmp (label, z) m = Some (eval p z)) /\
      (forall k, lookup qkey_cmp k acc <> None -> lookup qkey_cmp k m <> None).
  Proof.
    induction qs as [|[label [pl z]] t IH]; intros acc m H Hc; cbn [evaluate_query_set] in H.
    - inversion H; subst. repeat split; [exact Hc| intros ? ? ? []| auto].
    - destruct (lookup N.compare label pm) as [p|] eqn:Ep; [|discriminate].
      assert (Hc' : entries_correct pm (insert qkey_cmp (label, z) (eval p z) acc)).
      { intros k v Hk. destruct (qkey_dec k (label, z)) as [->|N].
        - rewrite (lookup_insert_same _ qkey_cmp_eq) in Hk. inversion Hk; subst. exists p. split; [exact Ep|reflexivity].
        - rewrite (lookup_insert_other _ qkey_cmp_eq) in Hk by exact N. apply Hc. exact Hk. }
      destruct (IH _ _ H Hc') as (C1 & C2 & C3). repeat split.
      + exact C1.
      + intros l2 pl2 z2 [E|Hin].
        * inversion E; subst. exists p. split; [exact Ep|].
          assert (Hp : lookup qkey_cmp (l2, z2) m <> None).
          { apply C3. rewrite (lookup_insert_same _ qkey_cmp_eq). discriminate. }
          destruct (lookup qkey_cmp (l2, z2) m) as [v|] eqn:Ev; [|congruence].
          destruct (C1 _ _ Ev) as (p' & Hp' & ->). cbn [fst snd] in *. congruence.
        * apply C2 with pl2. exact Hin.
      + intros k Hk. apply C3. destruct (qkey_dec k (label, z)) as [->|N].
        * rewrite (lookup_insert_same _ qkey_cmp_eq). discriminate.
        * rewrite (lookup_insert_other _ qkey_cmp_eq) by exact N. exact Hk.
  Qed.

  (* ---------- succinct check polynomial ---------- *)
  Lemma eval_app p q x : eval (p ++ q) x = eval p x + fpow x (length p) * eval q x.
  Proof.
    induction p as [|c p IH]; cbn [app eval length fpow]; [ring|]. rewrite IH. ring.
  Qed.

  Lemma eval_map_scale c p x : eval (map (fun a => a * c) p) x = eval p x * c.
  Proof. induction p as [|a p IH]; cbn [map eval]; [ring|]. rewrite IH. ring. Qed.

  Lemma firstn_app_exact {A} n (a r : list A) : length a = n -> firstn n (a ++ r) = a.
  Proof. intros <-. rewrite firstn_app, Nat.sub_diag, firstn_all. cbn [firstn]. apply app_nil_r. Qed.
  Lemma skipn_app_exact {A} n (a r : list A) : length a = n -> skipn n (a ++ r) = r.
  Proof. intros <-. rewrite skipn_app, skipn_all, Nat.sub_diag. reflexivity. Qed.

  Lemma scale_blocks_nil fuel ed ch : scale_blocks fuel ed ch [] = [].
  Proof.
    induction fuel as [|f IH]; [reflexivity|]. cbn [scale_blocks].
    rewrite !skipn_nil, !firstn_nil, IH. reflexivity.
  Qed.

  Lemma scale_blocks_step fuel ed ch a b rest :
    length a = ed -> length b = ed ->
    scale_blocks (S fuel) ed ch (a ++ b ++ rest) = a ++ map (fun c => c * ch) b ++ scale_blocks fuel ed ch rest.
  Proof.
    intros Ha Hb. cbn [scale_blocks].
    rewrite (firstn_app_exact ed a) by exact Ha.
    rewrite (skipn_app_exact ed a) by exact Ha.
    rewrite (firstn_app_exact ed b) by exact Hb.
    rewrite (app_assoc a b rest). rewrite (skipn_app_exact (2 * ed) (a ++ b)) by (rewrite app_length; lia).
    reflexivity.
  Qed.

  (* L3: one block pair *)
  Lemma scale_blocks_pair ed ch a b :
    length a = ed -> length b = ed -> ed <> O ->
    scale_blocks (length (a ++ b)) ed ch (a ++ b) = a ++ map (fun c => c * ch) b.
  Proof.
    intros Ha Hb Hne. rewrite app_length. destruct (length a + length b)%nat eqn:E; [lia|].
    replace (a ++ b) with (a ++ b ++ []) by (rewrite app_nil_r; reflexivity).
    rewrite scale_blocks_step by assumption.
    rewrite scale_blocks_nil, app_nil_r. reflexivity.
  Qed.

  (* a list made of n block pairs *)
  Inductive blocks (ed : nat) : list F -> Prop :=
  | blocks_nil : blocks ed []
  | blocks_cons a b rest : length a = ed -> length b = ed -> blocks ed rest -> blocks ed (a ++ b ++ rest).

  Lemma blocks_length ed l : blocks ed l -> ed <> O -> (length l >= 0)%nat.
  Proof. lia. Qed.

  (* fuel independence *)
  Lemma scale_blocks_fuel ed ch l : blocks ed l -> ed <> O ->
    forall f1 f2, (length l <= f1)%nat -> (length l <= f2)%nat ->
                  scale_blocks f1 ed ch l = scale_blocks f2 ed ch l.
  Proof.
    intros B Hne. induction B as [|a b rest Ha Hb B IH]; intros f1 f2 H1 H2.
    - rewrite !scale_blocks_nil. reflexivity.
    - rewrite !app_length in H1, H2.
      destruct f1 as [|f1]; [lia|]. destruct f2 as [|f2]; [lia|].
      rewrite !scale_blocks_step by assumption. f_equal. f_equal. apply IH; lia.
  Qed.

  (* L1: splits over append of block lists *)
  Lemma scale_blocks_app ed ch x y : blocks ed x -> blocks ed y -> ed <> O ->
    forall f, (length (x ++ y) <= f)%nat ->
    scale_blocks f ed ch (x ++ y) = scale_blocks (length x) ed ch x ++ scale_blocks (length y) ed ch y.
  Proof.
    intros Bx By Hne. induction Bx as [|a b rest Ha Hb B IH]; intros f Hf.
    - cbn [app length]. rewrite scale_blocks_nil. cbn [app]. apply scale_blocks_fuel; auto.
    - rewrite <- !app_assoc in *. rewrite !app_length in Hf.
      destruct f as [|f]; [lia|]. rewrite scale_blocks_step by assumption.
      rewrite IH by (rewrite app_length; lia).
      assert (E : length (a ++ b ++ rest) = S (pred (length (a ++ b ++ rest)))) by (rewrite !app_length; lia).
      rewrite E. rewrite scale_blocks_step by assumption.
      rewrite <- !app_assoc. f_equal. f_equal. f_equal.
      apply scale_blocks_fuel; auto. rewrite !app_length. lia.
  Qed.

  (* L2: commutes with scaling every entry *)
  Lemma scale_blocks_map fuel ed ch c l :
    scale_blocks fuel ed ch (map (fun a => a * c) l) = map (fun a => a * c) (scale_blocks fuel ed ch l).
  Proof.
    revert l; induction fuel as [|f IH]; intros l; [reflexivity|].
    cbn [scale_blocks].
    rewrite !map_app, !skipn_map, !firstn_map, IH.
    rewrite !map_map. f_equal. f_equal.
    apply map_ext. intros a. ring.
  Qed.

  Lemma blocks_pow2 k j l : length l = (2 ^ k)%nat -> (j < k)%nat -> blocks (2 ^ j) l.
  Proof.
    intros Hl Hj.
    assert (exists n, length l = (n * (2 * 2 ^ j))%nat) as [n Hn].
    { exists (2 ^ (k - S j))%nat. rewrite Hl.
      replace k with (S j + (k - S j))%nat at 1 by lia. rewrite Nat.pow_add_r. cbn [Nat.pow]. lia. }
    clear Hl. revert l Hn. induction n as [|n IH]; intros l Hn.
    - destruct l; [constructor|cbn in Hn; lia].
    - assert (Hp : (2 ^ j <> 0)%nat) by (apply Nat.pow_nonzero; lia).
      rewrite <- (firstn_skipn (2 ^ j) l). rewrite <- (firstn_skipn (2 ^ j) (skipn (2 ^ j) l)).
      constructor.
      + rewrite firstn_length. lia.
      + rewrite firstn_length, skipn_length. lia.
      + apply IH. rewrite !skipn_length. lia.
  Qed.

  Lemma scale_blocks_length fuel ed ch l : length (scale_blocks fuel ed ch l) = length l.
  Proof.
    revert l; induction fuel as [|f IHf]; intros l; [reflexivity|].
    cbn [scale_blocks].
    rewrite !app_length, map_length, IHf, !firstn_length, !skipn_length. lia.
  Qed.

  Lemma cc_loop_length chs l : length (cc_loop chs l) = length l.
  Proof.
    revert l; induction chs as [|c rest IH]; intros l; cbn [cc_loop]; [reflexivity|].
    rewrite IH. apply scale_blocks_length.
  Qed.

  Lemma cc_loop_map chs c l :
    cc_loop chs (map (fun a => a * c) l) = map (fun a => a * c) (cc_loop chs l).
  Proof.
    revert l; induction chs as [|ch rest IH]; intros l; cbn [cc_loop]; [reflexivity|].
    rewrite map_length, scale_blocks_map, IH. reflexivity.
  Qed.

  Lemma cc_loop_app chs : forall k a b,
      (length chs <= k)%nat -> length a = (2 ^ k)%nat -> length b = (2 ^ k)%nat ->
      cc_loop chs (a ++ b) = cc_loop chs a ++ cc_loop chs b.
  Proof.
    induction chs as [|ch rest IH]; intros k a b Hk Ha Hb; cbn [cc_loop]; [reflexivity|].
    cbn [length] in Hk.
    assert (Hp : (2 ^ length rest <> 0)%nat) by (apply Nat.pow_nonzero; lia).
    rewrite scale_blocks_app; auto; try (apply (blocks_pow2 k); [assumption|lia]).
    apply (IH k); [lia| |]; rewrite scale_blocks_length; assumption.
  Qed.

  Lemma repeat_double {A} (x : A) n : repeat x (2 * n) = repeat x n ++ repeat x n.
  Proof. replace (2 * n)%nat with (n + n)%nat by lia. apply repeat_app. Qed.

  Lemma compute_coeffs_cons ch rest :
    compute_coeffs (ch :: rest) = compute_coeffs rest ++ map (fun a => a * ch) (compute_coeffs rest).
  Proof.
    unfold compute_coeffs. cbn [length cc_loop].
    assert (Hp : (2 ^ length rest <> 0)%nat) by (apply Nat.pow_nonzero; lia).
    rewrite repeat_length. cbn [Nat.pow]. rewrite repeat_double.
    set (ones := repeat 1 (2 ^ length rest)).
    assert (Ho : length ones = (2 ^ length rest)%nat) by apply repeat_length.
    replace (2 * 2 ^ length rest)%nat with (length (ones ++ ones)) by (rewrite app_length; lia).
    rewrite scale_blocks_pair by assumption.
    rewrite (cc_loop_app rest (length rest)); [|lia|exact Ho|rewrite map_length; exact Ho].
    rewrite cc_loop_map. reflexivity.
  Qed.

  Theorem compute_coeffs_length chs : length (compute_coeffs chs) = (2 ^ length chs)%nat.
  Proof. unfold compute_coeffs. rewrite cc_loop_length. apply repeat_length. Qed.

  Lemma sc_eval_loop_scale chs z p : sc_eval_loop chs z p = p * sc_eval_loop chs z 1.
  Proof.
    revert p; induction chs as [|c rest IH]; intros p; cbn [sc_eval_loop]; [ring|].
    rewrite IH. rewrite (IH (1 * _)). ring.
  Qed.

  (* C16: the succinct form and the expanded coefficient vector agree at every point,
     for every challenge list *)
  Theorem succinct_check_poly chs z : eval (compute_coeffs chs) z = sc_evaluate chs z.
  Proof.
    induction chs as [|c rest IH].
    - unfold compute_coeffs, sc_evaluate. cbn. ring.
    - rewrite compute_coeffs_cons, eval_app, eval_map_scale, compute_coeffs_length, IH.
      unfold sc_evaluate. cbn [sc_eval_loop].
      rewrite (sc_eval_loop_scale rest z (1 * (1 + fpow z (2 ^ length rest) * c))). ring.
  Qed.

  (* coefficient 2^(k-j) (0-based j-th challenge, position 2^(|rest|)) is that challenge *)
  Theorem compute_coeffs_challenge_pos pre c rest :
    nth (2 ^ length rest) (compute_coeffs (pre ++ c :: rest)) 0 = c.
  Proof.
    induction pre as [|p pre IH]; cbn [app].
    - rewrite compute_coeffs_cons.
      rewrite app_nth2 by (rewrite compute_coeffs_length; lia).
      rewrite compute_coeffs_length, Nat.sub_diag.
      assert (H0 : nth 0 (compute_coeffs rest) 0 = 1).
      { induction rest as [|r rest IHr]; [reflexivity|].
        rewrite compute_coeffs_cons. rewrite app_nth1; [exact IHr|].
        rewrite compute_coeffs_length. apply Nat.neq_0_lt_0, Nat.pow_nonzero. lia. }
      destruct (compute_coeffs rest) as [|x xs] eqn:E; cbn [map nth] in *.
      + exfalso. apply f_1_neq_0. symmetry. exact H0.
      + rewrite H0. ring.
    - rewrite compute_coeffs_cons. rewrite app_nth1; [exact IH|].
      rewrite compute_coeffs_length, app_length. cbn [length].
      apply Nat.pow_lt_mono_r; lia.
  Qed.
End LCFacts.
