(* Completeness of the trait's default open_combinations / check_combinations, for ANY scheme whose own open / check are
   complete on one point: the evaluations the prover transmits are the true ones in the verifier's key order, every claimed
   combination value (the combination of the true evaluations) matches, and the default batch check accepts.
   Side condition: one point per point label in the equation query set (the documented precondition of query sets). *)
From Coq Require Import List Arith NArith Bool Lia Field Ring.
From PC Require Import Base.Field Base.Result Base.Poly Base.OrdMap Schemes.LC Schemes.DefaultBatch Proofs.DefaultBatchFacts
     Proofs.DefaultBatchComplete.
Import ListNotations.

(* ---------------- generic facts about sorted insertion ---------------- *)
Section InsertFacts.
  Context {K V : Type} (cmp : K -> K -> comparison).
  Hypothesis cmp_eq : forall a b, cmp a b = Eq <-> a = b.

  Lemma In_insert k v (m : list (K * V)) x : In x (insert cmp k v m) -> x = (k, v) \/ In x m.
  Proof.
    induction m as [|[k' v'] t IH]; cbn [insert]; intros H.
    - destruct H as [<-|[]]. left; reflexivity.
    - destruct (cmp k k'); cbn [In] in H |- *.
      + destruct H as [<-|H]; [left; reflexivity|right; right; exact H].
      + destruct H as [<-|H]; [left; reflexivity|right; exact H].
      + destruct H as [<-|H]; [right; left; reflexivity|]. destruct (IH H) as [->|H']; [left; reflexivity|right; right; exact H'].
  Qed.
  Lemma insert_key_in k v (m : list (K * V)) : In k (map fst (insert cmp k v m)).
  Proof.
    induction m as [|[k' v'] t IH]; cbn [insert map fst In]; [left; reflexivity|].
    destruct (cmp k k'); cbn [map fst In]; [left; reflexivity|left; reflexivity|right; exact IH].
  Qed.
  Lemma insert_keeps_keys k v (m : list (K * V)) k2 : In k2 (map fst m) -> In k2 (map fst (insert cmp k v m)).
  Proof.
    induction m as [|[k' v'] t IH]; cbn [insert map fst In]; intros H; [destruct H|].
    destruct (cmp k k') eqn:E; cbn [map fst In].
    - apply cmp_eq in E. subst k'. destruct H as [<-|H]; [left; reflexivity|right; exact H].
    - right. exact H.
    - destruct H as [<-|H]; [left; reflexivity|right; exact (IH H)].
  Qed.
End InsertFacts.

Lemma keys_insert_unit {K V} (cmp : K -> K -> comparison) k (v : V) (m : list (K * V)) :
  map fst (insert cmp k v m) = map fst (insert cmp k tt (map (fun x => (fst x, tt)) m)).
Proof.
  induction m as [|[k' v'] t IH]; cbn [insert map fst]; [reflexivity|].
  destruct (cmp k k'); cbn [map fst]; try reflexivity.
  - rewrite map_map. reflexivity.
  - rewrite map_map. reflexivity.
  - f_equal. exact IH.
Qed.
Lemma combine_fst_snd {A B} (l : list (A * B)) : combine (map fst l) (map snd l) = l.
Proof. induction l as [|[a b] l IH]; cbn [map combine fst snd]; [reflexivity|rewrite IH; reflexivity]. Qed.

Section DefaultLCComplete.
  Context {FO : FieldOps} {FL : FieldLaws FO}.
  Add Field Ffield47 : FL_field.
  Local Open Scope F_scope.
  Variables (Comm Item Proof St : Type).
  Variable check : list Comm -> point -> list F -> Proof -> St -> res (bool * St).
  Variable open : list Item -> point -> St -> res (Proof * St).
  Variable R : Item -> Comm -> Prop.
  Variable value : Item -> point -> F.
  Hypothesis group_complete : forall items cs pt st pf st',
    Forall2 R items cs -> open items pt st = Ok (pf, st') ->
    check cs pt (map (fun it => value it pt) items) pf st = Ok (true, st').

  (* ---- comparisons are equalities ---- *)
  Lemma pt_cmp_eq : forall a b : point, pt_cmp a b = Eq <-> a = b.
  Proof. apply cmp_list_eq. apply FL_cmp. Qed.
  Lemma pkey_cmp_eq : forall a b : pkey, pkey_cmp a b = Eq <-> a = b.
  Proof. apply cmp_pair_eq; [apply N.compare_eq_iff|apply pt_cmp_eq]. Qed.
  Lemma q_cmp_eq : forall a b : query, q_cmp a b = Eq <-> a = b.
  Proof. apply cmp_pair_eq; [apply N.compare_eq_iff|]. apply cmp_pair_eq; [apply N.compare_eq_iff|apply pt_cmp_eq]. Qed.
  Lemma pt_eqb_eq : forall a b : point, pt_eqb a b = true <-> a = b.
  Proof.
    induction a as [|x a IH]; destruct b as [|y b]; cbn [pt_eqb]; split; intros H; try reflexivity; try discriminate.
    - apply andb_true_iff in H. destruct H as [H1 H2]. apply FL_eqb in H1. apply IH in H2. congruence.
    - injection H as -> ->. apply andb_true_iff. split; [apply FL_eqb; reflexivity|apply IH; reflexivity].
  Qed.

  Lemma lookup_pk_is_lookup k (m : list (pkey * F)) : lookup_pk k m = OrdMap.lookup pkey_cmp k m.
  Proof. induction m as [|[k' v] t IH]; cbn [lookup_pk OrdMap.lookup]; [reflexivity|]. destruct (pkey_cmp k k'); try reflexivity; exact IH. Qed.

  (* ---- evaluate_qs: the transmitted evaluations ---- *)
  Definition qkey_of (q : query) : pkey := (fst q, snd (snd q)).

  Lemma classic_in (t : list query) (k : pkey) :
    (exists q, In q t /\ qkey_of q = k) \/ (forall q, In q t -> qkey_of q <> k).
  Proof.
    induction t as [|q t IH]; [right; intros q []|].
    assert (Hne : pkey_cmp (qkey_of q) k <> Eq -> (exists q0, In q0 (q :: t) /\ qkey_of q0 = k) \/ (forall q0, In q0 (q :: t) -> qkey_of q0 <> k)).
    { intros Hn. destruct IH as [(q' & H1 & H2)|Hf]; [left; exists q'; split; [right; exact H1|exact H2]|].
      right. intros q0 [<-|Hin]; [intros Ek; apply Hn; apply pkey_cmp_eq; exact Ek|exact (Hf q0 Hin)]. }
    destruct (pkey_cmp (qkey_of q) k) eqn:E.
    - left. exists q. split; [left; reflexivity|apply pkey_cmp_eq; exact E].
    - apply Hne. discriminate.
    - apply Hne. discriminate.
  Qed.

  Lemma evaluate_qs_spec im : forall pqs acc pev,
    evaluate_qs Item value im pqs acc = Ok pev ->
    (forall q, In q pqs -> exists it, lookup_lab (fst q) im = Some it /\ lookup_pk (qkey_of q) pev = Some (value it (snd (snd q)))) /\
    (forall k, (forall q, In q pqs -> qkey_of q <> k) -> lookup_pk k pev = lookup_pk k acc).
  Proof.
    induction pqs as [|[lab [pl pt]] t IH]; intros acc pev H; cbn [evaluate_qs] in H.
    - injection H as <-. split; [intros q []|reflexivity].
    - destruct (lookup_lab lab im) as [it|] eqn:El; [|discriminate].
      destruct (IH _ _ H) as [A B]. split.
      + intros q [<-|Hin]; [|exact (A q Hin)].
        unfold qkey_of. cbn [fst snd]. exists it. split; [exact El|].
        destruct (classic_in t (lab, pt)) as [(q' & Hq' & Ek)|Hn].
        * destruct (A q' Hq') as (it' & El' & Ev'). unfold qkey_of in Ek. destruct q' as [lab' [pl' pt']]. cbn [fst snd] in *.
          injection Ek as -> ->. rewrite El in El'. injection El' as <-. exact Ev'.
        * rewrite (B (lab, pt) Hn), lookup_pk_is_lookup. apply lookup_insert_same. exact pkey_cmp_eq.
      + intros k Hk. rewrite (B k (fun q Hin => Hk q (or_intror Hin))), !lookup_pk_is_lookup.
        apply lookup_insert_other; [exact pkey_cmp_eq|]. intros E. apply (Hk (lab, (pl, pt)) (or_introl eq_refl)). unfold qkey_of. cbn [fst snd]. congruence.
  Qed.

  (* ---- the keys of the transmitted evaluations are the verifier's keys, in its order ---- *)
  Lemma map_unit_insert {V} (k : pkey) (v : V) (m : list (pkey * V)) :
    map (fun x => (fst x, tt)) (insert pkey_cmp k v m) = insert pkey_cmp k tt (map (fun x => (fst x, tt)) m).
  Proof.
    induction m as [|[k' v'] t IH]; cbn [insert map fst]; [reflexivity|].
    destruct (pkey_cmp k k'); cbn [map fst]; try reflexivity. f_equal. exact IH.
  Qed.
  Lemma evaluate_qs_keys im : forall pqs acc pev,
    evaluate_qs Item value im pqs acc = Ok pev ->
    map fst pev = map fst (fold_left (fun a q => insert pkey_cmp (fst q, snd (snd q)) tt a) pqs (map (fun x => (fst x, tt)) acc)).
  Proof.
    induction pqs as [|[lab [pl pt]] t IH]; intros acc pev H; cbn [evaluate_qs] in H.
    - injection H as <-. cbn [fold_left]. rewrite map_map. reflexivity.
    - destruct (lookup_lab lab im) as [it|]; [|discriminate].
      rewrite (IH _ _ H). cbn [fold_left fst snd]. rewrite map_unit_insert. reflexivity.
  Qed.
  Lemma transmitted_reassembled im pqs pev :
    evaluate_qs Item value im pqs [] = Ok pev -> combine (poly_point_keys pqs) (map snd pev) = pev.
  Proof.
    intros H. unfold poly_point_keys. rewrite <- (combine_fst_snd pev) at 2. f_equal.
    rewrite (evaluate_qs_keys im pqs [] pev H). reflexivity.
  Qed.

  (* ---- the value of a combination from the transmitted evaluations ---- *)
  Lemma lc_rhs_value (f : N -> F) pev pt : forall terms acc,
    (forall c l, In (c, TPoly l) terms -> lookup_pk (l, pt) pev = Some (f l)) ->
    lc_rhs pev pt terms acc = Ok (acc + lc_value f terms).
  Proof.
    induction terms as [|[c [|l]] t IH]; intros acc H; cbn [lc_rhs lc_value term_value].
    - f_equal. ring.
    - rewrite IH by (intros c0 l0 Hin; apply (H c0 l0); right; exact Hin). f_equal. ring.
    - rewrite (H c l (or_introl eq_refl)). rewrite IH by (intros c0 l0 Hin; apply (H c0 l0); right; exact Hin). f_equal. ring.
  Qed.

  (* ---- membership in the polynomial query set ---- *)
  Lemma inner_fold_in (pq : N * point) : forall terms (acc : list (query * unit)) c l,
    In (c, TPoly l) terms ->
    In (l, pq) (map fst (fold_left (fun (a : list (query * unit)) (t : F * lcterm) => match snd t with TPoly l0 => insert q_cmp (l0, pq) tt a | TOne => a end) terms acc)).
  Proof.
    assert (Keep : forall terms (acc : list (query * unit)) x, In x (map fst acc) ->
              In x (map fst (fold_left (fun (a : list (query * unit)) (t : F * lcterm) => match snd t with TPoly l0 => insert q_cmp (l0, pq) tt a | TOne => a end) terms acc))).
    { induction terms as [|[c0 [|l0]] t IH]; intros acc x Hx; cbn [fold_left snd]; [exact Hx|apply IH; exact Hx|].
      apply IH. apply insert_keeps_keys; [exact q_cmp_eq|exact Hx]. }
    induction terms as [|[c0 [|l0]] t IH]; intros acc c l Hin; [destruct Hin| |].
    - destruct Hin as [E|Hin]; [discriminate|]. cbn [fold_left snd]. exact (IH _ _ _ Hin).
    - cbn [fold_left snd]. destruct Hin as [E|Hin].
      + injection E as _ ->. apply Keep. apply insert_key_in.
      + exact (IH _ _ _ Hin).
  Qed.
  Lemma poly_qs_in lcm : forall qs (acc : list (query * unit)) q terms c l,
    In q qs -> OrdMap.lookup N.compare (fst q) lcm = Some terms -> In (c, TPoly l) terms ->
    In (l, snd q) (map fst (fold_left (fun (acc0 : list (query * unit)) (q0 : query) =>
                    match OrdMap.lookup N.compare (fst q0) lcm with
                    | None => acc0
                    | Some terms0 => fold_left (fun (a : list (query * unit)) (t : F * lcterm) => match snd t with TPoly l0 => insert q_cmp (l0, snd q0) tt a | TOne => a end) terms0 acc0
                    end) qs acc)).
  Proof.
    assert (KeepI : forall pq terms (acc : list (query * unit)) x, In x (map fst acc) ->
              In x (map fst (fold_left (fun (a : list (query * unit)) (t : F * lcterm) => match snd t with TPoly l0 => insert q_cmp (l0, pq) tt a | TOne => a end) terms acc))).
    { intros pq. induction terms as [|[c0 [|l0]] t IH]; intros acc x Hx; cbn [fold_left snd]; [exact Hx|apply IH; exact Hx|].
      apply IH. apply insert_keeps_keys; [exact q_cmp_eq|exact Hx]. }
    assert (Keep : forall qs (acc : list (query * unit)) x, In x (map fst acc) ->
              In x (map fst (fold_left (fun (acc0 : list (query * unit)) (q0 : query) =>
                    match OrdMap.lookup N.compare (fst q0) lcm with
                    | None => acc0
                    | Some terms0 => fold_left (fun (a : list (query * unit)) (t : F * lcterm) => match snd t with TPoly l0 => insert q_cmp (l0, snd q0) tt a | TOne => a end) terms0 acc0
                    end) qs acc))).
    { induction qs as [|q0 t IH]; intros acc x Hx; cbn [fold_left]; [exact Hx|]. apply IH.
      destruct (OrdMap.lookup N.compare (fst q0) lcm); [apply KeepI; exact Hx|exact Hx]. }
    induction qs as [|q0 t IH]; intros acc q terms c l Hin Hl Ht; [destruct Hin|].
    cbn [fold_left]. destruct Hin as [->|Hin].
    - apply Keep. rewrite Hl. exact (inner_fold_in (snd q) terms acc c l Ht).
    - exact (IH _ q terms c l Hin Hl Ht).
  Qed.

  (* the converse: every polynomial query carries the (point label, point) of some equation query *)
  Lemma poly_qs_from lcm : forall qs (acc : list (query * unit)) x,
    In x (map fst (fold_left (fun (acc0 : list (query * unit)) (q0 : query) =>
                    match OrdMap.lookup N.compare (fst q0) lcm with
                    | None => acc0
                    | Some terms0 => fold_left (fun (a : list (query * unit)) (t : F * lcterm) => match snd t with TPoly l0 => insert q_cmp (l0, snd q0) tt a | TOne => a end) terms0 acc0
                    end) qs acc)) ->
    In x (map fst acc) \/ exists q, In q qs /\ snd x = snd q.
  Proof.
    assert (Inner : forall pq terms (acc : list (query * unit)) x,
              In x (map fst (fold_left (fun (a : list (query * unit)) (t : F * lcterm) => match snd t with TPoly l0 => insert q_cmp (l0, pq) tt a | TOne => a end) terms acc)) ->
              In x (map fst acc) \/ snd x = pq).
    { intros pq. induction terms as [|[c0 [|l0]] t IH]; intros acc x Hx; cbn [fold_left snd] in Hx; [left; exact Hx|exact (IH _ _ Hx)|].
      destruct (IH _ _ Hx) as [Hin|E]; [|right; exact E].
      apply in_map_iff in Hin. destruct Hin as ([x' u] & <- & Hin). cbn [fst].
      destruct (In_insert q_cmp _ _ _ _ Hin) as [E|Hin']; [injection E as -> _; right; reflexivity|].
      left. apply in_map_iff. exists (x', u). split; [reflexivity|exact Hin']. }
    induction qs as [|q0 t IH]; intros acc x Hx; cbn [fold_left] in Hx; [left; exact Hx|].
    destruct (IH _ _ Hx) as [Hin|(q & Hq & E)]; [|right; exists q; split; [right; exact Hq|exact E]].
    destruct (OrdMap.lookup N.compare (fst q0) lcm) as [terms|]; [|left; exact Hin].
    destruct (Inner _ _ _ _ Hin) as [H1|H2]; [left; exact H1|]. right. exists q0. split; [left; reflexivity|exact H2].
  Qed.

  (* ---- grouping by point label, under one point per point label ---- *)
  Definition one_point_per_label (qs : list query) : Prop :=
    forall q1 q2, In q1 qs -> In q2 qs -> fst (snd q1) = fst (snd q2) -> snd (snd q1) = snd (snd q2).

  Lemma insert_label_in l : forall ls x, In x (insert_label l ls) -> x = l \/ In x ls.
  Proof.
    induction ls as [|y t IH]; intros x H; cbn [insert_label] in H.
    - destruct H as [<-|[]]. left; reflexivity.
    - destruct (N.compare l y); cbn [In] in H.
      + right. exact H.
      + destruct H as [<-|H]; [left; reflexivity|right; exact H].
      + destruct H as [<-|H]; [right; left; reflexivity|]. destruct (IH _ H) as [->|H']; [left; reflexivity|right; right; exact H'].
  Qed.
  Lemma insert_label_nonempty l ls : insert_label l ls <> [].
  Proof. destruct ls as [|y t]; cbn [insert_label]; [discriminate|]. destruct (N.compare l y); discriminate. Qed.

  Definition GInv (seen : list query) (m : list (N * (point * list N))) : Prop :=
    forall pl pt labels, In (pl, (pt, labels)) m -> labels <> [] /\ forall l, In l labels -> In (l, (pl, pt)) seen.

  Lemma insert_group_inv seen pl pt l : forall m,
    GInv seen m -> (forall q, In q seen -> fst (snd q) = pl -> snd (snd q) = pt) ->
    GInv (seen ++ [(l, (pl, pt))]) (insert_group pl pt l m).
  Proof.
    assert (Old : forall m, GInv seen m -> GInv (seen ++ [(l, (pl, pt))]) m).
    { intros m Hm pl0 pt0 labels Hin. destruct (Hm pl0 pt0 labels Hin) as [Hn Hl]. split; [exact Hn|].
      intros l0 Hl0. apply in_or_app. left. exact (Hl l0 Hl0). }
    assert (New : forall pl0 pt0 labels, (pl0, (pt0, labels)) = (pl, (pt, [l])) ->
              labels <> [] /\ forall l0, In l0 labels -> In (l0, (pl0, pt0)) (seen ++ [(l, (pl, pt))])).
    { intros pl0 pt0 labels E. injection E as -> -> ->. split; [discriminate|].
      intros l0 [<-|[]]. apply in_or_app. right. left. reflexivity. }
    induction m as [|[k [p0 ls]] t IH]; intros Hm Hs; cbn [insert_group].
    - intros pl0 pt0 labels [E|[]]. apply New. symmetry. exact E.
    - destruct (N.compare pl k) eqn:Ec.
      + apply N.compare_eq in Ec. subst k.
        intros pl0 pt0 labels [E|Hin].
        * injection E as <- <- <-. split; [apply insert_label_nonempty|].
          destruct (Hm pl p0 ls (or_introl eq_refl)) as [Hn Hl].
          assert (Ep : p0 = pt).
          { destruct ls as [|l1 ls1]; [contradiction|].
            exact (Hs (l1, (pl, p0)) (Hl l1 (or_introl eq_refl)) eq_refl). }
          subst p0. intros l0 Hl0. apply in_or_app.
          destruct (insert_label_in l ls l0 Hl0) as [->|Hin]; [right; left; reflexivity|left; exact (Hl l0 Hin)].
        * apply (Old ((pl, (p0, ls)) :: t) Hm). right. exact Hin.
      + intros pl0 pt0 labels [E|Hin]; [apply New; symmetry; exact E|]. exact (Old _ Hm pl0 pt0 labels Hin).
      + intros pl0 pt0 labels [E|Hin].
        * apply (Old ((k, (p0, ls)) :: t) Hm). left. exact E.
        * apply (IH (fun a b c H => Hm a b c (or_intror H)) Hs). exact Hin.
  Qed.

  Lemma groups_aux : forall qs seen m all,
    all = seen ++ qs -> GInv seen m -> one_point_per_label all ->
    GInv all (fold_left (fun m0 q => insert_group (fst (snd q)) (snd (snd q)) (fst q) m0) qs m).
  Proof.
    induction qs as [|[l [pl pt]] t IH]; intros seen m all Hall Hm Ho; cbn [fold_left fst snd].
    - rewrite app_nil_r in Hall. subst all. exact Hm.
    - apply (IH (seen ++ [(l, (pl, pt))]) _ all); [rewrite <- app_assoc; exact Hall| |exact Ho].
      apply insert_group_inv; [exact Hm|].
      intros q Hq Eq. symmetry.
      refine (Ho (l, (pl, pt)) q _ _ _).
      + rewrite Hall. apply in_or_app. right. left. reflexivity.
      + rewrite Hall. apply in_or_app. left. exact Hq.
      + cbn [fst snd]. symmetry. exact Eq.
  Qed.

  Lemma groups_sound qs : one_point_per_label qs ->
    forall pl pt labels l, In (pl, (pt, labels)) (groups qs) -> In l labels -> In (l, (pl, pt)) qs.
  Proof.
    intros Ho pl pt labels l Hin Hl. unfold groups in Hin.
    assert (G0 : GInv [] []) by (intros a b c []).
    destruct (groups_aux qs [] [] qs eq_refl G0 Ho pl pt labels Hin) as [_ H]. exact (H l Hl).
  Qed.

  Lemma groups_nonempty qs : one_point_per_label qs ->
    forall pl pt labels, In (pl, (pt, labels)) (groups qs) -> labels <> [].
  Proof.
    intros Ho pl pt labels Hin. unfold groups in Hin.
    assert (G0 : GInv [] []) by (intros a b c []).
    destruct (groups_aux qs [] [] qs eq_refl G0 Ho pl pt labels Hin) as [H _]. exact H.
  Qed.

  (* ---- the batch verifier's view of the evaluations ---- *)
  Lemma lookup_eval_pk l pt : forall pev : list (pkey * F),
    lookup_eval l pt (map (fun kv => (fst (fst kv), snd (fst kv), snd kv)) pev) = lookup_pk (l, pt) pev.
  Proof.
    induction pev as [|[[k p0] v] t IH]; cbn [map lookup_eval lookup_pk fst snd]; [reflexivity|].
    destruct (pkey_cmp (l, pt) (k, p0)) eqn:Ec.
    - apply pkey_cmp_eq in Ec. injection Ec as <- <-. rewrite N.eqb_refl, (proj2 (pt_eqb_eq pt pt) eq_refl). reflexivity.
    - assert (Hn : N.eqb k l && pt_eqb p0 pt = false).
      { destruct (N.eqb k l && pt_eqb p0 pt) eqn:E; [|reflexivity]. apply andb_true_iff in E. destruct E as [E1 E2].
        apply N.eqb_eq in E1. apply pt_eqb_eq in E2. subst. rewrite (proj2 (pkey_cmp_eq (l, pt) (l, pt)) eq_refl) in Ec. discriminate. }
      rewrite Hn. exact IH.
    - assert (Hn : N.eqb k l && pt_eqb p0 pt = false).
      { destruct (N.eqb k l && pt_eqb p0 pt) eqn:E; [|reflexivity]. apply andb_true_iff in E. destruct E as [E1 E2].
        apply N.eqb_eq in E1. apply pt_eqb_eq in E2. subst. rewrite (proj2 (pkey_cmp_eq (l, pt) (l, pt)) eq_refl) in Ec. discriminate. }
      rewrite Hn. exact IH.
  Qed.

  Lemma eqn_loop_none lcm pev eqn_ev : forall qs,
    (forall q terms, In q qs -> OrdMap.lookup N.compare (fst q) lcm = Some terms ->
        exists claimed, lookup_pk (fst q, snd (snd q)) eqn_ev = Some claimed /\ lc_rhs pev (snd (snd q)) terms 0 = Ok claimed) ->
    eqn_loop lcm pev eqn_ev qs = None.
  Proof.
    induction qs as [|[lab [pl pt]] t IH]; intros H; cbn [eqn_loop]; [reflexivity|].
    destruct (OrdMap.lookup N.compare lab lcm) as [terms|] eqn:El.
    - destruct (H (lab, (pl, pt)) terms (or_introl eq_refl) El) as (claimed & E1 & E2). cbn [fst snd] in E1, E2.
      rewrite E1, E2, (proj2 (FL_eqb claimed claimed) eq_refl). apply IH. intros q terms0 Hin. apply H. right. exact Hin.
    - apply IH. intros q terms0 Hin. apply H. right. exact Hin.
  Qed.

  (* ---------------- the theorem ---------------- *)
  Definition item_value (im : list (N * Item)) (pt : point) (l : N) : F :=
    match lookup_lab l im with Some it => value it pt | None => 0 end.

  Theorem default_lc_complete lcs items cs eqn_qs eqn_ev st pfs evs st' :
    maps_agree Comm Item R (label_map items) (label_map cs) ->
    one_point_per_label eqn_qs ->
    (forall q terms, In q eqn_qs -> OrdMap.lookup N.compare (fst q) (lcs_map lcs) = Some terms ->
        lookup_pk (fst q, snd (snd q)) eqn_ev = Some (lc_value (item_value (label_map items) (snd (snd q))) terms)) ->
    default_open_combinations Item Proof St open value lcs items eqn_qs st = Ok (pfs, evs, st') ->
    default_check_combinations Comm Proof St check lcs cs eqn_qs eqn_ev pfs (Some evs) st = Ok (true, st').
  Proof.
    intros Hm Ho Hc H. unfold default_open_combinations in H. unfold default_check_combinations.
    set (lcm := lcs_map lcs) in *. set (pqs := lc_qs_to_poly_qs lcm eqn_qs) in *. set (im := label_map items) in *.
    destruct (evaluate_qs Item value im pqs []) as [pev| |] eqn:Ee; cbn [bind] in H; try discriminate.
    destruct (default_batch_open Item Proof St open items pqs st) as [[pfs0 st0]| |] eqn:Eb; cbn [bind fst snd] in H; try discriminate.
    injection H as <- <- <-.
    rewrite (transmitted_reassembled im pqs pev Ee).
    destruct (evaluate_qs_spec im pqs [] pev Ee) as [Hev _].
    assert (Hpq : forall q terms c l, In q eqn_qs -> OrdMap.lookup N.compare (fst q) lcm = Some terms -> In (c, TPoly l) terms ->
                   In (l, snd q) pqs).
    { intros q terms c l Hq Hl Ht. unfold pqs, lc_qs_to_poly_qs. exact (poly_qs_in lcm eqn_qs [] q terms c l Hq Hl Ht). }
    rewrite eqn_loop_none.
    - (* the batch part *)
      apply (default_batch_complete Comm Item Proof St check open R value group_complete items cs pqs _ st pfs0 st0 Hm); [|exact Eb].
      intros pl pt labels Hg l it Hl Hit. rewrite lookup_eval_pk.
      assert (Hop : one_point_per_label pqs).
      { intros q1 q2 H1 H2 E. unfold pqs, lc_qs_to_poly_qs in H1, H2.
        destruct (poly_qs_from lcm eqn_qs [] q1 H1) as [[]|(e1 & He1 & E1)].
        destruct (poly_qs_from lcm eqn_qs [] q2 H2) as [[]|(e2 & He2 & E2)].
        rewrite E1, E2 in *. exact (Ho e1 e2 He1 He2 E). }
      pose proof (groups_sound pqs Hop pl pt labels l Hg Hl) as Hin.
      destruct (Hev _ Hin) as (it' & El' & Ev'). cbn [fst snd qkey_of] in El', Ev'. unfold qkey_of in Ev'. cbn [fst snd] in Ev'.
      fold im in Hit. rewrite Hit in El'. injection El' as <-. exact Ev'.
    - (* every claim matches *)
      intros q terms Hq Hl. exists (lc_value (item_value im (snd (snd q))) terms). split; [exact (Hc q terms Hq Hl)|].
      rewrite (lc_rhs_value (item_value im (snd (snd q))) pev (snd (snd q)) terms 0).
      + f_equal. ring.
      + intros c l Ht. pose proof (Hpq q terms c l Hq Hl Ht) as Hin.
        destruct (Hev _ Hin) as (it' & El' & Ev'). unfold qkey_of in Ev'. cbn [fst snd] in El', Ev'.
        unfold item_value. rewrite El'. destruct q as [lab [pl pt]]. cbn [fst snd] in *. exact Ev'.
  Qed.
End DefaultLCComplete.

(* the same with separate prover / verifier transcript states related by a simulation, and a side condition on the points *)
Section DefaultLCCompleteSim.
  Context {FO : FieldOps} {FL : FieldLaws FO}.
  Add Field Ffield47b : FL_field.
  Local Open Scope F_scope.
  Variables (Comm Item Proof PSt VSt : Type).
  Variable check : list Comm -> point -> list F -> Proof -> VSt -> res (bool * VSt).
  Variable open : list Item -> point -> PSt -> res (Proof * PSt).
  Variable R : Item -> Comm -> Prop.
  Variable value : Item -> point -> F.
  Variable sim : PSt -> VSt -> Prop.
  Variable okpt : point -> Prop.
  Hypothesis group_complete : forall items cs pt st vst pf st',
    okpt pt -> Forall2 R items cs -> sim st vst -> open items pt st = Ok (pf, st') ->
    exists vst', check cs pt (map (fun it => value it pt) items) pf vst = Ok (true, vst') /\ sim st' vst'.

  Theorem default_lc_complete_sim lcs items cs eqn_qs eqn_ev st vst pfs evs st' :
    maps_agree Comm Item R (label_map items) (label_map cs) ->
    one_point_per_label eqn_qs ->
    (forall q, In q eqn_qs -> okpt (snd (snd q))) ->
    (forall q terms, In q eqn_qs -> OrdMap.lookup N.compare (fst q) (lcs_map lcs) = Some terms ->
        lookup_pk (fst q, snd (snd q)) eqn_ev = Some (lc_value (item_value Item value (label_map items) (snd (snd q))) terms)) ->
    sim st vst ->
    default_open_combinations Item Proof PSt open value lcs items eqn_qs st = Ok (pfs, evs, st') ->
    exists vst', default_check_combinations Comm Proof VSt check lcs cs eqn_qs eqn_ev pfs (Some evs) vst = Ok (true, vst') /\ sim st' vst'.
  Proof.
    intros Hm Ho Hok Hc Hs H. unfold default_open_combinations in H. unfold default_check_combinations.
    set (lcm := lcs_map lcs) in *. set (pqs := lc_qs_to_poly_qs lcm eqn_qs) in *. set (im := label_map items) in *.
    destruct (evaluate_qs Item value im pqs []) as [pev| |] eqn:Ee; cbn [bind] in H; try discriminate.
    destruct (default_batch_open Item Proof PSt open items pqs st) as [[pfs0 st0]| |] eqn:Eb; cbn [bind fst snd] in H; try discriminate.
    injection H as <- <- <-.
    rewrite (transmitted_reassembled Item value im pqs pev Ee).
    destruct (evaluate_qs_spec Item value im pqs [] pev Ee) as [Hev _].
    assert (Hpq : forall q terms c l, In q eqn_qs -> OrdMap.lookup N.compare (fst q) lcm = Some terms -> In (c, TPoly l) terms ->
                   In (l, snd q) pqs).
    { intros q terms c l Hq Hl Ht. unfold pqs, lc_qs_to_poly_qs. exact (poly_qs_in lcm eqn_qs [] q terms c l Hq Hl Ht). }
    assert (Hfrom : forall x, In x pqs -> exists q, In q eqn_qs /\ snd x = snd q).
    { intros x Hx. unfold pqs, lc_qs_to_poly_qs in Hx. destruct (poly_qs_from lcm eqn_qs [] x Hx) as [[]|H0]. exact H0. }
    assert (Hop : one_point_per_label pqs).
    { intros q1 q2 H1 H2 E. destruct (Hfrom q1 H1) as (e1 & He1 & E1). destruct (Hfrom q2 H2) as (e2 & He2 & E2).
      rewrite E1, E2 in *. exact (Ho e1 e2 He1 He2 E). }
    rewrite eqn_loop_none.
    - apply (default_batch_complete_sim Comm Item Proof PSt VSt check open R value sim okpt group_complete items cs pqs _ st vst pfs0 st0 Hm);
        [|exact Hs|exact Eb].
      intros pl pt labels Hg. split.
      + pose proof (groups_nonempty pqs Hop pl pt labels Hg) as Hne. destruct labels as [|l0 ls]; [contradiction|].
        pose proof (groups_sound pqs Hop pl pt (l0 :: ls) l0 Hg (or_introl eq_refl)) as Hin.
        destruct (Hfrom _ Hin) as (q & Hq & E). cbn [snd] in E. pose proof (Hok q Hq) as Hk. rewrite <- E in Hk. exact Hk.
      + intros l it Hl Hit. rewrite lookup_eval_pk.
        pose proof (groups_sound pqs Hop pl pt labels l Hg Hl) as Hin.
        destruct (Hev _ Hin) as (it' & El' & Ev'). unfold qkey_of in Ev'. cbn [fst snd] in El', Ev'.
        fold im in Hit. rewrite Hit in El'. injection El' as <-. exact Ev'.
    - intros q terms Hq Hl. exists (lc_value (item_value Item value im (snd (snd q))) terms). split; [exact (Hc q terms Hq Hl)|].
      rewrite (lc_rhs_value (item_value Item value im (snd (snd q))) pev (snd (snd q)) terms 0).
      + f_equal. ring.
      + intros c l Ht. pose proof (Hpq q terms c l Hq Hl Ht) as Hin.
        destruct (Hev _ Hin) as (it' & El' & Ev'). unfold qkey_of in Ev'. cbn [fst snd] in El', Ev'.
        unfold item_value. rewrite El'. destruct q as [lab [pl pt]]. cbn [fst snd] in *. exact Ev'.
  Qed.
End DefaultLCCompleteSim.
