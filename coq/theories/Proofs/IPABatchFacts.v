(* IPA batch_check: the random combination of the per-group final-key checks.  If every proof's final key is the
   commitment to the check polynomial its own succinct check derives (as for proofs produced by open), then a batch
   whose groups all pass their succinct checks is accepted, for any randomizers; and a batch is accepted only if no
   group's shape check or succinct check failed. *)
From Coq Require Import List Arith NArith Bool Lia Field Ring.
From PC Require Import Base.Field Base.Result Base.Poly Base.OrdMap Proofs.PolyFacts Schemes.LC Schemes.Marlin Schemes.MarlinLC Schemes.IPA Proofs.LCFacts
     Proofs.IPAFacts Proofs.IPAComplete Schemes.DefaultBatch Schemes.IPABatch.
Import ListNotations.
Open Scope F_scope.

Section IPABatchFacts.
  Context {FO : FieldOps} {FL : FieldLaws FO}.
  Add Field Ffield29 : FL_field.

  (* the final key of a proof is consistent with whatever challenges the succinct check derives for it *)
  Definition key_ok (d : nat) (pf : IProof) : Prop :=
    forall cs z vs chal hchal chs r h,
      i_succinct_check d cs z vs pf chal hchal = Ok (Some chs, r, h) ->
      gvzero (gvsub (gmsm (key_of d) (compute_coeffs chs)) (ip_key pf)) = true.

  Lemma co_gmsm_padd_scaled_trim i (K : list gv) p c q :
    co i (gmsm K (padd_scaled p c (trim q))) = co i (gmsm K p) + c * co i (gmsm K q).
  Proof. rewrite !co_gmsm, dot_padd_scaled, dot_trim. reflexivity. Qed.

  Lemma ibc_loop_inv d cm ev : forall gs proofs chal hchal vtape rnd cp ck draws cp' ck' rest hrest dr,
    Forall (key_ok d) proofs ->
    (forall i, co i (gmsm (key_of d) cp) = co i ck) ->
    ibc_loop d cm ev gs proofs chal hchal vtape rnd cp ck draws = Ok (Some (cp', ck'), rest, hrest, dr) ->
    forall i, co i (gmsm (key_of d) cp') = co i ck'.
  Proof.
    induction gs as [|[pl [pt labels]] gs IH]; intros proofs chal hchal vtape rnd cp ck draws cp' ck' rest hrest dr Hk Hi H.
    - cbn [ibc_loop] in H. injection H as <- <- _ _ _. exact Hi.
    - destruct proofs as [|pf proofs]; cbn [ibc_loop] in H.
      + injection H as <- <- _ _ _. exact Hi.
      + inversion Hk as [|? ? Hk1 Hk2]; subst.
        destruct (gather_v _ cm ev pt labels) as [cv| |]; cbn [bind] in H; try discriminate.
        destruct pt as [|z [|? ?]]; try discriminate.
        destruct (negb _ || negb _); [discriminate|].
        destruct (i_succinct_check d (fst cv) z (snd cv) pf chal hchal) as [[[o r1] h1]| |] eqn:Es; cbn [bind] in H; try discriminate.
        destruct o as [chs|]; [|discriminate].
        destruct vtape as [|x vt']; [discriminate|].
        eapply IH; [exact Hk2| |exact H].
        intros i. rewrite co_gmsm_padd_scaled_trim, co_gvadd, co_gvscale, Hi.
        pose proof (proj1 (gvzero_co _) (Hk1 _ _ _ _ _ _ _ _ Es) i) as E. rewrite co_gvsub in E.
        assert (E' : co i (gmsm (key_of d) (compute_coeffs chs)) = co i (ip_key pf)).
        { transitivity (co i (gmsm (key_of d) (compute_coeffs chs)) - co i (ip_key pf) + co i (ip_key pf)); [ring|rewrite E; ring]. }
        rewrite E'. ring.
  Qed.

  (* every group passed: the combined final key check passes, whatever the randomizers are *)
  Theorem ipa_batch_complete d cs qs ev proofs chal hchal vtape b rest hrest dr :
    Forall (key_ok d) proofs ->
    i_batch_check d cs qs ev proofs chal hchal vtape = Ok (b, rest, hrest, dr) ->
    b = true \/
    exists r h n, ibc_loop d (label_map cs) ev (groups qs) proofs chal hchal vtape 1 [] [] O = Ok (None, r, h, n).
  Proof.
    intros Hk H. unfold i_batch_check in H.
    destruct (negb (length proofs =? length (groups qs))%nat); [discriminate|].
    destruct (ibc_loop d (label_map cs) ev (groups qs) proofs chal hchal vtape 1 [] [] O) as [[[[o r] h] n]| |] eqn:E; cbn [bind] in H; try discriminate.
    destruct o as [[cp ck]|].
    - left. injection H as <- _ _ _.
      apply gvzero_co. intros i. rewrite co_gvsub.
      assert (G0 : forall K : list gv, gmsm K [] = []) by (intros [|? ?]; reflexivity).
      rewrite (ibc_loop_inv d _ ev _ _ _ _ _ _ _ _ _ _ _ _ _ _ Hk (fun i => f_equal (co i) (G0 (key_of d))) E i). ring.
    - right. exists r, h, n. reflexivity.
  Qed.
End IPABatchFacts.

(* ---------------- check_combinations: every combination is checked against its OWN combined commitment ---------------- *)
Section IPALCFacts.
  Context {FO : FieldOps}.

  Definition osome {A} (o : option A) : bool := match o with Some _ => true | None => false end.

  Lemma bound_policy_some num coeff pb cur b : MarlinLC.bound_policy num coeff pb cur = Ok b ->
    match pb with Some d => b = Some d | None => b = cur end.
  Proof.
    unfold MarlinLC.bound_policy. destruct pb as [d|]; [|intros H; injection H as <-; reflexivity].
    destruct (Nat.eqb num 1); [|discriminate]. destruct (feqb coeff f1); [|discriminate]. intros H. injection H as <-. reflexivity.
  Qed.

  (* the shifted part of a combined commitment is present exactly when the combination keeps a degree bound *)
  Lemma verifier_loop_shape cm lab num : forall terms ev bound cc cs ev' b' cc' cs',
    osome cs = osome bound ->
    ilc_verifier_loop cm lab num terms ev bound cc cs = Ok (ev', b', cc', cs') ->
    osome cs' = osome b'.
  Proof.
    induction terms as [|[coeff tm] terms IH]; intros ev bound cc cs ev' b' cc' cs' Hi H.
    - cbn [ilc_verifier_loop] in H. injection H as _ <- _ <-. exact Hi.
    - destruct tm as [|l]; cbn [ilc_verifier_loop] in H.
      + exact (IH _ _ _ _ _ _ _ _ Hi H).
      + destruct (OrdMap.lookup N.compare l cm) as [[ic bnd]|]; [|discriminate]. cbn [fst snd] in H.
        destruct (Bool.eqb _ _) eqn:E; cbn [negb] in H; [|discriminate].
        destruct (MarlinLC.bound_policy num coeff bnd bound) as [b| |] eqn:Eb; cbn [bind] in H; try discriminate.
        apply (IH _ _ _ _ _ _ _ _) in H; [exact H|].
        pose proof (bound_policy_some _ _ _ _ _ Eb) as Hb. apply Bool.eqb_prop in E.
        destruct bnd as [d|]; destruct (ic_shifted ic) as [sc|]; cbn in E; try discriminate; subst b; cbn [comb_opt_g osome].
        * destruct cs; reflexivity.
        * exact Hi.
  Qed.

  (* the labelled commitment the verifier would build for one combination on its own *)
  Definition own_lcomm (cm : list (N * (IComm * option nat))) (lc0 : N * lc) (entry : N * (IComm * option nat)) : Prop :=
    exists evi evo b cc cs,
      ilc_verifier_loop cm (fst lc0) (length (snd lc0)) (snd lc0) evi None [] None = Ok (evo, b, cc, cs) /\
      entry = (fst lc0, ({| ic_comm := cc; ic_shifted := cs |}, b)).

  (* whatever the commitments are: when the verifier's combination step succeeds, the flat element list is read back
     without any shift - the i-th labelled commitment is the one computed for the i-th combination *)
  Theorem check_combinations_aligned cm : forall lcs ev info flat ev',
    ilc_verifier_all cm lcs ev = Ok (info, flat, ev') ->
    exists lcm, construct_lcomms info flat = Ok lcm /\ Forall2 (own_lcomm cm) lcs lcm.
  Proof.
    induction lcs as [|[lab terms] lcs IH]; intros ev info flat ev' H.
    - cbn [ilc_verifier_all] in H. injection H as <- <- _. exists []. split; [reflexivity|constructor].
    - cbn [ilc_verifier_all] in H.
      destruct (ilc_verifier_loop cm lab (length terms) terms ev None [] None) as [[[[ev1 b] cc] cs]| |] eqn:El; cbn [bind] in H; try discriminate.
      destruct (ilc_verifier_all cm lcs ev1) as [[[info0 flat0] ev2]| |] eqn:Ea; cbn [bind] in H; try discriminate.
      injection H as <- <- _.
      destruct (IH _ _ _ _ Ea) as (lcm0 & Ec & Hf).
      pose proof (verifier_loop_shape cm lab (length terms) terms ev None [] None ev1 b cc cs eq_refl El) as Hs.
      exists ((lab, ({| ic_comm := cc; ic_shifted := cs |}, b)) :: lcm0). split.
      + cbn [construct_lcomms]. unfold flat_of.
        destruct b as [d|]; destruct cs as [x|]; cbn in Hs; try discriminate; cbn [app]; rewrite Ec; reflexivity.
      + constructor; [|exact Hf]. exists ev, ev1, b, cc, cs. split; [exact El|reflexivity].
  Qed.
End IPALCFacts.
