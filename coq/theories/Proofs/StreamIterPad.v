(* C14: the folding iterator on streams of ANY length.  When the stream is not a multiple of 2^depth, init_stack pre-seeds the
   stack as if the missing front coefficients were zeros that had already been read; the iterator then emits, level by level,
   the naive foldings of the zero-padded stream WITHOUT the leading items that come from the padding alone (all of them zero).
   This closes the case the theorem tree_iter_is_naive_folding (complete blocks) left to the correspondence. *)
From Coq Require Import List Arith NArith Bool Lia Field Ring.
From PC Require Import Base.Field Base.Result Base.Poly Proofs.PolyFacts Schemes.StreamKZG Proofs.StreamIter.
Import ListNotations.
Open Scope F_scope.

Section StreamIterPad.
  Context {FO : FieldOps} {FL : FieldLaws FO}.
  Add Field Ffield57 : FL_field.
  Variable chs : list F.
  Let depth := length chs.

  Definition allz (L : list F) : Prop := Forall (fun x => x = 0) L.
  Lemma allz_firstn n : forall L, allz L -> allz (firstn n L).
  Proof. induction n as [|n IH]; intros [|x L] H; cbn [firstn]; try constructor; inversion H; subst; [reflexivity|apply IH; assumption]. Qed.
  Lemma allz_skipn n : forall L, allz L -> allz (skipn n L).
  Proof. induction n as [|n IH]; intros [|x L] H; cbn [skipn]; try assumption; inversion H; subst; apply IH; assumption. Qed.
  Lemma allz_repeat n : allz (repeat 0 n).
  Proof. induction n; constructor; [reflexivity|assumption]. Qed.

  Lemma bval_zero : forall d L, allz L -> bval chs d L = 0.
  Proof.
    induction d as [|d IH]; intros L H; cbn [bval].
    - destruct L as [|x t]; [reflexivity|]. inversion H; subst. reflexivity.
    - rewrite (IH _ (allz_firstn _ _ H)), (IH _ (allz_skipn _ _ H)). ring.
  Qed.
  Lemma bemit_zero : forall d L, allz L -> Forall (fun it : nat * F => snd it = 0) (bemit chs d L).
  Proof.
    induction d as [|d IH]; intros L H; cbn [bemit]; [constructor|].
    rewrite !Forall_app. repeat split.
    - apply IH, allz_firstn, H.
    - apply IH, allz_skipn, H.
    - constructor; [cbn [snd]; exact (bval_zero (S d) L H)|constructor].
  Qed.

  (* the work of the iterator on delta leading zeros, delta < 2^i, mirrors init_stack_loop *)
  Fixpoint zsteps (i delta : nat) : nat :=
    match i with
    | O => O
    | S i' => if (2 ^ i' <=? delta)%nat then (steps i' + zsteps i' (delta - 2 ^ i'))%nat else zsteps i' delta
    end.
  Fixpoint zemit (i delta : nat) : list (nat * F) :=
    match i with
    | O => []
    | S i' => if (2 ^ i' <=? delta)%nat then bemit chs i' (repeat 0 (2 ^ i')) ++ zemit i' (delta - 2 ^ i') else zemit i' delta
    end.

  Lemma zemit_zero : forall i delta, Forall (fun it : nat * F => snd it = 0) (zemit i delta).
  Proof.
    induction i as [|i IH]; intros delta; cbn [zemit]; [constructor|].
    destruct (2 ^ i <=? delta)%nat; [|apply IH]. rewrite Forall_app. split; [apply bemit_zero, allz_repeat|apply IH].
  Qed.

  Definition allabove (i : nat) (st : list (nat * F)) : Prop := Forall (fun e : nat * F => (i <= fst e)%nat) st.

  Lemma zeros_run : forall i delta st inp fuel,
    (delta < 2 ^ i)%nat -> (i <= depth)%nat -> stable st -> allabove i st ->
    tree_run (zsteps i delta + fuel) chs st (repeat 0 delta ++ inp)
    = zemit i delta ++ tree_run fuel chs (init_stack_loop delta i st) inp.
  Proof.
    induction i as [|i IH]; intros delta st inp fuel Hd Hi Hs Ha.
    - cbn in Hd. assert (delta = 0)%nat by lia. subst. reflexivity.
    - cbn [zsteps zemit init_stack_loop].
      assert (Ha' : allabove i st) by (eapply Forall_impl; [|exact Ha]; cbn; intros e He; lia).
      destruct (Nat.leb_spec (2 ^ i) delta) as [Hle|Hgt].
      + assert (E : repeat (@f0 FO) delta = repeat 0 (2 ^ i) ++ repeat 0 (delta - 2 ^ i)).
        { rewrite <- repeat_app. f_equal. lia. }
        rewrite E, <- app_assoc.
        replace (steps i + zsteps i (delta - 2 ^ i) + fuel)%nat with (steps i + (zsteps i (delta - 2 ^ i) + fuel))%nat by lia.
        assert (Hab : above i st) by (destruct st as [|[l v] t]; [exact I|]; inversion Ha'; subst; assumption).
        rewrite (block_run chs i (repeat 0 (2 ^ i)) st _ _ (repeat_length _ _) ltac:(lia) Hs Hab).
        rewrite (bval_zero i _ (allz_repeat _)).
        assert (Ep : push chs i 0 st = (i, 0) :: st).
        { unfold push. destruct (Nat.eqb_spec i (length chs)) as [Ec|]; [fold depth in Ec; lia|reflexivity]. }
        rewrite Ep, <- app_assoc. f_equal.
        apply IH.
        * rewrite Nat.pow_succ_r' in Hd. lia.
        * lia.
        * cbn [stable]. destruct st as [|[l v] t]; [exact I|]. inversion Ha; subst. cbn [fst] in *. lia.
        * constructor; [cbn [fst]; lia|exact Ha'].
      + apply IH; [exact Hgt|lia|exact Hs|exact Ha'].
  Qed.

  (* cutting a list whose length is a multiple of c into blocks of length c *)
  Lemma chunks c : (0 < c)%nat -> forall k (L : list F), length L = (k * c)%nat ->
    exists bs, concat bs = L /\ Forall (fun b => length b = c) bs /\ length bs = k.
  Proof.
    intros Hc. induction k as [|k IH]; intros L HL.
    - destruct L; [|cbn in HL; lia]. exists []. repeat split. constructor.
    - destruct (IH (skipn c L)) as (bs & E & Hb & Hl). { rewrite skipn_length, HL. cbn. lia. }
      exists (firstn c L :: bs). cbn [concat length]. rewrite E, firstn_skipn. repeat split; [|lia].
      constructor; [rewrite firstn_length, HL; cbn; lia|exact Hb].
  Qed.

  Lemma zsteps_le : forall i delta, (zsteps i delta <= 2 * 2 ^ i)%nat.
  Proof.
    induction i as [|i IH]; intros delta; cbn [zsteps]; [lia|].
    rewrite Nat.pow_succ_r'. destruct (2 ^ i <=? delta)%nat.
    - pose proof (steps_le chs i). pose proof (IH (delta - 2 ^ i)%nat). lia.
    - pose proof (IH delta). lia.
  Qed.

  (* the iterator on a stream of any length: the emission of the blocks of the zero-padded stream is the emission caused by the
     padding alone followed by what the iterator emits *)
  Theorem tree_iter_padded coeffs :
    (length coeffs mod 2 ^ depth <> 0)%nat ->
    exists bs, concat bs = pad_front depth coeffs /\ Forall (fun b => length b = (2 ^ depth)%nat) bs /\
               blocks_emit chs bs = zemit depth (2 ^ depth - length coeffs mod 2 ^ depth) ++ tree_iter chs coeffs.
  Proof.
    intros Hr. set (c := (2 ^ depth)%nat) in *. set (n := length coeffs) in *.
    assert (Hc : (0 < c)%nat) by (unfold c; pose proof (pow2_pos chs depth); lia).
    set (delta := (c - n mod c)%nat).
    pose proof (Nat.mod_upper_bound n c ltac:(lia)) as Hm.
    assert (Hdl : (delta < c)%nat) by (unfold delta; lia).
    assert (Ep : pad_front depth coeffs = repeat 0 delta ++ coeffs).
    { unfold pad_front. fold c n. destruct (Nat.eqb_spec (n mod c) 0); [contradiction|]. reflexivity. }
    assert (Lp : length (repeat (@f0 FO) delta ++ coeffs) = ((n / c + 1) * c)%nat).
    { rewrite app_length, repeat_length. fold n. unfold delta. pose proof (Nat.div_mod n c ltac:(lia)). nia. }
    destruct (chunks c Hc (n / c + 1)%nat _ Lp) as (bs & Ebs & Hb & Lbs).
    exists bs. split; [rewrite Ep; exact Ebs|]. split; [exact Hb|].
    unfold tree_iter. fold depth c n.
    assert (Ei : init_stack n depth = init_stack_loop delta depth []).
    { unfold init_stack. fold c. destruct (Nat.eqb_spec (n mod c) 0); [contradiction|]. reflexivity. }
    rewrite Ei.
    set (F0 := (2 * (n + c) + 2)%nat).
    pose proof (zeros_run depth delta [] coeffs F0 Hdl (le_n _) I (Forall_nil _)) as Z.
    rewrite <- Z. rewrite <- Ebs.
    pose proof (steps_le chs depth) as Hs.
    assert (Hfuel : (length bs * steps depth <= zsteps depth delta + F0)%nat).
    { rewrite Lbs. unfold F0. fold c in Hs.
      assert ((n / c + 1) * steps depth <= (n / c + 1) * (2 * c))%nat by (apply Nat.mul_le_mono_l; exact Hs).
      pose proof (Nat.div_mod n c ltac:(lia)). nia. }
    replace (zsteps depth delta + F0)%nat with (length bs * steps depth + (zsteps depth delta + F0 - length bs * steps depth))%nat by lia.
    rewrite <- (app_nil_r (concat bs)).
    rewrite (blocks_run chs bs [] _ Hb), tree_run_end, app_nil_r. reflexivity.
  Qed.

  (* level by level: the i-th naive folding of the zero-padded stream is a run of zeros (the padding's own items) followed by the
     level-i items of the iterator *)
  Theorem tree_iter_is_naive_folding_padded coeffs i :
    (length coeffs mod 2 ^ depth <> 0)%nat -> (1 <= i)%nat -> (i <= depth)%nat ->
    exists zs, Forall (fun x => x = 0) zs /\
               nth (i - 1) (fold_tree chs coeffs) [] = zs ++ by_level i (tree_iter chs coeffs).
  Proof.
    intros Hr Hi Hd. destruct (tree_iter_padded coeffs Hr) as (bs & Ebs & Hb & Em).
    exists (by_level i (zemit depth (2 ^ depth - length coeffs mod 2 ^ depth))). split.
    - unfold by_level. apply Forall_forall. intros x Hx. apply in_map_iff in Hx. destruct Hx as ([l v] & <- & Hin).
      apply filter_In in Hin. destruct Hin as [Hin _].
      exact (proj1 (Forall_forall _ _) (zemit_zero depth _) (l, v) Hin).
    - rewrite <- by_level_app, <- Em, (by_level_blocks chs i bs Hb Hi Hd).
      unfold fold_tree. fold depth. rewrite <- Ebs.
      assert (Hlt : (i - 1 < length chs)%nat) by (unfold depth in Hd; lia).
      rewrite (foldings_nth chs chs (concat bs) (i - 1) Hlt). replace (S (i - 1)) with i by lia. reflexivity.
  Qed.
End StreamIterPad.
