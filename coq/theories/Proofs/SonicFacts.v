(* Sonic: the verifier's equation is the KZG equation of the challenge-weighted combination; honest openings are
   accepted (with degree bounds and hiding) provided every commitment times its shift element is the plain
   commitment; a proof supports one combined value; unsupported bounds are refused. *)
From Coq Require Import List Arith NArith Bool Lia Field Ring.
From PC Require Import Base.Field Base.Result Base.Poly Proofs.PolyFacts Schemes.KZG10 Schemes.Marlin Schemes.Sonic
     Proofs.KZG10Facts Proofs.MarlinComplete.
Import ListNotations.
Open Scope F_scope.

Section SonicFacts.
  Context {FO : FieldOps} {FL : FieldLaws FO}.
  Add Field Ffield21 : FL_field.

  (* ---------------- the prover's loop: combined polynomial and randomness ---------------- *)
  (* weights: cur for the first item, then the tape *)
  Fixpoint wcomb (polys : list poly) (cur : F) (chal : list F) (acc : poly) : poly :=
    match polys, chal with
    | p :: t, nxt :: chal1 => wcomb t nxt chal1 (padd_scaled acc cur p)
    | _, _ => acc
    end.

  Lemma s_open_loop_spec ck : forall items cur chal p r p' r' rest,
    s_open_loop ck items cur chal p r = Ok (p', r', rest) ->
    p' = wcomb (map (fun it => lp_poly (fst it)) items) cur chal p /\
    r' = wcomb (map snd items) cur chal r /\
    length chal = (length items + length rest)%nat /\ rest = skipn (length items) chal.
  Proof.
    induction items as [|[lp st] t IH]; intros cur chal p r p' r' rest H; cbn [s_open_loop] in H.
    - injection H as <- <- <-. cbn. repeat split; lia.
    - destruct (check_degrees_and_bounds (sck_max ck) (sck_bounds ck) (lp_poly lp) (lp_bound lp)); cbn [bind] in H; try discriminate.
      destruct chal as [|nxt chal1]; [discriminate|].
      destruct (IH _ _ _ _ _ _ _ H) as (Ep & Er & Hl & Hr). cbn [map fst snd wcomb length skipn].
      repeat split; [exact Ep|exact Er|lia|exact Hr].
  Qed.

  (* value of the combination: sum of weight * value *)
  Fixpoint wval (vals : list F) (cur : F) (chal : list F) (acc : F) : F :=
    match vals, chal with
    | v :: t, nxt :: chal1 => wval t nxt chal1 (acc + cur * v)
    | _, _ => acc
    end.
  Lemma eval_wcomb x : forall polys cur chal acc,
    eval (wcomb polys cur chal acc) x = wval (map (fun p => eval p x) polys) cur chal (eval acc x).
  Proof.
    induction polys as [|p t IH]; intros cur chal acc; [reflexivity|]. destruct chal as [|nxt chal1]; [reflexivity|].
    cbn [wcomb map wval]. rewrite IH, eval_padd_scaled. reflexivity.
  Qed.
  Lemma wval_acc : forall vals cur chal a b, wval vals cur chal (a + b) = a + wval vals cur chal b.
  Proof.
    induction vals as [|v t IH]; intros cur chal a b; [reflexivity|]. destruct chal as [|nxt chal1]; [reflexivity|].
    cbn [wval]. replace (a + b + cur * v) with (a + (b + cur * v)) by ring. apply IH.
  Qed.

  (* ---------------- the verifier's accumulation ---------------- *)
  (* when every shift element is available, s_acc returns the weighted sums *)
  Lemma s_acc_spec vk : forall cs vs cur chal lhs val,
    length vs = length cs -> (length cs <= length chal)%nat ->
    forall sps, Forall2 (fun cb sp => shift_power vk (snd cb) = Ok sp) cs sps ->
    s_acc vk cs vs cur chal lhs val =
      Ok (Ok (wval (map (fun csp => fst (fst csp) * snd csp) (combine cs sps)) cur chal lhs),
          wval vs cur chal val, skipn (length cs) chal).
  Proof.
    induction cs as [|[c b] cs IH]; intros vs cur chal lhs val Hv Hc sps HF.
    - destruct vs; [|discriminate]. inversion HF; subst. reflexivity.
    - destruct vs as [|v vs]; [discriminate|]. destruct chal as [|nxt chal1]; [cbn in Hc; lia|].
      inversion HF as [|? sp ? sps' Hsp HF']; subst. cbn [snd] in Hsp.
      cbn [s_acc]. rewrite (IH vs nxt chal1 lhs val ltac:(cbn in Hv; lia) ltac:(cbn in Hc; lia) sps' HF'). cbn [bind].
      rewrite Hsp. cbn [combine map fst snd wval length skipn].
      assert (A1 : forall t a x, wval t nxt chal1 (a + x) = x + wval t nxt chal1 a) by (intros; rewrite <- wval_acc; f_equal; ring).
      rewrite !A1. replace (c * cur * sp) with (cur * (c * sp)) by ring. replace (v * cur) with (cur * v) by ring. reflexivity.
  Qed.

  Lemma wval_comb {A} h g gam (f1 f2 : A -> F) : forall items cur chal a1 a2,
    wval (map (fun it => h * (g * f1 it + gam * f2 it)) items) cur chal (h * (g * a1 + gam * a2))
    = h * (g * wval (map f1 items) cur chal a1 + gam * wval (map f2 items) cur chal a2).
  Proof.
    induction items as [|it t IH]; intros cur chal a1 a2; [reflexivity|]. destruct chal as [|nxt chal1]; [reflexivity|].
    cbn [map wval]. rewrite <- IH. f_equal. ring.
  Qed.

  (* ---------------- KZG10::open on a combination that need not be normalised ---------------- *)
  Lemma wcomb_length m : forall polys cur chal acc, (length acc <= m)%nat -> Forall (fun p => (length p <= m)%nat) polys ->
    (length (wcomb polys cur chal acc) <= m)%nat.
  Proof.
    induction polys as [|p t IH]; intros cur chal acc Ha Hp; [exact Ha|]. destruct chal as [|nxt chal1]; [exact Ha|].
    inversion Hp; subst. cbn [wcomb]. apply IH; [|assumption].
    unfold padd_scaled, pscale. rewrite length_padd, map_length. lia.
  Qed.

  Lemma open_combination g gam beta n m pw P z R pf :
    pw_g pw = gpowers g 1 beta n -> pw_gamma_g pw = gpowers gam 1 beta m -> (length R <= m)%nat ->
    KZG10.open pw P z R = Ok pf ->
    pf_w pf * (beta - z) = g * (eval P beta - eval P z) + gam * (eval R beta - eval R z) /\
    (match pf_random_v pf with Some rv => gam * rv | None => 0 end) = gam * eval R z.
  Proof.
    intros Hg Hgg Hl. unfold KZG10.open, open_with_witness.
    destruct (degree_check_cases (degree P) (length (pw_g pw))) as [[-> Hd]|[-> _]]; [|discriminate]. cbn [bind].
    destruct (degree_check_cases (degree (witness_poly P z)) (length (pw_g pw))) as [[-> Hd2]|[-> _]]; [|discriminate]. cbn [bind].
    assert (Hlen : length (pw_g pw) = n) by (rewrite Hg; apply gpowers_length).
    assert (Hw : (length (trim (witness_poly P z)) <= n)%nat) by (apply degree_trim_length; lia).
    assert (EP : eval (witness_poly P z) beta * (beta - z) = eval P beta - eval P z).
    { unfold witness_poly. rewrite eval_trim. pose proof (sdiv_spec (trim P) z beta) as S. rewrite !eval_trim in S. rewrite S. ring. }
    rewrite Hg, Hgg, commit_coeffs_window by exact Hw.
    unfold is_hiding. destruct (is_zero_poly R) eqn:Z; cbn [negb]; intros E; inversion E; subst pf; clear E; cbn [pf_w pf_random_v].
    - assert (R0 : forall x, eval R x = 0).
      { intros x. apply trim_nil_eval. unfold is_zero_poly in Z. destruct (trim R); [reflexivity|discriminate]. }
      rewrite !R0. split; [|ring]. transitivity (g * (eval (witness_poly P z) beta * (beta - z))); [ring|rewrite EP; ring].
    - assert (ER : eval (witness_poly R z) beta * (beta - z) = eval R beta - eval R z).
      { unfold witness_poly. rewrite eval_trim. pose proof (sdiv_spec (trim R) z beta) as S. rewrite !eval_trim in S. rewrite S. ring. }
      assert (Lh : (length (trim (witness_poly R z)) <= m)%nat).
      { unfold witness_poly. rewrite trim_idem. pose proof (witness_length (trim R) z). pose proof (trim_length R). lia. }
      unfold gpowers. rewrite msm_powers_from by exact Lh. rewrite eval_trim. split; [|reflexivity].
      transitivity (g * (eval (witness_poly P z) beta * (beta - z)) + gam * (eval (witness_poly R z) beta * (beta - z))); [ring|].
      rewrite EP, ER. ring.
  Qed.

  (* ---------------- completeness, given consistent keys ---------------- *)
  (* the hypothesis says: commitment * shift element = h * (g p(beta) + gamma r(beta)); it is what trim and commit
     establish for bounded and unbounded polynomials alike *)
  Theorem sonic_check_complete g gam h beta n m ck vk (items : list (LPoly * Rand)) cs z chal pf rest :
    sck_g ck = gpowers g 1 beta n -> sck_gamma ck = gpowers gam 1 beta m ->
    vk_g (svk_vk vk) = g -> vk_gamma_g (svk_vk vk) = gam -> vk_h (svk_vk vk) = h -> vk_beta_h (svk_vk vk) = h * beta ->
    length cs = length items ->
    Forall (fun it => (length (snd it) <= m)%nat) items ->
    (exists sps, Forall2 (fun cb sp => shift_power vk (snd cb) = Ok sp) cs sps /\
                 map (fun csp => fst (fst csp) * snd csp) (combine cs sps)
                 = map (fun it => h * (g * eval (lp_poly (fst it)) beta + gam * eval (snd it) beta)) items) ->
    s_open ck items z chal = Ok (pf, rest) ->
    s_check vk cs z (map (fun it => eval (lp_poly (fst it)) z) items) pf chal = Ok (true, rest).
  Proof.
    intros Hg Hgg Hv1 Hv2 Hv3 Hv4 Hl Hr (sps & HF & Hcons) Ho.
    unfold s_open in Ho. destruct chal as [|c0 chal0]; [discriminate|].
    destruct (s_open_loop ck items c0 chal0 [] []) as [[[P R] rest']| |] eqn:El; cbn [bind] in Ho; try discriminate.
    destruct (KZG10.open {| pw_g := sck_g ck; pw_gamma_g := sck_gamma ck |} P z R) as [pf'| |] eqn:Eo; cbn [bind] in Ho; try discriminate.
    injection Ho as <- <-.
    destruct (s_open_loop_spec _ _ _ _ _ _ _ _ _ El) as (EP & ER & Hlen & Hrest).
    assert (LR : (length R <= m)%nat).
    { subst R. apply wcomb_length; [cbn; lia|]. apply Forall_forall. intros r Hin. apply in_map_iff in Hin.
      destruct Hin as (it & <- & Hit). rewrite Forall_forall in Hr. exact (Hr _ Hit). }
    destruct (open_combination g gam beta n m {| pw_g := sck_g ck; pw_gamma_g := sck_gamma ck |} P z R pf' Hg Hgg LR Eo) as [Ew Erv].
    unfold s_check.
    assert (Lv : length (map (fun it : LPoly * Rand => eval (lp_poly (fst it)) z) items) = length cs) by (rewrite map_length; lia).
    assert (Lc : (length cs <= length chal0)%nat) by lia.
    rewrite (s_acc_spec vk cs _ c0 chal0 0 0 Lv Lc sps HF). cbn [bind].
    rewrite Hv1, Hv2, Hv3, Hv4. rewrite Hl, <- Hrest. f_equal. f_equal. apply FL_eqb.
    rewrite Hcons.
    (* the weighted sums *)
    assert (E1 : wval (map (fun it => h * (g * eval (lp_poly (fst it)) beta + gam * eval (snd it) beta)) items) c0 chal0 0
                 = h * (g * eval P beta + gam * eval R beta)).
    { rewrite EP, ER, !eval_wcomb, !map_map. cbn [eval].
      replace (0 : F) with (h * (g * 0 + gam * 0)) at 1 by ring. apply wval_comb. }
    assert (E2 : wval (map (fun it => eval (lp_poly (fst it)) z) items) c0 chal0 0 = eval P z).
    { rewrite EP, eval_wcomb, map_map. reflexivity. }
    rewrite E1, E2.
    destruct (pf_random_v pf') as [rv|].
    - transitivity (h * (g * (eval P beta - eval P z) + gam * (eval R beta - eval R z)) - h * (pf_w pf' * (beta - z)) + h * (gam * eval R z - gam * rv)); [ring|].
      rewrite Ew, <- Erv. ring.
    - transitivity (h * (g * (eval P beta - eval P z) + gam * (eval R beta - eval R z)) - h * (pf_w pf' * (beta - z)) + h * (gam * eval R z - 0)); [ring|].
      rewrite Ew, <- Erv. ring.
  Qed.

  (* a proof supports one combined value: with the same commitments, point, proof and challenges, two value
     vectors are both accepted only if their challenge-weighted sums coincide *)
  Theorem sonic_one_combined_value vk cs z vs1 vs2 pf chal r1 r2 :
    vk_g (svk_vk vk) <> 0 -> vk_h (svk_vk vk) <> 0 ->
    length vs1 = length cs -> length vs2 = length cs -> (length cs < length chal)%nat ->
    (exists sps, Forall2 (fun cb sp => shift_power vk (snd cb) = Ok sp) cs sps) ->
    s_check vk cs z vs1 pf chal = Ok (true, r1) -> s_check vk cs z vs2 pf chal = Ok (true, r2) ->
    wval vs1 (hd 0 chal) (tl chal) 0 = wval vs2 (hd 0 chal) (tl chal) 0.
  Proof.
    intros Hg Hh L1 L2 Lc (sps & HF) H1 H2. unfold s_check in *. destruct chal as [|c0 chal0]; [discriminate|]. cbn [length] in Lc.
    rewrite (s_acc_spec vk cs vs1 c0 chal0 0 0 L1 ltac:(lia) sps HF) in H1.
    rewrite (s_acc_spec vk cs vs2 c0 chal0 0 0 L2 ltac:(lia) sps HF) in H2. cbn [bind hd tl] in *.
    injection H1 as H1 _. injection H2 as H2 _. apply FL_eqb in H1. apply FL_eqb in H2.
    set (V1 := wval vs1 c0 chal0 0) in *. set (V2 := wval vs2 c0 chal0 0) in *.
    assert (E : vk_g (svk_vk vk) * vk_h (svk_vk vk) * (V1 - V2) = 0).
    { destruct (pf_random_v pf);
        (match type of H1 with ?a = 0 => match type of H2 with ?b = 0 => transitivity (b - a); [ring|rewrite H1, H2; ring] end end). }
    destruct (f_integral _ _ E) as [E1|E1]; [destruct (f_integral _ _ E1); contradiction|].
    transitivity (V1 - V2 + V2); [ring|rewrite E1; ring].
  Qed.

  (* a commitment presented under a degree bound the verifier key was not trimmed for is refused *)
  Theorem sonic_unsupported_bound_refused vk c d cs vs cur chal lhs val nxt :
    shift_power vk (Some d) = Err EUnsupportedDegreeBound ->
    forall r, s_acc vk cs vs nxt chal lhs val = Ok r ->
    exists va rest, s_acc vk ((c, Some d) :: cs) (0 :: vs) cur (nxt :: chal) lhs val = Ok (Err EUnsupportedDegreeBound, va, rest).
  Proof.
    intros Hs [[l va] rest] Hr. cbn [s_acc]. rewrite Hr. cbn [bind]. rewrite Hs. eexists; eexists; reflexivity.
  Qed.
End SonicFacts.
