(* C14, multi-point openings: the streaming division of space.rs computes exactly the quotient
   and remainder of the in-memory long division; the division is exact; the remainder takes the
   polynomial's values at the evaluation points. *)
From Coq Require Import List Arith NArith Bool Lia Field Ring.
From PC Require Import Base.Field Base.Result Base.Poly Proofs.PolyFacts Schemes.StreamKZG Proofs.StreamFacts.
Import ListNotations.
Open Scope F_scope.

Section StreamMulti.
  Context {FO : FieldOps} {FL : FieldLaws FO}.
  Add Field Ffield17 : FL_field.

  (* ---------------- sub_scaled ---------------- *)
  Lemma sub_scaled_length : forall st zt a, length (sub_scaled st zt a) = length st.
  Proof. induction st as [|s st IH]; intros [|z zt] a; cbn [sub_scaled length]; try reflexivity. rewrite IH. reflexivity. Qed.

  Lemma sub_scaled_zero : forall st zt, sub_scaled st zt 0 = st.
  Proof.
    induction st as [|s st IH]; intros [|z zt]; cbn [sub_scaled]; try reflexivity.
    rewrite IH. f_equal. ring.
  Qed.

  Lemma sub_scaled_app : forall s1 z1 s2 z2 a, length s1 = length z1 ->
    sub_scaled (s1 ++ s2) (z1 ++ z2) a = sub_scaled s1 z1 a ++ sub_scaled s2 z2 a.
  Proof.
    induction s1 as [|s s1 IH]; intros [|z z1] s2 z2 a H; cbn in H; try lia; [reflexivity|].
    cbn [app sub_scaled]. rewrite IH by lia. reflexivity.
  Qed.

  Lemma sub_scaled_rev : forall st zt a, length st = length zt ->
    rev (sub_scaled st zt a) = sub_scaled (rev st) (rev zt) a.
  Proof.
    induction st as [|s st IH]; intros [|z zt] a H; cbn in H; try lia; [reflexivity|].
    cbn [sub_scaled rev]. rewrite IH by lia.
    rewrite sub_scaled_app by (rewrite !rev_length; lia). reflexivity.
  Qed.

  Lemma eval_sub_scaled : forall st zt a x, length st = length zt ->
    eval (sub_scaled st zt a) x = eval st x - a * eval zt x.
  Proof.
    induction st as [|s st IH]; intros [|z zt] a x H; cbn in H; try lia; [cbn; ring|].
    cbn [sub_scaled]. rewrite !eval_cons, IH by lia. ring.
  Qed.

  (* ---------------- the in-memory division is exact ---------------- *)
  Lemma removelast_length (l : list F) : length (removelast l) = pred (length l).
  Proof. rewrite removelast_firstn_len, firstn_length. lia. Qed.

  Lemma eval_app p q x : eval (p ++ q) x = eval p x + fpow x (length p) * eval q x.
  Proof. induction p as [|c t IH]; cbn [app length fpow]; [cbn; ring|]. rewrite !eval_cons, IH. ring. Qed.

  Lemma eval_repeat0 x : forall k, eval (repeat 0 k) x = 0.
  Proof. induction k as [|k IH]; cbn [repeat]; [reflexivity|]. rewrite eval_cons, IH. ring. Qed.

  (* T1: p = q * (zlow + X^k) + r, |r| = k, for every monic divisor of degree k >= 1 given by its low coefficients *)
  Theorem ldivmod_exact zlow x : zlow <> [] -> forall p,
    eval p x = eval (fst (ldivmod p zlow)) x * (eval zlow x + fpow x (length zlow)) + eval (snd (ldivmod p zlow)) x
    /\ length (snd (ldivmod p zlow)) = length zlow.
  Proof.
    intros Hz. induction p as [|c t IH]; cbn [ldivmod fst snd].
    - rewrite eval_repeat0, repeat_length. split; [cbn; ring|reflexivity].
    - destruct (ldivmod t zlow) as [q' r']. cbn [fst snd] in *. destruct IH as [E L].
      assert (Hr : r' <> []) by (intros ->; destruct zlow; [contradiction|discriminate]).
      pose proof (app_removelast_last 0 Hr) as D.
      set (rl := removelast r') in *. set (a := last r' 0) in *.
      assert (Lrl : length zlow = S (length rl)).
      { rewrite <- L, D, app_length. cbn. lia. }
      split; [|rewrite sub_scaled_length; cbn [length]; lia].
      rewrite eval_sub_scaled by (cbn [length]; lia).
      rewrite !eval_cons, E, D, eval_app, Lrl. cbn [fpow eval]. ring.
  Qed.

  (* ---------------- the streaming machine, from a zero window ---------------- *)
  Fixpoint zfold (zt coeffs st : list F) : list F * list F :=
    match coeffs with
    | [] => ([], st)
    | c :: cs => match st with
                 | qc :: st' => let '(qs, fin) := zfold zt cs (sub_scaled (st' ++ [c]) zt qc) in (qc :: qs, fin)
                 | [] => ([], st)
                 end
    end.

  Lemma zfold_nil_state zt : forall l, zfold zt l [] = ([], []).
  Proof. destruct l; reflexivity. Qed.

  Lemma zfold_app zt : forall l1 l2 st,
    zfold zt (l1 ++ l2) st = (fst (zfold zt l1 st) ++ fst (zfold zt l2 (snd (zfold zt l1 st))), snd (zfold zt l2 (snd (zfold zt l1 st)))).
  Proof.
    induction l1 as [|c l1 IH]; intros l2 st.
    - cbn [app zfold fst snd]. destruct (zfold zt l2 st); reflexivity.
    - destruct st as [|qc st'].
      + cbn [app zfold fst snd]. rewrite zfold_nil_state. reflexivity.
      + cbn [app zfold]. rewrite IH. destruct (zfold zt l1 (sub_scaled (st' ++ [c]) zt qc)) as [q1 s1]. cbn [fst snd].
        destruct (zfold zt l2 s1); reflexivity.
  Qed.

  Lemma zfold_state_length zt : forall l st, length (snd (zfold zt l st)) = length st.
  Proof.
    induction l as [|c l IH]; intros st; [reflexivity|]. destruct st as [|qc st']; [reflexivity|].
    cbn [zfold]. specialize (IH (sub_scaled (st' ++ [c]) zt qc)).
    destruct (zfold zt l (sub_scaled (st' ++ [c]) zt qc)). cbn [snd] in *. rewrite IH, sub_scaled_length, app_length. cbn. lia.
  Qed.

  Lemma zfold_fst_length zt : forall l st, (1 <= length st)%nat -> length (fst (zfold zt l st)) = length l.
  Proof.
    induction l as [|c l IH]; intros st H; [reflexivity|]. destruct st as [|qc st']; [cbn in H; lia|].
    cbn [zfold]. specialize (IH (sub_scaled (st' ++ [c]) zt qc)).
    destruct (zfold zt l (sub_scaled (st' ++ [c]) zt qc)). cbn [fst length] in *. rewrite IH; [reflexivity|].
    rewrite sub_scaled_length, app_length. cbn. lia.
  Qed.

  Lemma smp_loop_zfold zt : forall coeffs bases st acc,
    (length coeffs <= length bases)%nat -> (1 <= length st)%nat ->
    smp_loop zt coeffs bases st acc = Ok (snd (zfold zt coeffs st), acc + msm bases (fst (zfold zt coeffs st))).
  Proof.
    induction coeffs as [|c cs IH]; intros bases st acc Hb Hs.
    - cbn [smp_loop zfold fst snd]. rewrite msm_nil_r. f_equal. f_equal. ring.
    - destruct st as [|qc st']; [cbn in Hs; lia|]. destruct bases as [|b bs]; [cbn in Hb; lia|].
      cbn [smp_loop zfold]. rewrite IH; [|cbn in Hb; lia|rewrite sub_scaled_length, app_length; cbn; lia].
      destruct (zfold zt cs (sub_scaled (st' ++ [c]) zt qc)) as [qs fin]. cbn [fst snd msm]. f_equal. f_equal. ring.
  Qed.

  Lemma rev_repeat0 : forall k, rev (repeat (0 : F) k) = repeat 0 k.
  Proof.
    induction k as [|k IH]; [reflexivity|]. cbn [repeat rev]. rewrite IH.
    clear IH. induction k as [|k IH]; [reflexivity|]. cbn [repeat app]. rewrite IH. reflexivity.
  Qed.

  (* the in-memory division is this machine run over the reversed coefficients *)
  Lemma ldivmod_zfold zlow : zlow <> [] -> forall p,
    ldivmod p zlow = (rev (fst (zfold (rev zlow) (rev p) (repeat 0 (length zlow)))),
                      rev (snd (zfold (rev zlow) (rev p) (repeat 0 (length zlow))))).
  Proof.
    intros Hz. induction p as [|c t IH].
    - cbn [ldivmod rev zfold fst snd]. rewrite rev_repeat0. reflexivity.
    - cbn [ldivmod rev]. rewrite IH, zfold_app.
      pose proof (zfold_state_length (rev zlow) (rev t) (repeat 0 (length zlow))) as Ls. rewrite repeat_length in Ls.
      destruct (zfold (rev zlow) (rev t) (repeat 0 (length zlow))) as [q1 s1]. cbn [fst snd] in *.
      destruct s1 as [|qc s1']; [destruct zlow; [contradiction|discriminate]|].
      cbn [zfold fst snd]. cbn [rev]. rewrite last_last, removelast_last, rev_app_distr. cbn [rev app].
      f_equal. rewrite sub_scaled_rev by (rewrite app_length, rev_length; cbn [length] in *; lia).
      rewrite rev_app_distr, rev_involutive. reflexivity.
  Qed.

  Lemma zfold_zero_prefix zt : forall l m s, (length l <= m)%nat ->
    zfold zt l (repeat 0 m ++ s) = (repeat 0 (length l), repeat 0 (m - length l) ++ s ++ l).
  Proof.
    induction l as [|c l IH]; intros m s H.
    - cbn [zfold length repeat]. rewrite Nat.sub_0_r, app_nil_r. reflexivity.
    - destruct m as [|m]; [cbn in H; lia|]. cbn [repeat app zfold].
      rewrite sub_scaled_zero, <- app_assoc, IH by (cbn in H; lia).
      cbn [length repeat Nat.sub]. rewrite <- app_assoc. reflexivity.
  Qed.

  Lemma msm_zero_prefix : forall j bs qs, msm bs (repeat 0 j ++ qs) = msm (skipn j bs) qs.
  Proof.
    induction j as [|j IH]; intros bs qs; [reflexivity|]. destruct bs as [|b bs]; cbn [repeat app msm skipn].
    - destruct qs; reflexivity.
    - rewrite IH. ring.
  Qed.

  Lemma skipn_skipn' {A} : forall a b (l : list A), skipn a (skipn b l) = skipn (b + a) l.
  Proof.
    intros a b. revert a. induction b as [|b IH]; intros a l; [reflexivity|].
    destruct l as [|x l]; cbn [skipn Nat.add]; [destruct a; reflexivity|apply IH].
  Qed.

  Lemma tl_rev (l : list F) : tl (rev l) = rev (removelast l).
  Proof.
    destruct l as [|x l0]; [reflexivity|]. remember (x :: l0) as l eqn:E.
    assert (Hne : l <> []) by (subst; discriminate).
    rewrite (app_removelast_last 0 Hne) at 1. rewrite rev_app_distr. reflexivity.
  Qed.

  Lemma eval_be_rev : forall l x, eval_be (rev l) x = eval l x.
  Proof.
    induction l as [|c t IH]; intros x; [reflexivity|]. cbn [rev]. unfold eval_be. rewrite fold_left_app. cbn [fold_left].
    fold (eval_be (rev t) x). rewrite IH, eval_cons. ring.
  Qed.

  (* ---------------- the vanishing polynomial ---------------- *)
  Lemma pmul_lin_shape a : forall p, p <> [] ->
    length (pmul p [a; 1]) = S (length p) /\ last (pmul p [a; 1]) 0 = last p 0 * 1.
  Proof.
    induction p as [|c t IH]; intros H; [contradiction|]. clear H.
    destruct t as [|c2 t2].
    - cbn. split; reflexivity.
    - destruct (IH ltac:(discriminate)) as [L La].
      remember (c2 :: t2) as t eqn:Et.
      change (pmul (c :: t) [a; 1]) with (padd [c * a; c * 1] (0 :: pmul t [a; 1])).
      destruct (pmul t [a; 1]) as [|u1 [|u2 us]].
      + subst t. cbn [length] in L. lia.
      + subst t. cbn [length] in L. lia.
      + cbn [padd]. split; [cbn [length] in *; lia|].
        assert (Elast : last (c :: t) 0 = last t 0) by (subst t; reflexivity). rewrite Elast.
        cbn [last] in *. exact La.
  Qed.

  Lemma eval_pmul : forall p q x, eval (pmul p q) x = eval p x * eval q x.
  Proof.
    induction p as [|c t IH]; intros q x; cbn [pmul]; [cbn; ring|].
    rewrite eval_padd, eval_pscale, !eval_cons, IH. ring.
  Qed.

  Lemma vanishing_shape_gen : forall pts acc, acc <> [] -> last acc 0 = 1 ->
    let v := fold_left (fun acc x => pmul acc [- x; 1]) pts acc in
    length v = (length acc + length pts)%nat /\ last v 0 = 1.
  Proof.
    induction pts as [|x pts IH]; intros acc Hne Hl; cbn [fold_left length]; [split; [lia|exact Hl]|].
    destruct (pmul_lin_shape (- x) acc Hne) as [L La].
    assert (Hne' : pmul acc [- x; 1] <> []) by (intros E; rewrite E in L; discriminate).
    destruct (IH (pmul acc [- x; 1]) Hne') as [L2 La2]; [rewrite La, Hl; ring|].
    split; [rewrite L2, L; lia|exact La2].
  Qed.

  Lemma vanishing_shape pts : length (vanishing pts) = S (length pts) /\ last (vanishing pts) 0 = 1.
  Proof. unfold vanishing. destruct (vanishing_shape_gen pts [1] ltac:(discriminate) eq_refl) as [L La]. split; [exact L|exact La]. Qed.

  Lemma zlow_length pts : length (zlow_of pts) = length pts.
  Proof. unfold zlow_of. rewrite removelast_length. destruct (vanishing_shape pts) as [L _]. rewrite L. reflexivity. Qed.

  Lemma eval_vanishing_split pts x : eval (vanishing pts) x = eval (zlow_of pts) x + fpow x (length (zlow_of pts)).
  Proof.
    destruct (vanishing_shape pts) as [L La].
    assert (Hne : vanishing pts <> []) by (intros E; rewrite E in L; discriminate).
    rewrite (app_removelast_last 0 Hne) at 1. rewrite eval_app, La. unfold zlow_of. cbn [eval]. ring.
  Qed.

  Lemma eval_vanishing_gen x : forall pts acc,
    eval (fold_left (fun acc y => pmul acc [- y; 1]) pts acc) x = eval acc x * fold_right (fun y r => (x - y) * r) 1 pts.
  Proof.
    induction pts as [|y pts IH]; intros acc; cbn [fold_left fold_right]; [ring|].
    rewrite IH, eval_pmul. cbn [eval]. ring.
  Qed.

  Lemma vanishing_root pts x : In x pts -> eval (vanishing pts) x = 0.
  Proof.
    intros Hin. unfold vanishing. rewrite eval_vanishing_gen.
    assert (Z : fold_right (fun y r => (x - y) * r) 1 pts = 0).
    { induction pts as [|y pts IH]; [contradiction|]. cbn [fold_right]. destruct Hin as [->|Hin]; [ring|rewrite (IH Hin); ring]. }
    rewrite Z. ring.
  Qed.

  (* ---------------- T4: the streaming prover returns the in-memory quotient commitment and remainder ---------------- *)
  Theorem space_open_multi_eq_time ck p pts :
    (length p <= length (sk_g ck))%nat -> pts <> [] ->
    space_open_multi ck p pts = Ok (rev (snd (ldivmod p (zlow_of pts))), time_open_multi ck p pts).
  Proof.
    intros Hl Hp. unfold space_open_multi, time_open_multi.
    destruct (Nat.ltb_spec (length (sk_g ck)) (length p)); [lia|].
    set (k := length pts). set (L := length (sk_g ck)) in *.
    assert (Hk : (1 <= k)%nat) by (unfold k; destruct pts; [contradiction|cbn; lia]).
    pose proof (zlow_length pts) as Lz. fold k in Lz.
    assert (Hz : zlow_of pts <> []) by (intros E; rewrite E in Lz; cbn in Lz; lia).
    assert (Ezt : zt_of pts = rev (zlow_of pts)) by (unfold zt_of, zlow_of; apply tl_rev).
    rewrite Ezt, (ldivmod_zfold _ Hz p), Lz. cbn [fst snd].
    set (zt := rev (zlow_of pts)). set (be := rev p).
    set (j := (k - (k - length p))%nat).
    assert (Hj : (j <= k)%nat) by (unfold j; lia).
    assert (Hjp : (j <= length be)%nat) by (unfold j, be; rewrite rev_length; lia).
    rewrite <- (firstn_skipn j be) at 3 4. rewrite zfold_app.
    replace (repeat 0 k) with (repeat 0 k ++ @nil F) by apply app_nil_r.
    rewrite zfold_zero_prefix by (rewrite firstn_length; lia). cbn [fst snd app].
    rewrite firstn_length, Nat.min_l by exact Hjp.
    replace (k - j)%nat with (k - length p)%nat by (unfold j; lia).
    set (st0 := repeat 0 (k - length p) ++ firstn j be).
    assert (Ls0 : length st0 = k).
    { unfold st0. rewrite app_length, repeat_length, firstn_length, Nat.min_l by exact Hjp. unfold j. lia. }
    set (bases := skipn (L - length p + k) (rev (sk_g ck))).
    assert (Lb : (length (skipn j be) <= length bases)%nat \/ skipn j be = []).
    { destruct (Nat.le_gt_cases k (length p)) as [Hc|Hc].
      - left. unfold bases. rewrite !skipn_length, rev_length. unfold be. rewrite rev_length. fold L. unfold j. lia.
      - right. apply skipn_all2. unfold be, j. rewrite rev_length. lia. }
    assert (Esm : smp_loop zt (skipn j be) bases st0 0 =
                  Ok (snd (zfold zt (skipn j be) st0), 0 + msm bases (fst (zfold zt (skipn j be) st0)))).
    { destruct Lb as [Lb|Lb]; [apply smp_loop_zfold; lia|].
      rewrite Lb. cbn [smp_loop zfold fst snd]. rewrite msm_nil_r. f_equal. f_equal. ring. }
    rewrite Esm, rev_involutive. f_equal. f_equal.
    (* the proof element *)
    set (qs2 := fst (zfold zt (skipn j be) st0)).
    assert (Lq : length qs2 = length (skipn j be)) by (apply zfold_fst_length; lia).
    transitivity (msm bases qs2); [ring|].
    rewrite <- (msm_firstn (sk_g ck) (rev (repeat 0 j ++ qs2))).
    rewrite rev_length, app_length, repeat_length, Lq, skipn_length.
    replace (j + (length be - j))%nat with (length p) by (unfold be in *; rewrite rev_length in *; lia).
    rewrite <- (rev_involutive (firstn (length p) (sk_g ck))).
    rewrite msm_rev by (rewrite !rev_length, firstn_length, app_length, repeat_length, Lq, skipn_length; unfold be in *; rewrite rev_length in *; fold L; lia).
    rewrite <- skipn_rev_firstn by exact Hl. fold L.
    rewrite msm_zero_prefix, skipn_skipn'.
    destruct (Nat.le_gt_cases k (length p)) as [Hc|Hc].
    - unfold bases. replace j with k by (unfold j; lia). reflexivity.
    - assert (Eq2 : qs2 = []).
      { unfold qs2. replace (skipn j be) with (@nil F); [reflexivity|]. symmetry. apply skipn_all2. unfold be, j. rewrite rev_length. lia. }
      rewrite Eq2, !msm_nil_r. reflexivity.
  Qed.

  (* the remainder returned by the streaming prover (big-endian) takes the polynomial's values at every point *)
  Theorem space_open_multi_remainder ck p pts rem pi x :
    (length p <= length (sk_g ck))%nat -> pts <> [] ->
    space_open_multi ck p pts = Ok (rem, pi) -> In x pts -> eval_be rem x = eval p x /\ length rem = length pts.
  Proof.
    intros Hl Hp H Hin. rewrite (space_open_multi_eq_time ck p pts Hl Hp) in H. injection H as <- _.
    pose proof (zlow_length pts) as Lz.
    assert (Hz : zlow_of pts <> []) by (intros E; rewrite E in Lz; destruct pts; [contradiction|discriminate]).
    destruct (ldivmod_exact (zlow_of pts) x Hz p) as [E Lr].
    rewrite eval_be_rev, rev_length, Lr, Lz. split; [|reflexivity].
    rewrite E, <- eval_vanishing_split, (vanishing_root pts x Hin). ring.
  Qed.
End StreamMulti.
