(* Marlin verifier: accumulate_commitments_and_values is affine in the claimed values, with
   explicit coefficients; consequences for C02 / C04 / C10 / C11. *)
From Coq Require Import List Arith NArith Bool Lia Field Ring.
From PC Require Import Base.Field Base.Result Base.Poly Base.OrdMap Proofs.PolyFacts
     Schemes.KZG10 Schemes.LC Schemes.Marlin Proofs.KZG10Facts Proofs.KZG10Binding.
Import ListNotations.
Open Scope F_scope.

Section MarlinFacts.
  Context {FO : FieldOps} {FL : FieldLaws FO}.
  Add Field Ffield6 : FL_field.

  Definition bound_flag_ok (c : LComm) : bool :=
    Bool.eqb (match lc_bound c with Some _ => true | None => false end)
             (match mc_shifted (lc_comm c) with Some _ => true | None => false end).

  (* the value-independent skeleton of accumulate: combined commitment part C, per-position
     challenge a_i = xi_i, per-position shift weight b_i = xi'_i * shift_power_i (0 without a
     bound), remaining challenge tape *)
  Fixpoint acc_lin (vk : MVKey) (cs : list LComm) (chal : list F) : res (F * list F * list F * list F) :=
    match cs with
    | [] => Ok (0, [], [], chal)
    | c :: cs' =>
      if negb (bound_flag_ok c) then Panic else
      match chal with
      | [] => Err EOther
      | ci :: chal1 =>
        match lc_bound c, mc_shifted (lc_comm c) with
        | Some d, Some sc =>
          match chal1 with
          | [] => Err EOther
          | ci1 :: chal2 =>
            match get_shift_power vk d with
            | None => Err EUnsupportedDegreeBound
            | Some sp =>
              do r <- acc_lin vk cs' chal2;
              let '(C, az, bz, rest) := r in
              Ok (mc_comm (lc_comm c) * ci + sc * ci1 + C, ci :: az, (sp * ci1) :: bz, rest)
            end
          end
        | _, _ =>
          do r <- acc_lin vk cs' chal1;
          let '(C, az, bz, rest) := r in
          Ok (mc_comm (lc_comm c) * ci + C, ci :: az, 0 :: bz, rest)
        end
      end
    end.

  Definition lift_acc (cc cv : F) (vs : list F) (r : res (F * list F * list F * list F)) : res (F * F * list F) :=
    match r with
    | Ok (C, az, bz, rest) => Ok (cc + C - inner bz vs, cv + inner az vs, rest)
    | Err e => Err e
    | Panic => Panic
    end.

  Lemma ok3_eq (a a' b b' : F) (c : list F) : a = a' -> b = b' -> @Ok (F * F * list F) (a, b, c) = Ok (a', b', c).
  Proof. intros -> ->. reflexivity. Qed.

  Lemma accumulate_lin vk : forall cs vs chal cc cv,
      length vs = length cs ->
      accumulate vk cs vs chal cc cv = lift_acc cc cv vs (acc_lin vk cs chal).
  Proof.
    induction cs as [|c cs IH]; intros vs chal cc cv Hl.
    - destruct vs; [|discriminate]. cbn. apply ok3_eq; ring.
    - destruct vs as [|v vs]; [discriminate|]. cbn [length] in Hl. injection Hl as Hl.
      cbn [accumulate acc_lin]. unfold bound_flag_ok.
      destruct (negb (Bool.eqb _ _)); [reflexivity|].
      destruct chal as [|ci chal1]; [reflexivity|].
      destruct (lc_bound c) as [d|]; destruct (mc_shifted (lc_comm c)) as [sc|].
      + destruct chal1 as [|ci1 chal2]; [reflexivity|].
        destruct (get_shift_power vk d) as [sp|]; [|reflexivity].
        rewrite IH by exact Hl. destruct (acc_lin vk cs chal2) as [[[[C az] bz] rest]| |]; cbn [bind lift_acc inner]; try reflexivity.
        apply ok3_eq; ring.
      + rewrite IH by exact Hl. destruct (acc_lin vk cs chal1) as [[[[C az] bz] rest]| |]; cbn [bind lift_acc inner]; try reflexivity.
        apply ok3_eq; ring.
      + rewrite IH by exact Hl. destruct (acc_lin vk cs chal1) as [[[[C az] bz] rest]| |]; cbn [bind lift_acc inner]; try reflexivity.
        apply ok3_eq; ring.
      + rewrite IH by exact Hl. destruct (acc_lin vk cs chal1) as [[[[C az] bz] rest]| |]; cbn [bind lift_acc inner]; try reflexivity.
        apply ok3_eq; ring.
  Qed.

  Lemma acc_lin_lengths vk : forall cs chal C az bz rest,
      acc_lin vk cs chal = Ok (C, az, bz, rest) -> length az = length cs /\ length bz = length cs.
  Proof.
    induction cs as [|c cs IH]; intros chal C az bz rest H; cbn [acc_lin] in H.
    - inversion H; subst. split; reflexivity.
    - destruct (negb (bound_flag_ok c)); [discriminate|].
      destruct chal as [|ci chal1]; [discriminate|].
      destruct (lc_bound c) as [d|]; destruct (mc_shifted (lc_comm c)) as [sc|].
      + destruct chal1 as [|ci1 chal2]; [discriminate|].
        destruct (get_shift_power vk d) as [sp|]; [|discriminate].
        destruct (acc_lin vk cs chal2) as [[[[C' az'] bz'] rest']| |] eqn:E; cbn [bind] in H; try discriminate.
        inversion H; subst. destruct (IH _ _ _ _ _ E). cbn [length]. split; lia.
      + destruct (acc_lin vk cs chal1) as [[[[C' az'] bz'] rest']| |] eqn:E; cbn [bind] in H; try discriminate.
        inversion H; subst. destruct (IH _ _ _ _ _ E). cbn [length]. split; lia.
      + destruct (acc_lin vk cs chal1) as [[[[C' az'] bz'] rest']| |] eqn:E; cbn [bind] in H; try discriminate.
        inversion H; subst. destruct (IH _ _ _ _ _ E). cbn [length]. split; lia.
      + destruct (acc_lin vk cs chal1) as [[[[C' az'] bz'] rest']| |] eqn:E; cbn [bind] in H; try discriminate.
        inversion H; subst. destruct (IH _ _ _ _ _ E). cbn [length]. split; lia.
  Qed.

  (* the Marlin check is an affine function of the claimed values *)
  Definition marlin_residual (vk : MVKey) (C : F) (az bz vs : list F) (z : F) (pf : Proof) : F :=
    check_residual (mvk_vk vk) (0 + C - inner bz vs) z (0 + inner az vs) pf.

  Theorem mcheck_affine vk cs z vs pf chal :
    length vs = length cs ->
    mcheck vk cs z vs pf chal =
    match acc_lin vk cs chal with
    | Ok (C, az, bz, rest) => Ok (feqb (marlin_residual vk C az bz vs z pf + pf_w pf * (vk_beta_h (mvk_vk vk) - vk_h (mvk_vk vk) * z))
                                       (pf_w pf * (vk_beta_h (mvk_vk vk) - vk_h (mvk_vk vk) * z)), rest)
    | Err e => Err e
    | Panic => Panic
    end.
  Proof.
    intros Hl. unfold mcheck. rewrite accumulate_lin by exact Hl.
    destruct (acc_lin vk cs chal) as [[[[C az] bz] rest]| |]; cbn [lift_acc bind]; try reflexivity.
    unfold KZG10.check. cbn [bind]. f_equal. f_equal. unfold marlin_residual, check_residual.
    destruct (pf_random_v pf); f_equal; ring.
  Qed.

  Lemma mcheck_accept_iff vk cs z vs pf chal C az bz rest :
    length vs = length cs -> acc_lin vk cs chal = Ok (C, az, bz, rest) ->
    forall b r, mcheck vk cs z vs pf chal = Ok (b, r) ->
                r = rest /\ (b = true <-> marlin_residual vk C az bz vs z pf = 0).
  Proof.
    intros Hl Ha b r H. rewrite mcheck_affine in H by exact Hl. rewrite Ha in H.
    inversion H; subst; clear H. split; [reflexivity|]. split; intros Hb.
    - apply FL_eqb in Hb.
      transitivity ((marlin_residual vk C az bz vs z pf + pf_w pf * (vk_beta_h (mvk_vk vk) - vk_h (mvk_vk vk) * z))
                    - pf_w pf * (vk_beta_h (mvk_vk vk) - vk_h (mvk_vk vk) * z)); [ring|rewrite Hb; ring].
    - apply FL_eqb. rewrite Hb. ring.
  Qed.

  (* replace the j-th claimed value by v_j + d *)
  Fixpoint bump (vs : list F) (j : nat) (d : F) : list F :=
    match vs, j with
    | [], _ => []
    | v :: t, O => (v + d) :: t
    | v :: t, S k => v :: bump t k d
    end.

  Lemma bump_length vs j d : length (bump vs j d) = length vs.
  Proof. revert j; induction vs as [|v t IH]; intros [|k]; cbn [bump length]; auto. Qed.

  Lemma inner_bump : forall az vs j d,
      length az = length vs -> j < length vs ->
      inner az (bump vs j d) = inner az vs + nth j az 0 * d.
  Proof.
    induction az as [|a az IH]; intros [|v vs] j d Hl Hj; cbn [length] in *; try lia.
    destruct j as [|k]; cbn [bump inner nth].
    - ring.
    - rewrite IH by lia. ring.
  Qed.

  Lemma marlin_residual_bump vk C az bz vs z pf j d :
    length az = length vs -> length bz = length vs -> j < length vs ->
    marlin_residual vk C az bz (bump vs j d) z pf =
    marlin_residual vk C az bz vs z pf
    - (vk_g (mvk_vk vk) * nth j az 0 + nth j bz 0) * vk_h (mvk_vk vk) * d.
  Proof.
    intros H1 H2 Hj. unfold marlin_residual. rewrite !residual_closed, !inner_bump by assumption. ring.
  Qed.

  (* C02 / C10 at every position of a Marlin opening: from an accepting transcript, the claim
     v_j + d is accepted exactly when (g xi_j + shift_j xi'_j) h d = 0 *)
  Theorem marlin_value_change vk cs z vs pf chal C az bz rest j d b r :
    length vs = length cs -> j < length cs ->
    acc_lin vk cs chal = Ok (C, az, bz, rest) ->
    mcheck vk cs z vs pf chal = Ok (true, rest) ->
    mcheck vk cs z (bump vs j d) pf chal = Ok (b, r) ->
    (b = true <-> (vk_g (mvk_vk vk) * nth j az 0 + nth j bz 0) * vk_h (mvk_vk vk) * d = 0).
  Proof.
    intros Hl Hj Ha H1 H2. destruct (acc_lin_lengths _ _ _ _ _ _ _ Ha) as [La Lb].
    destruct (mcheck_accept_iff vk cs z vs pf chal C az bz rest Hl Ha _ _ H1) as [_ E1].
    assert (Hl' : length (bump vs j d) = length cs) by (rewrite bump_length; exact Hl).
    destruct (mcheck_accept_iff vk cs z _ pf chal C az bz rest Hl' Ha _ _ H2) as [_ E2].
    rewrite E2, marlin_residual_bump by lia.
    assert (E0 : marlin_residual vk C az bz vs z pf = 0) by (apply E1; reflexivity).
    rewrite E0. split; intros H.
    - transitivity (0 - (0 - (vk_g (mvk_vk vk) * nth j az 0 + nth j bz 0) * vk_h (mvk_vk vk) * d)); [ring|rewrite H; ring].
    - rewrite H. ring.
  Qed.

  (* the verifier squeezes the same number of challenges whatever the claimed values *)
  Theorem mcheck_tape_independent_of_values vk cs z vs vs' pf chal b r b' r' :
    length vs = length cs -> length vs' = length cs ->
    mcheck vk cs z vs pf chal = Ok (b, r) -> mcheck vk cs z vs' pf chal = Ok (b', r') -> r = r'.
  Proof.
    intros H1 H2. rewrite !mcheck_affine by assumption.
    destruct (acc_lin vk cs chal) as [[[[C az] bz] rest]| |]; try discriminate.
    intros E1 E2. inversion E1; inversion E2; subst. reflexivity.
  Qed.
End MarlinFacts.
