(* Sonic: what trim produces from honest parameters, and the consistency of every honest commitment with the shift
   element of its degree bound: commitment * shift = h * (g p(beta) + gamma r(beta)). *)
From Coq Require Import List Arith NArith Bool Lia Field Ring.
From PC Require Import Base.Field Base.Result Base.Poly Proofs.PolyFacts Schemes.KZG10 Schemes.Marlin Schemes.Sonic
     Proofs.KZG10Facts Proofs.MarlinComplete Proofs.SetupFacts Proofs.SonicFacts.
Import ListNotations.
Open Scope F_scope.

Section SonicKeys.
  Context {FO : FieldOps} {FL : FieldLaws FO}.
  Add Field Ffield22 : FL_field.

  Lemma filter_seq_shift N a : forall m s,
    filter (fun j => (j <? N)%nat) (map (fun i => (a + i)%nat) (seq s m)) = seq (a + s) (Nat.min m (N - (a + s))).
  Proof.
    induction m as [|m IH]; intros s; [reflexivity|].
    cbn [seq map filter]. rewrite IH. destruct (Nat.ltb_spec (a + s) N) as [Hlt|Hge].
    - replace (N - (a + s))%nat with (S (N - (a + S s))) by lia. cbn [Nat.min seq]. f_equal.
      replace (a + S s)%nat with (S (a + s)) by lia. reflexivity.
    - replace (N - (a + s))%nat with 0%nat by lia. replace (N - (a + S s))%nat with 0%nat by lia.
      rewrite !Nat.min_0_r. reflexivity.
  Qed.

  Lemma mapM_ok_map {A B} (f : A -> res B) (g : A -> B) : forall l,
    (forall a, In a l -> f a = Ok (g a)) -> mapM f l = Ok (map g l).
  Proof.
    induction l as [|a t IH]; intros H; [reflexivity|]. cbn [mapM map].
    rewrite (H a (or_introl eq_refl)). cbn [bind]. rewrite IH by (intros b Hb; apply H; right; exact Hb). reflexivity.
  Qed.

  Lemma firstn_gpowers k g c b n : firstn k (gpowers g c b n) = gpowers g c b (Nat.min k n).
  Proof.
    unfold gpowers. rewrite firstn_map. f_equal. revert c k. induction n as [|n IH]; intros c k.
    - rewrite Nat.min_0_r. destruct k; reflexivity.
    - destruct k as [|k]; [reflexivity|]. cbn [powers_from firstn Nat.min]. rewrite IH. reflexivity.
  Qed.

  Lemma index_all_seq_ok {A} (l : list A) : forall k i, (i + k <= length l)%nat ->
    index_all l (seq i k) = Ok (firstn k (skipn i l)).
  Proof.
    induction k as [|k IH]; intros i H; [reflexivity|]. cbn [seq index_all].
    destruct (nth_error l i) as [a|] eqn:E; [|apply nth_error_None in E; lia].
    rewrite IH by lia. cbn [bind]. f_equal.
    clear - E. revert i E. induction l as [|x l IHl]; intros i E; [destruct i; discriminate|].
    destruct i as [|i]; cbn [nth_error skipn firstn] in *; [injection E as ->; reflexivity|].
    rewrite <- (IHl i E). destruct l; reflexivity.
  Qed.

  Lemma assoc_nat_map' {B} (f : nat -> B) d l :
    nat_mem d l = true -> Sonic.assoc_nat d (map (fun x => (x, f x)) l) = Some (f d).
  Proof.
    induction l as [|x l IH]; cbn [nat_mem existsb map Sonic.assoc_nat]; [discriminate|].
    destruct (Nat.eqb_spec d x) as [->|Hne]; [reflexivity|]. cbn [orb]. exact IH.
  Qed.

  (* KZG10.commit under arbitrary windows of g- and gamma-powers *)
  Lemma commit_window2 g c gam c' b n m pw p hb rng cm r draws :
    pw_g pw = gpowers g c b n -> pw_gamma_g pw = gpowers gam c' b m ->
    commit pw p hb rng = Ok (cm, r, draws) ->
    cm = g * c * eval p b + gam * c' * eval r b /\ (length r <= m)%nat.
  Proof.
    intros Hg Hgg. unfold commit.
    destruct (degree_check_cases (degree p) (length (pw_g pw))) as [[-> Hd]|[-> _]]; [|discriminate].
    cbn [bind].
    assert (Hlen : length (pw_g pw) = n) by (rewrite Hg; apply gpowers_length).
    assert (Hlen2 : length (pw_gamma_g pw) = m) by (rewrite Hgg; apply gpowers_length).
    assert (Hp : (length (trim p) <= n)%nat) by (apply degree_trim_length; lia).
    destruct hb as [hbv|].
    - destruct rng as [tape|]; [|discriminate]. unfold take_tape.
      destruct (Nat.ltb_spec (length tape) (rand_draws hbv)); [discriminate|]. cbn [bind].
      unfold check_hiding_bound.
      destruct (Nat.eqb_spec (degree (trim (firstn (rand_draws hbv) tape))) 0); [discriminate|].
      destruct (Nat.leb_spec (length (pw_gamma_g pw)) (degree (trim (firstn (rand_draws hbv) tape)))); [discriminate|].
      cbn [bind]. intros E. inversion E; subst cm r draws; clear E.
      set (r := trim (firstn (rand_draws hbv) tape)) in *.
      assert (Hr : (length r <= length (pw_gamma_g pw))%nat) by (unfold degree in *; unfold r in *; rewrite trim_idem in *; lia).
      rewrite Hg, Hgg. rewrite commit_coeffs_window by exact Hp. rewrite msm_window by lia. split; [ring|lia].
    - cbn [bind]. intros E. inversion E; subst cm r draws; clear E.
      rewrite Hg. rewrite commit_coeffs_window by exact Hp. rewrite msm_nil_r. cbn [eval length]. split; [ring|lia].
  Qed.

  Definition sbounds (ck : SCKey) : list nat := match sck_bounds ck with Some l => l | None => [] end.

  (* what trim produces *)
  Theorem strim_keys D beta g gam h up s sh bounds ck vk :
    setup D true beta g gam h = Ok up -> strim up s sh bounds = Ok (ck, vk) -> beta <> 0 ->
    sck_g ck = gpowers g 1 beta (s + 1) /\ sck_gamma ck = gpowers gam 1 beta (sh + 2) /\
    vk_g (svk_vk vk) = g * 1 /\ vk_gamma_g (svk_vk vk) = gam * 1 /\ vk_h (svk_vk vk) = h /\ vk_beta_h (svk_vk vk) = h * beta /\
    sck_max ck = D /\ sck_bounds ck = option_map sort_dedup bounds /\
    (forall d, nat_mem d (sbounds ck) = true ->
       (d <= D)%nat /\
       (exists pw c k, s_shifted_powers ck d = Ok pw /\ pw_g pw = gpowers g c beta (d + 1) /\
                       pw_gamma_g pw = gpowers gam (1 * fpow beta (D - d)) beta k /\ c = fpow beta (D - d) /\ (k <= sh + 2)%nat) /\
       (exists sp, shift_power vk (Some d) = Ok sp /\ sp * fpow beta (D - d) = h)).
  Proof.
    intros Hs Ht Hb. pose proof (setup_ok _ _ _ _ _ _ _ Hs) as (HD & Hg & Hgg & Hh & Hbh).
    assert (HmaxD : max_degree up = D).
    { unfold max_degree. rewrite Hg, map_length. unfold powers. rewrite powers_from_length. lia. }
    assert (Hpg : up_powers_of_g up = gpowers g 1 beta (D + 1)) by (rewrite Hg; reflexivity).
    assert (Hpgg : up_powers_of_gamma_g up = gpowers gam 1 beta (D + 2)) by (rewrite Hgg; reflexivity).
    destruct (vk_of_setup _ _ _ _ _ _ _ Hs) as (Vg & Vgg & Vh & Vbh).
    unfold strim in Ht. cbv zeta in Ht. rewrite !HmaxD in Ht.
    destruct (Nat.ltb_spec D s) as [|HsD]; [discriminate|].
    (* the per-bound parts *)
    set (eb := option_map sort_dedup bounds) in *.
    assert (Hparts : forall l, eb = Some l -> l <> [] -> (s < last l O -> False)%nat ->
              mapM (fun d => do g0 <- index_all (up_powers_of_gamma_g up)
                                       (filter (fun j => (j <? D + 2)%nat) (map (fun i => (D - d + i)%nat) (seq 0 (sh + 2))));
                             Ok (d, g0)) l
              = Ok (map (fun d => (d, gpowers gam (1 * fpow beta (D - d)) beta (Nat.min (Nat.min (sh + 2) (D + 2 - (D - d))) (D + 2 - (D - d))))) l) /\
              mapM (fun d => match nth_error (up_neg_powers_of_h up) (D - d) with Some x => Ok (d, x) | None => Panic end) l
              = Ok (map (fun d => (d, nth (D - d) (up_neg_powers_of_h up) 0)) l)).
    { intros l El Hne Hhi.
      assert (Hsorted : lsorted l).
      { unfold eb in El. destruct bounds as [l0|]; cbn in El; [|discriminate]. injection El as <-. apply sort_dedup_sorted. }
      assert (Hle : forall d, In d l -> (d <= D)%nat).
      { intros d Hd. pose proof (lsorted_le_last l d Hsorted Hd). lia. }
      split; apply mapM_ok_map; intros d Hd; specialize (Hle d Hd).
      - rewrite filter_seq_shift, Nat.add_0_r, Hpgg.
        rewrite index_all_seq_ok by (rewrite gpowers_length; lia). cbn [bind].
        rewrite skipn_gpowers, firstn_gpowers. reflexivity.
      - destruct (setup_neg_powers _ _ _ _ _ _ (D - d) Hs Hb ltac:(lia)) as [_ Ln].
        destruct (nth_error (up_neg_powers_of_h up) (D - d)) as [x|] eqn:E; [|apply nth_error_None in E; lia].
        f_equal. f_equal. symmetry. apply nth_error_nth. exact E. }
    (* case analysis on the enforced bounds *)
    assert (Hfin : forall sp sg ng,
              (do gam0 <- index_all (up_powers_of_gamma_g up) (seq 0 (sh + 2));
               Ok ({| sck_g := firstn (s + 1) (up_powers_of_g up); sck_gamma := gam0; sck_shifted := sp;
                      sck_shifted_gamma := sg; sck_bounds := eb; sck_max := D; sck_supported := s |},
                   {| svk_vk := vk_of up; svk_neg := ng; svk_supported := s; svk_max := D |})) = Ok (ck, vk) ->
              sck_g ck = gpowers g 1 beta (s + 1) /\ sck_gamma ck = gpowers gam 1 beta (sh + 2) /\
              svk_vk vk = vk_of up /\ sck_max ck = D /\ sck_bounds ck = eb /\
              sck_shifted ck = sp /\ sck_shifted_gamma ck = sg /\ svk_neg vk = ng).
    { intros sp sg ng H.
      destruct (index_all (up_powers_of_gamma_g up) (seq 0 (sh + 2))) as [gamv| |] eqn:Eg; cbn [bind] in H; try discriminate.
      destruct (index_all_seq _ _ _ _ Eg) as [Egam Hlen]. cbn [skipn] in Egam.
      rewrite Hpgg, gpowers_length in Hlen. injection H as <- <-. cbn.
      repeat split; try reflexivity.
      - rewrite Hpg, firstn_gpowers. f_equal. lia.
      - rewrite Egam, Hpgg, firstn_gpowers. f_equal. lia. }
    assert (Hvk : forall vk0, svk_vk vk0 = vk_of up ->
              vk_g (svk_vk vk0) = g * 1 /\ vk_gamma_g (svk_vk vk0) = gam * 1 /\ vk_h (svk_vk vk0) = h /\ vk_beta_h (svk_vk vk0) = h * beta).
    { intros vk0 ->. repeat split; assumption. }
    destruct eb as [[|b0 bs]|] eqn:Eeb.
    - cbn [bind] in Ht. destruct (Hfin _ _ _ Ht) as (A1 & A2 & A3 & A4 & A5 & _).
      destruct (Hvk _ A3) as (B1 & B2 & B3 & B4).
      repeat split; try assumption. all: unfold sbounds in *; rewrite A5 in *; cbn in *; discriminate.
    - set (l := b0 :: bs) in *.
      destruct (Nat.ltb_spec s (last l O)) as [|Hhi]; [discriminate|].
      destruct (Hparts l eq_refl ltac:(discriminate) ltac:(lia)) as [Esg Eng].
      rewrite Esg in Ht. cbn [bind] in Ht. rewrite Eng in Ht. cbn [bind] in Ht.
      destruct (Hfin _ _ _ Ht) as (A1 & A2 & A3 & A4 & A5 & A6 & A7 & A8).
      destruct (Hvk _ A3) as (B1 & B2 & B3 & B4).
      assert (Hsorted : lsorted l).
      { unfold eb in Eeb. destruct bounds as [l0|]; cbn in Eeb; [|discriminate]. injection Eeb as <-. apply sort_dedup_sorted. }
      split; [exact A1|]. split; [exact A2|]. split; [exact B1|]. split; [exact B2|]. split; [exact B3|]. split; [exact B4|].
      split; [exact A4|]. split; [exact A5|].
      intros d Hd. unfold sbounds in Hd. rewrite A5 in Hd.
      assert (Hdl : (d <= last l O)%nat) by (apply lsorted_le_last; [exact Hsorted|apply nat_mem_In; exact Hd]).
      split; [lia|]. split.
      + unfold s_shifted_powers. rewrite A6, A7, A5, Hd. cbn [negb].
        rewrite (assoc_nat_map' _ d l Hd).
        rewrite Hpg, skipn_gpowers, gpowers_length.
        destruct (Nat.ltb_spec (D + 1 - (D - last l O)) (last l O - d)); [lia|].
        eexists. eexists. eexists. split; [reflexivity|]. cbn [pw_g pw_gamma_g]. rewrite skipn_gpowers.
        split; [f_equal; lia|]. split; [reflexivity|]. split; [|lia].
        replace (D - d)%nat with ((D - last l O) + (last l O - d))%nat by lia. rewrite fpow_add. ring.
      + unfold shift_power. rewrite A8. rewrite (assoc_nat_map' _ d l Hd).
        eexists. split; [reflexivity|]. apply (setup_neg_powers _ _ _ _ _ _ (D - d) Hs Hb). lia.
    - cbn [bind] in Ht. destruct (Hfin _ _ _ Ht) as (A1 & A2 & A3 & A4 & A5 & _).
      destruct (Hvk _ A3) as (B1 & B2 & B3 & B4).
      repeat split; try assumption. all: unfold sbounds in *; rewrite A5 in *; cbn in *; discriminate.
  Qed.

  (* every honest commitment is consistent with the shift element of its bound *)
  Theorem sonic_commit_consistent D beta g gam h up s sh bounds ck vk lp rng c r nd :
    setup D true beta g gam h = Ok up -> strim up s sh bounds = Ok (ck, vk) -> beta <> 0 ->
    s_commit1 ck lp rng = Ok (c, r, nd) ->
    exists sp, shift_power vk (lp_bound lp) = Ok sp /\
               c * sp = h * (g * eval (lp_poly lp) beta + gam * eval r beta) /\ (length r <= sh + 2)%nat.
  Proof.
    intros Hs Ht Hb Hc.
    destruct (strim_keys _ _ _ _ _ _ _ _ _ _ _ Hs Ht Hb) as (Kg & Kgg & V1 & V2 & V3 & V4 & Km & Kb & Kd).
    unfold s_commit1 in Hc.
    destruct (check_degrees_and_bounds (sck_max ck) (sck_bounds ck) (lp_poly lp) (lp_bound lp)) eqn:Ec; cbn [bind] in Hc; try discriminate.
    destruct (lp_bound lp) as [d|] eqn:Eb.
    - (* bounded *)
      assert (Hd : nat_mem d (sbounds ck) = true).
      { unfold check_degrees_and_bounds in Ec. unfold sbounds. destruct (sck_bounds ck) as [bs|]; [|discriminate].
        destruct (nat_mem d bs); [reflexivity|discriminate]. }
      destruct (Kd d Hd) as (HdD & (pw & c0 & k & Esp & Epg & Epgg & Ec0 & Hk) & (sp & Esh & Esph)).
      rewrite Esp in Hc. cbn [bind] in Hc. apply kzg_commit_opt_ok in Hc.
      destruct (commit_window2 _ _ _ _ _ _ _ _ _ _ _ _ _ _ Epg Epgg Hc) as [Ecm Lr].
      exists sp. split; [exact Esh|]. split.
      + rewrite Ecm, Ec0.
        transitivity ((g * eval (lp_poly lp) beta + gam * eval r beta) * (sp * fpow beta (D - d))); [ring|rewrite Esph; ring].
      + lia.
    - (* unbounded: the plain key *)
      cbn [bind] in Hc. apply kzg_commit_opt_ok in Hc.
      destruct (commit_window2 g 1 gam 1 beta (s + 1) (sh + 2) {| pw_g := sck_g ck; pw_gamma_g := sck_gamma ck |} _ _ _ _ _ _ Kg Kgg Hc) as [Ecm Lr].
      exists (vk_h (svk_vk vk)). split; [reflexivity|]. split; [|exact Lr]. rewrite Ecm, V3. ring.
  Qed.

  (* all commitments of a commit call *)
  Lemma sonic_commit_all_consistent D beta g gam h up s sh bounds ck vk :
    setup D true beta g gam h = Ok up -> strim up s sh bounds = Ok (ck, vk) -> beta <> 0 ->
    forall lps rng csts nd, s_commit_all ck lps rng = Ok (csts, nd) ->
    length csts = length lps /\
    Forall (fun it : LPoly * Rand => (length (snd it) <= sh + 2)%nat) (combine lps (map snd csts)) /\
    exists sps, Forall2 (fun cb sp => shift_power vk (snd cb) = Ok sp) (combine (map fst csts) (map lp_bound lps)) sps /\
                map (fun csp : F * option nat * F => fst (fst csp) * snd csp) (combine (combine (map fst csts) (map lp_bound lps)) sps)
                = map (fun it : LPoly * Rand => h * (g * eval (lp_poly (fst it)) beta + gam * eval (snd it) beta)) (combine lps (map snd csts)).
  Proof.
    intros Hs Ht Hb. induction lps as [|lp t IH]; intros rng csts nd H; cbn [s_commit_all] in H.
    - injection H as <- <-. cbn. repeat split; [constructor|]. exists []. split; [constructor|reflexivity].
    - destruct (s_commit1 ck lp rng) as [[[c r] n1]| |] eqn:E1; cbn [bind] in H; try discriminate.
      destruct (s_commit_all ck t (option_map (skipn n1) rng)) as [[rest n2]| |] eqn:E2; cbn [bind] in H; try discriminate.
      cbn [fst snd] in H. injection H as <- <-.
      destruct (IH _ _ _ E2) as (L & Fr & sps & HF & Hm).
      destruct (sonic_commit_consistent _ _ _ _ _ _ _ _ _ _ _ _ _ _ _ _ Hs Ht Hb E1) as (sp & Esp & Ecs & Lr).
      cbn [length map fst snd combine]. split; [lia|]. split; [constructor; [exact Lr|exact Fr]|].
      exists (sp :: sps). split; [constructor; [exact Esp|exact HF]|].
      cbn [combine map fst snd]. rewrite Ecs, Hm. reflexivity.
  Qed.

  (* end to end: parameters from setup, keys from trim, commitments from commit (degree bounds, hiding), the proof from
     open: check accepts the true values and consumes the prover's challenges *)
  Theorem sonic_complete D beta g gam h up s sh bounds ck vk lps rng csts nd z chal pf rest :
    setup D true beta g gam h = Ok up -> strim up s sh bounds = Ok (ck, vk) -> beta <> 0 ->
    s_commit_all ck lps rng = Ok (csts, nd) ->
    s_open ck (combine lps (map snd csts)) z chal = Ok (pf, rest) ->
    s_check vk (combine (map fst csts) (map lp_bound lps)) z (map (fun lp => eval (lp_poly lp) z) lps) pf chal = Ok (true, rest).
  Proof.
    intros Hs Ht Hb Hc Ho.
    destruct (strim_keys _ _ _ _ _ _ _ _ _ _ _ Hs Ht Hb) as (Kg & Kgg & V1 & V2 & V3 & V4 & _).
    destruct (sonic_commit_all_consistent _ _ _ _ _ _ _ _ _ _ _ Hs Ht Hb _ _ _ _ Hc) as (L & Fr & Hcons).
    assert (Ev : map (fun lp => eval (lp_poly lp) z) lps
                 = map (fun it : LPoly * Rand => eval (lp_poly (fst it)) z) (combine lps (map snd csts))).
    { clear - L. revert csts L. induction lps as [|lp t IH]; intros [|x csts] L; cbn in L; try lia; [reflexivity|].
      cbn [map combine fst snd]. f_equal. apply IH. lia. }
    rewrite Ev.
    eapply (sonic_check_complete g gam h beta (s + 1) (sh + 2)); try eassumption.
    - rewrite V1. ring.
    - rewrite V2. ring.
    - rewrite !combine_length, !map_length. lia.
  Qed.
End SonicKeys.
