(* C19: the serialized size of an artefact depends only on its shape (vector lengths and option
   tags), and for each scheme's commitment and proof it is the closed form of Schemes/Sizes.v. *)
From Coq Require Import List NArith Arith Bool Lia.
From PC Require Import Base.Codec Base.Result Proofs.CodecFacts Schemes.Artefacts Schemes.CalcT Schemes.Sizes.
Import ListNotations.

(* size computed from the shape alone *)
Definition vsize_list (f : value -> nat) : list value -> nat :=
  fix go l := match l with [] => O | x :: t => (f x + go t)%nat end.
Definition vsize_tuple : list (value -> nat) -> list value -> nat :=
  fix go fs vs := match fs, vs with f :: fs', v :: vs' => (f v + go fs' vs')%nat | _, _ => O end.
Fixpoint vsize (s : schema) (v : value) {struct s} : nat :=
  match s, v with
  | SPrim k, _ => k
  | SU64, _ => 8
  | SBool, _ => 1
  | SOption s', VOption (Some x) => S (vsize s' x)
  | SOption _, _ => 1
  | SVec s', VVec l => (8 + vsize_list (vsize s') l)%nat
  | SVec _, _ => 8
  | STuple ss, VTuple vs => vsize_tuple (map vsize ss) vs
  | STuple _, _ => O
  | SBytes, VBytes b => (8 + length b)%nat
  | SBytes, _ => 8
  end.

Lemma enc_list_vsize (s : schema) :
  (forall v b, enc s v = Some b -> length b = vsize s v) ->
  forall l b, enc_list (enc s) l = Some b -> length b = vsize_list (vsize s) l.
Proof.
  intros H. induction l as [|x t IH]; intros b E; cbn [enc_list vsize_list] in *.
  - injection E as <-. reflexivity.
  - apply opt_app_some in E. destruct E as (a & c & E1 & E2 & ->).
    rewrite app_length, (H _ _ E1), (IH _ E2). reflexivity.
Qed.

Lemma enc_tuple_vsize (ss : list schema) :
  Forall (fun s => forall v b, enc s v = Some b -> length b = vsize s v) ss ->
  forall vs b, enc_tuple (map enc ss) vs = Some b -> length b = vsize_tuple (map vsize ss) vs.
Proof.
  induction 1 as [|s ss Hs HF IH]; intros vs b E; cbn [map enc_tuple vsize_tuple] in *.
  - destruct vs; [|discriminate]. injection E as <-. reflexivity.
  - destruct vs as [|v vs]; [discriminate|]. apply opt_app_some in E. destruct E as (a & c & E1 & E2 & ->).
    rewrite app_length, (Hs _ _ E1), (IH _ _ E2). reflexivity.
Qed.

(* the bytes written have the length computed from the shape *)
Theorem enc_length_vsize : forall s v b, enc s v = Some b -> length b = vsize s v.
Proof.
  induction s as [k| | |s IH|s IH|l IH|] using schema_ind'; intros v b E.
  - destruct v; cbn [enc] in E; try discriminate.
    destruct (Nat.eqb_spec (length b0) k) as [L|]; [|discriminate]. injection E as <-. exact L.
  - destruct v; cbn [enc] in E; try discriminate. apply (enc_u64_length _ _ E).
  - destruct v; cbn [enc] in E; try discriminate. injection E as <-. reflexivity.
  - destruct v as [| | |o| | |]; cbn [enc] in E; try discriminate. destruct o as [x|].
    + apply opt_app_some in E. destruct E as (a & c & E1 & E2 & ->). injection E1 as <-.
      cbn [app length vsize]. rewrite (IH _ _ E2). reflexivity.
    + injection E as <-. reflexivity.
  - destruct v; cbn [enc] in E; try discriminate.
    apply opt_app_some in E. destruct E as (a & c & E1 & E2 & ->).
    rewrite app_length, (enc_u64_length _ _ E1), (enc_list_vsize s IH _ _ E2). reflexivity.
  - destruct v; cbn [enc] in E; try discriminate. cbn [vsize]. apply (enc_tuple_vsize l IH _ _ E).
  - destruct v; cbn [enc] in E; try discriminate.
    apply opt_app_some in E. destruct E as (a & c & E1 & E2 & ->). injection E2 as <-.
    rewrite app_length, (enc_u64_length _ _ E1). reflexivity.
Qed.

(* a vector of fixed-size elements *)
Lemma vsize_list_fixed (s : schema) (k : nat) :
  (forall v, vsize s v = k) -> forall l, vsize_list (vsize s) l = (length l * k)%nat.
Proof. intros H. induction l as [|x t IH]; cbn [vsize_list length]; [reflexivity|]. rewrite H, IH. lia. Qed.

Lemma vsize_prim k v : vsize (SPrim k) v = k. Proof. reflexivity. Qed.

Section Closed.
  Variables (g1 g2 f : nat).
  Let G1 := N.of_nat g1. Let G2 := N.of_nat g2. Let Fe := N.of_nat f.
  Ltac fin := cbn [vsize vsize_tuple map vsize_list]; unfold sz_opt, sz_vec; lia.

  (* KZG10 / Sonic commitment: one G1 element, whatever the polynomial *)
  Theorem kzg_commitment_size_spec c b : enc (kzg_commitment g1) (VTuple [c]) = Some b ->
    N.of_nat (length b) = kzg_commitment_size G1.
  Proof. intros E. rewrite (enc_length_vsize _ _ _ E). unfold kzg_commitment, kzg_commitment_size, G1. fin. Qed.

  (* Marlin / PST13 / IPA commitment: one element, plus one iff a degree bound is enforced *)
  Theorem marlin_commitment_size_spec c sh b :
    enc (marlin_commitment g1) (VTuple [VTuple [c]; VOption (option_map (fun x => VTuple [x]) sh)]) = Some b ->
    N.of_nat (length b) = marlin_commitment_size G1 (match sh with Some _ => true | None => false end).
  Proof.
    intros E. rewrite (enc_length_vsize _ _ _ E). unfold marlin_commitment, kzg_commitment, marlin_commitment_size, G1.
    destruct sh; cbn [option_map]; fin.
  Qed.

  Theorem ipa_commitment_size_spec c sh b : enc (ipa_commitment g1) (VTuple [c; VOption sh]) = Some b ->
    N.of_nat (length b) = ipa_commitment_size G1 (match sh with Some _ => true | None => false end).
  Proof.
    intros E. rewrite (enc_length_vsize _ _ _ E). unfold ipa_commitment, ipa_commitment_size, G1. destruct sh; fin.
  Qed.

  (* KZG10 / Marlin / Sonic opening proof: one element and an optional scalar, whatever the polynomials and the point *)
  Theorem kzg_proof_size_spec w rv b : enc (kzg_proof g1 f) (VTuple [w; VOption rv]) = Some b ->
    N.of_nat (length b) = kzg_proof_size G1 Fe (match rv with Some _ => true | None => false end).
  Proof.
    intros E. rewrite (enc_length_vsize _ _ _ E). unfold kzg_proof, kzg_proof_size, G1, Fe. destruct rv; fin.
  Qed.

  (* PST13: one G1 element per variable *)
  Theorem pst13_proof_size_spec ws rv b : enc (pst13_proof g1 f) (VTuple [VVec ws; VOption rv]) = Some b ->
    N.of_nat (length b) = pst13_proof_size G1 Fe (N.of_nat (length ws)) (match rv with Some _ => true | None => false end).
  Proof.
    intros E. rewrite (enc_length_vsize _ _ _ E). unfold pst13_proof, pst13_proof_size, G1, Fe.
    cbn [vsize vsize_tuple map]. rewrite (vsize_list_fixed (SPrim g1) g1 (vsize_prim g1)). destruct rv; unfold sz_opt, sz_vec; cbn [vsize]; lia.
  Qed.

  (* multilinear PST: commitment (num_vars, G1), proof one G2 element per variable *)
  Theorem mlpc_proof_size_spec ws b : enc (mlpc_proof g2) (VTuple [VVec ws]) = Some b ->
    N.of_nat (length b) = mlpc_proof_size G2 (N.of_nat (length ws)).
  Proof.
    intros E. rewrite (enc_length_vsize _ _ _ E). unfold mlpc_proof, mlpc_proof_size, G2.
    cbn [vsize vsize_tuple map]. rewrite (vsize_list_fixed (SPrim g2) g2 (vsize_prim g2)). unfold sz_vec. lia.
  Qed.
  Theorem mlpc_commitment_size_spec nv c b : enc (mlpc_commitment g1) (VTuple [nv; c]) = Some b ->
    N.of_nat (length b) = mlpc_commitment_size G1.
  Proof. intros E. rewrite (enc_length_vsize _ _ _ E). unfold mlpc_commitment, mlpc_commitment_size, G1. fin. Qed.

  (* IPA: two G1 elements per halving round *)
  Theorem ipa_proof_size_spec ls rs k c hc rd b :
    enc (ipa_proof g1 f) (VTuple [VVec ls; VVec rs; k; c; VOption hc; VOption rd]) = Some b ->
    length ls = length rs -> (match hc, rd with Some _, Some _ | None, None => True | _, _ => False end) ->
    N.of_nat (length b) = ipa_proof_size G1 Fe (N.of_nat (length ls)) (match hc with Some _ => true | None => false end).
  Proof.
    intros E L Hh. rewrite (enc_length_vsize _ _ _ E). unfold ipa_proof, ipa_proof_size, G1, Fe.
    cbn [vsize vsize_tuple map]. rewrite !(vsize_list_fixed (SPrim g1) g1 (vsize_prim g1)), <- L.
    destruct hc, rd; try contradiction; unfold sz_opt, sz_vec; cbn [vsize]; lia.
  Qed.

  (* Hyrax: one G1 element per row, 2^(n/2) rows; proof 3 elements, one row of scalars and 3 scalars *)
  Theorem hyrax_commitment_size_spec rows b : enc (hyrax_commitment g1) (VTuple [VVec rows]) = Some b ->
    N.of_nat (length b) = sz_vec (N.of_nat (length rows)) G1.
  Proof.
    intros E. rewrite (enc_length_vsize _ _ _ E). unfold hyrax_commitment, G1.
    cbn [vsize vsize_tuple map]. rewrite (vsize_list_fixed (SPrim g1) g1 (vsize_prim g1)). unfold sz_vec. lia.
  Qed.
  Theorem hyrax_proof_size_spec a b0 c z zd zb re b : enc (hyrax_proof g1 f) (VTuple [a; b0; c; VVec z; zd; zb; re]) = Some b ->
    N.of_nat (length b) = (3 * G1 + sz_vec (N.of_nat (length z)) Fe + 3 * Fe)%N.
  Proof.
    intros E. rewrite (enc_length_vsize _ _ _ E). unfold hyrax_proof, G1, Fe.
    cbn [vsize vsize_tuple map]. rewrite (vsize_list_fixed (SPrim f) f (vsize_prim f)). unfold sz_vec. lia.
  Qed.

  (* linear codes: the commitment is three counters and a digest *)
  Theorem lincode_commitment_size_spec a b0 c root b :
    enc lincode_commitment (VTuple [VTuple [a; b0; c]; VBytes root]) = Some b ->
    N.of_nat (length b) = lincode_commitment_size (N.of_nat (length root)).
  Proof. intros E. rewrite (enc_length_vsize _ _ _ E). unfold lincode_commitment, lincode_commitment_size. fin. Qed.

  (* a Merkle path with `depth` inner digests of d bytes *)
  Definition path_shape (d depth : nat) (p : value) : Prop :=
    exists ls ap idx, p = VTuple [VBytes ls; VVec ap; idx] /\ length ls = d /\ length ap = depth /\
                      Forall (fun x => exists bs, x = VBytes bs /\ length bs = d) ap.
  Lemma path_vsize d depth p : path_shape d depth p ->
    N.of_nat (vsize merkle_path p) = merkle_path_size (N.of_nat d) (N.of_nat depth).
  Proof.
    intros (ls & ap & idx & -> & Ll & La & Hap). unfold merkle_path_size, sz_vec.
    change (vsize merkle_path (VTuple [VBytes ls; VVec ap; idx])) with ((8 + length ls) + ((8 + vsize_list (vsize SBytes) ap) + (8 + 0)))%nat.
    rewrite Ll.
    assert (E : vsize_list (vsize SBytes) ap = (length ap * (8 + d))%nat).
    { clear La. induction Hap as [|x t (bs & -> & Lb) _ IH]; cbn [vsize_list length]; [reflexivity|]. rewrite IH. cbn [vsize]. rewrite Lb. lia. }
    rewrite E, La. lia.
  Qed.

  Lemma paths_vsize d depth paths : Forall (path_shape d depth) paths ->
    N.of_nat (vsize_list (vsize merkle_path) paths) = (N.of_nat (length paths) * merkle_path_size (N.of_nat d) (N.of_nat depth))%N.
  Proof.
    induction 1 as [|p t Hpp _ IH]; cbn [vsize_list length]; [reflexivity|].
    rewrite Nat2N.inj_add, IH, (path_vsize _ _ _ Hpp). lia.
  Qed.

  Lemma cols_vsize n_rows cols : Forall (fun c => exists l, c = VVec l /\ length l = n_rows) cols ->
    vsize_list (vsize (SVec (SPrim f))) cols = (length cols * (8 + n_rows * f))%nat.
  Proof.
    induction 1 as [|c t (l & -> & Ll) _ IH]; cbn [vsize_list length]; [reflexivity|]. rewrite IH. cbn [vsize].
    rewrite (vsize_list_fixed (SPrim f) f (vsize_prim f)), Ll. lia.
  Qed.

  (* the proof: t paths, a row combination of n_cols scalars, t columns of n_rows scalars, optional well-formedness row *)
  Theorem lincode_proof_size_spec d depth paths v cols wf b :
    enc (lincode_proof f) (VTuple [VTuple [VVec paths; VVec v; VVec cols]; VOption wf]) = Some b ->
    Forall (path_shape d depth) paths -> length cols = length paths ->
    forall n_rows, Forall (fun c => exists l, c = VVec l /\ length l = n_rows) cols ->
    (match wf with Some w => exists l, w = VVec l /\ length l = length v | None => True end) ->
    N.of_nat (length b) =
    lincode_proof_size Fe (N.of_nat d) (N.of_nat n_rows) (N.of_nat (length v)) (N.of_nat (length paths)) (N.of_nat depth)
                       (match wf with Some _ => true | None => false end).
  Proof.
    intros E Hp. pose proof (paths_vsize d depth paths Hp) as E1.
    intros Lc n_rows Hc Hw. rewrite (enc_length_vsize _ _ _ E). unfold lincode_proof_size, Fe.
    pose proof (cols_vsize n_rows cols Hc) as E2.
    change (vsize (lincode_proof f) (VTuple [VTuple [VVec paths; VVec v; VVec cols]; VOption wf])) with
        (((8 + vsize_list (vsize merkle_path) paths) + ((8 + vsize_list (vsize (SPrim f)) v)
          + ((8 + vsize_list (vsize (SVec (SPrim f))) cols) + 0))) + (vsize (SOption (SVec (SPrim f))) (VOption wf) + 0))%nat.
    rewrite (vsize_list_fixed (SPrim f) f (vsize_prim f)), E2, Lc.
    unfold sz_vec, sz_opt. destruct wf as [w|].
    - destruct Hw as (l & -> & Ll).
      change (vsize (SOption (SVec (SPrim f))) (VOption (Some (VVec l)))) with (S (8 + vsize_list (vsize (SPrim f)) l)).
      rewrite (vsize_list_fixed (SPrim f) f (vsize_prim f)), Ll. lia.
    - change (vsize (SOption (SVec (SPrim f))) (VOption None)) with 1%nat. lia.
  Qed.
End Closed.

(* ---------------- succinctness as inequalities ---------------- *)
(* per-variable / per-round / square-root growth are visible in the closed forms; the code-based
   schemes: on the ladder of the property the shape chosen by compute_dimensions is within 4x of the best
   power-of-two row count (same formula, shapes with fewer openings than codeword columns) *)
Definition bls_r : N := 52435875175126190479447740508185965837690552500527637822603658699938581184513%N.
(* univariate Ligero (rate 1/4): degrees 2, 4, ..., 256; multilinear Ligero (rate 1/2): 2..12 variables *)
Definition ladder_uni : list N := [3; 5; 9; 17; 33; 65; 129; 257]%N.
Definition ladder_ml : list N := [4; 8; 16; 32; 64; 128; 256; 512; 1024; 2048; 4096]%N.

Theorem ligero_within_4x_on_ladder :
  forallb (fun n => within_4x 128 4 bls_r 3000 32 32 true n && within_4x 128 4 bls_r 3000 32 32 false n) ladder_uni
  && forallb (fun n => within_4x 128 2 bls_r 3000 32 32 true n && within_4x 128 2 bls_r 3000 32 32 false n) ladder_ml = true.
Proof. vm_compute. reflexivity. Qed.

Theorem ligero_uni_within_4x n : In n ladder_uni ->
  within_4x 128 4 bls_r 3000 32 32 true n = true /\ within_4x 128 4 bls_r 3000 32 32 false n = true.
Proof.
  intros H. pose proof ligero_within_4x_on_ladder as G. apply andb_true_iff in G. destruct G as [G _].
  rewrite forallb_forall in G. specialize (G _ H). apply andb_true_iff in G. exact G.
Qed.

Theorem ligero_ml_within_4x n : In n ladder_ml ->
  within_4x 128 2 bls_r 3000 32 32 true n = true /\ within_4x 128 2 bls_r 3000 32 32 false n = true.
Proof.
  intros H. pose proof ligero_within_4x_on_ladder as G. apply andb_true_iff in G. destruct G as [_ G].
  rewrite forallb_forall in G. specialize (G _ H). apply andb_true_iff in G. exact G.
Qed.
