(* The trait-default check_combinations compares EVERY queried (combination, point) claim (C02 / C06, after seed S64): the loop
   over the equation queries lets the batch check run only if, for every query whose label names a combination, the claimed
   value was found and equals the combination of the transmitted evaluations at that query's point. *)
From Coq Require Import List Arith NArith Bool Lia.
From PC Require Import Base.Field Base.Result Base.Poly Base.OrdMap Schemes.LC Schemes.DefaultBatch.
Import ListNotations.

Section DefaultLCSound.
  Context {FO : FieldOps} {FL : FieldLaws FO}.

  Theorem eqn_loop_none_inv (lcm : list (N * lc)) (pev eqn_ev : list (pkey * F)) : forall qs : list query,
    eqn_loop lcm pev eqn_ev qs = None ->
    forall lab pl pt terms, In (lab, (pl, pt)) qs -> OrdMap.lookup N.compare lab lcm = Some terms ->
      exists claimed actual, lookup_pk (lab, pt) eqn_ev = Some claimed /\ lc_rhs pev pt terms f0 = Ok actual /\ claimed = actual.
  Proof.
    induction qs as [|[lab0 [pl0 pt0]] t IH]; intros H lab pl pt terms Hin Hl; [destruct Hin|].
    cbn [eqn_loop] in H.
    destruct Hin as [E|Hin].
    - injection E as -> -> ->. rewrite Hl in H.
      destruct (lookup_pk (lab, pt) eqn_ev) as [claimed|]; [|discriminate].
      destruct (lc_rhs pev pt terms f0) as [actual| |]; try discriminate.
      destruct (feqb claimed actual) eqn:Eq; [|discriminate].
      exists claimed, actual. repeat split. apply FL_eqb. exact Eq.
    - destruct (OrdMap.lookup N.compare lab0 lcm) as [terms0|]; [|exact (IH H lab pl pt terms Hin Hl)].
      destruct (lookup_pk (lab0, pt0) eqn_ev) as [claimed0|]; [|discriminate].
      destruct (lc_rhs pev pt0 terms0 f0) as [actual0| |]; try discriminate.
      destruct (feqb claimed0 actual0); [|discriminate].
      exact (IH H lab pl pt terms Hin Hl).
  Qed.

  (* so an accepting default check_combinations has compared every claim: acceptance implies every queried claim matches *)
  Theorem default_check_combinations_compares_every_claim (Comm Proof St : Type)
          (check : list Comm -> point -> list F -> Proof -> St -> res (bool * St))
          lcs cs eqn_qs eqn_ev proofs evs st st' :
    default_check_combinations Comm Proof St check lcs cs eqn_qs eqn_ev proofs (Some evs) st = Ok (true, st') ->
    forall lab pl pt terms, In (lab, (pl, pt)) eqn_qs -> OrdMap.lookup N.compare lab (lcs_map lcs) = Some terms ->
      exists claimed actual,
        lookup_pk (lab, pt) eqn_ev = Some claimed /\
        lc_rhs (combine (poly_point_keys (lc_qs_to_poly_qs (lcs_map lcs) eqn_qs)) evs) pt terms f0 = Ok actual /\ claimed = actual.
  Proof.
    unfold default_check_combinations. cbv zeta. intros H.
    destruct (eqn_loop (lcs_map lcs) _ eqn_ev eqn_qs) as [[b|e|]|] eqn:El.
    - injection H as -> _. (* the loop answered false or true itself: true is impossible *)
      exfalso. clear - El FL.
      revert El. generalize (combine (poly_point_keys (lc_qs_to_poly_qs (lcs_map lcs) eqn_qs)) evs) as pev.
      intros pev. induction eqn_qs as [|[lab0 [pl0 pt0]] t IH]; cbn [eqn_loop]; [discriminate|].
      destruct (OrdMap.lookup N.compare lab0 (lcs_map lcs)) as [terms0|]; [|exact IH].
      destruct (lookup_pk (lab0, pt0) eqn_ev) as [c0|]; [|discriminate].
      destruct (lc_rhs pev pt0 terms0 f0) as [a0| |]; try discriminate.
      destruct (feqb c0 a0); [exact IH|discriminate].
    - discriminate.
    - discriminate.
    - intros lab pl pt terms Hin Hl. exact (eqn_loop_none_inv _ _ _ _ El lab pl pt terms Hin Hl).
  Qed.
End DefaultLCSound.
