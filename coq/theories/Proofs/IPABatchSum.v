(* IPA batch_check as a weighted sum (C05): the one final-key comparison of the batch is, coordinate by coordinate, the
   randomizer-weighted sum of the final-key residuals of the groups (the first randomizer is 1, the others come from the
   verifier's RNG); so the batch accepts when every group's final key is right, and rejects when exactly one group's final key
   is wrong and its randomizer is non-zero - whatever the other randomizers are. *)
From Coq Require Import List Arith NArith Bool Lia Field Ring.
From PC Require Import Base.Field Base.Result Base.Poly Base.OrdMap Proofs.PolyFacts Schemes.LC Schemes.Marlin Schemes.MarlinLC Schemes.IPA Proofs.LCFacts
     Proofs.IPAFacts Proofs.IPAComplete Schemes.DefaultBatch Schemes.IPABatch Proofs.IPABatchFacts.
Import ListNotations.
Open Scope F_scope.

Section IPABatchSum.
  Context {FO : FieldOps} {FL : FieldLaws FO}.
  Add Field Ffield55 : FL_field.
  Variable d : nat.

  (* the final-key residual of one group: commitment to the check polynomial minus the proof's final key, along generator i *)
  Definition ikey_resid (i : nat) (chs : list F) (pf : IProof) : F :=
    co i (gmsm (key_of d) (compute_coeffs chs)) - co i (ip_key pf).
  Fixpoint iwsum (i : nat) (ws : list (F * list F * IProof)) : F :=
    match ws with [] => 0 | (w, chs, pf) :: t => w * ikey_resid i chs pf + iwsum i t end.

  Lemma iwsum_app i a b : iwsum i (a ++ b) = iwsum i a + iwsum i b.
  Proof. induction a as [|[[w chs] pf] a IH]; cbn [app iwsum]; [ring|]. rewrite IH. ring. Qed.

  (* the loop accumulates exactly the weighted residuals of the groups it processed, each with the randomizer in force *)
  Lemma ibc_loop_weighted cm ev : forall gs proofs chal hchal vtape rnd cp ck draws cp' ck' rest hrest dr,
    ibc_loop d cm ev gs proofs chal hchal vtape rnd cp ck draws = Ok (Some (cp', ck'), rest, hrest, dr) ->
    exists ws, (length ws <= length gs)%nat /\ map (fun t => fst (fst t)) ws = firstn (length ws) (rnd :: vtape) /\
      forall i, co i (gmsm (key_of d) cp') - co i ck' = (co i (gmsm (key_of d) cp) - co i ck) + iwsum i ws.
  Proof.
    induction gs as [|[pl [pt labels]] gs IH]; intros proofs chal hchal vtape rnd cp ck draws cp' ck' rest hrest dr H.
    - cbn [ibc_loop] in H. injection H as <- <- _ _ _. exists []. cbn [length map firstn iwsum]. repeat split; [lia|]. intros i. ring.
    - destruct proofs as [|pf proofs]; cbn [ibc_loop] in H.
      + injection H as <- <- _ _ _. exists []. cbn [length map firstn iwsum]. repeat split; [lia|]. intros i. ring.
      + destruct (gather_v _ cm ev pt labels) as [cv| |]; cbn [bind] in H; try discriminate.
        destruct pt as [|z [|? ?]]; try discriminate.
        destruct (negb _ || negb _); [discriminate|].
        destruct (i_succinct_check d (fst cv) z (snd cv) pf chal hchal) as [[[o r1] h1]| |] eqn:Es; cbn [bind] in H; try discriminate.
        destruct o as [chs|]; [|discriminate].
        destruct vtape as [|x vt']; [discriminate|].
        destruct (IH _ _ _ _ _ _ _ _ _ _ _ _ _ H) as (ws & Lw & Hw & Hs).
        exists ((rnd, chs, pf) :: ws). cbn [length map fst firstn]. split; [lia|]. split; [f_equal; exact Hw|].
        intros i. rewrite (Hs i). cbn [iwsum]. unfold ikey_resid.
        rewrite co_gmsm_padd_scaled_trim, co_gvadd, co_gvscale. ring.
  Qed.

  Theorem ipa_batch_is_weighted_sum cs qs ev proofs chal hchal vtape b rest hrest dr :
    i_batch_check d cs qs ev proofs chal hchal vtape = Ok (b, rest, hrest, dr) ->
    (exists r h n, ibc_loop d (label_map cs) ev (groups qs) proofs chal hchal vtape 1 [] [] O = Ok (None, r, h, n)) \/
    exists ws, (length ws <= length (groups qs))%nat /\ map (fun t => fst (fst t)) ws = firstn (length ws) (1 :: vtape) /\
               (b = true <-> forall i, iwsum i ws = 0).
  Proof.
    intros H. unfold i_batch_check in H.
    destruct (negb (length proofs =? length (groups qs))%nat); [discriminate|].
    destruct (ibc_loop d (label_map cs) ev (groups qs) proofs chal hchal vtape 1 [] [] O) as [[[[o r] h] n]| |] eqn:E; cbn [bind] in H; try discriminate.
    destruct o as [[cp ck]|].
    - right. injection H as <- _ _ _.
      destruct (ibc_loop_weighted _ _ _ _ _ _ _ _ _ _ _ _ _ _ _ _ E) as (ws & Lw & Hw & Hs).
      exists ws. split; [exact Lw|]. split; [exact Hw|].
      assert (G0 : forall K : list gv, gmsm K [] = []) by (intros [|? ?]; reflexivity).
      split.
      + intros Hz i. pose proof (proj1 (gvzero_co _) Hz i) as Z. rewrite co_gvsub, (Hs i), G0, co_nil in Z.
        transitivity (0 - 0 + iwsum i ws); [ring|exact Z].
      + intros Hall. apply gvzero_co. intros i. rewrite co_gvsub, (Hs i), G0, co_nil, (Hall i). ring.
    - left. exists r, h, n. reflexivity.
  Qed.

  (* exactly one group with a wrong final key, weighted by a non-zero randomizer: the weighted sum is not zero *)
  Theorem iwsum_one_false i pre w chs pf post :
    (forall t, In t (pre ++ post) -> ikey_resid i (snd (fst t)) (snd t) = 0) ->
    w <> 0 -> ikey_resid i chs pf <> 0 ->
    iwsum i (pre ++ (w, chs, pf) :: post) <> 0.
  Proof.
    intros Hz Hw Hr.
    assert (Z : forall l, (forall t, In t l -> ikey_resid i (snd (fst t)) (snd t) = 0) -> iwsum i l = 0).
    { induction l as [|[[w0 c0] p0] l IH]; intros Hl; cbn [iwsum]; [reflexivity|].
      pose proof (Hl (w0, c0, p0) (or_introl eq_refl)) as E0. cbn [fst snd] in E0.
      rewrite E0, IH by (intros t Ht; apply Hl; right; exact Ht). ring. }
    rewrite iwsum_app. cbn [iwsum].
    rewrite (Z pre) by (intros t Ht; apply Hz; apply in_or_app; left; exact Ht).
    rewrite (Z post) by (intros t Ht; apply Hz; apply in_or_app; right; exact Ht).
    intros E. apply (fmul_neq_0 _ _ Hw Hr). transitivity (0 + (w * ikey_resid i chs pf + 0)); [ring|exact E].
  Qed.
End IPABatchSum.
