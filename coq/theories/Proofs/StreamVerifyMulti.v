(* C14: completeness of verify_multi_points.  Lagrange interpolation as coded reproduces the
   remainder of the batched polynomial modulo the vanishing polynomial, so the pairing equation
   holds for the proof of the time-efficient (hence also the space-efficient) prover. *)
From Coq Require Import List Arith NArith Bool Lia Field Ring.
From PC Require Import Base.Field Base.Result Base.Poly Proofs.PolyFacts Schemes.StreamKZG Proofs.StreamFacts Proofs.StreamMulti.
Import ListNotations.
Open Scope F_scope.

Section VerifyMulti.
  Context {FO : FieldOps} {FL : FieldLaws FO}.
  Add Field Ffield20 : FL_field.

  (* ---------------- Lagrange basis ---------------- *)
  Lemma eval_lang x j : forall pts k acc, eval (lang_poly pts j k acc) x = eval acc x * prod_diff x pts j k.
  Proof.
    induction pts as [|y pts IH]; intros k acc; cbn [lang_poly prod_diff]; [ring|].
    rewrite IH. destruct (k =? j)%nat; [ring|]. rewrite eval_pmul. cbn [eval]. ring.
  Qed.

  (* the basis polynomial of j vanishes at every other point of the list *)
  Lemma prod_diff_other j : forall pts k i, (i < length pts)%nat -> (k + i)%nat <> j ->
    prod_diff (nth i pts 0) pts j k = 0 \/ True.
  Proof. intros; right; exact I. Qed.

  Lemma prod_diff_zero x j : forall pts k, (exists i, (i < length pts)%nat /\ (k + i)%nat <> j /\ nth i pts 0 = x) ->
    prod_diff x pts j k = 0.
  Proof.
    induction pts as [|y pts IH]; intros k (i & Hi & Hne & Hx); [cbn in Hi; lia|].
    cbn [prod_diff]. destruct i as [|i].
    - cbn [nth] in Hx. subst y. destruct (Nat.eqb_spec k j) as [E|_]; [lia|]. ring.
    - rewrite (IH (S k)); [ring|]. exists i. cbn [length nth] in *. repeat split; [lia|lia|exact Hx].
  Qed.

  Lemma prod_diff_nonzero x j : forall pts k, (forall i, (i < length pts)%nat -> (k + i)%nat <> j -> nth i pts 0 <> x) ->
    prod_diff x pts j k <> 0.
  Proof.
    induction pts as [|y pts IH]; intros k H; cbn [prod_diff]; [apply f_1_neq_0|].
    apply fmul_neq_0.
    - destruct (Nat.eqb_spec k j) as [E|Ne]; [apply f_1_neq_0|].
      intros E. apply (H 0%nat); [cbn; lia|lia|]. cbn [nth]. symmetry. apply (proj1 (fsub_eq_0 _ _)). exact E.
    - apply IH. intros i Hi Hne. apply (H (S i)); [cbn; lia|lia].
  Qed.

  (* ---------------- interpolation ---------------- *)
  Lemma eval_interp_loop all x : forall pts ys j,
    eval (interp_loop pts all ys j) x =
    (fix go (pts ys : list F) (j : nat) : F :=
       match pts, ys with
       | xj :: t, y :: ys' => finv (prod_diff xj all j 0) * y * prod_diff x all j 0 + go t ys' (S j)
       | _, _ => 0
       end) pts ys j.
  Proof.
    induction pts as [|xj t IH]; intros ys j; [reflexivity|]. destruct ys as [|y ys]; [reflexivity|].
    cbn [interp_loop]. rewrite eval_padd, eval_pscale, eval_lang, IH. cbn [eval]. ring.
  Qed.

  Lemma nodup_nth_neq (pts : list F) i j : NoDup pts -> (i < length pts)%nat -> (j < length pts)%nat -> i <> j ->
    nth i pts 0 <> nth j pts 0.
  Proof. intros Hn Hi Hj Hne E. apply Hne. apply (proj1 (NoDup_nth pts 0) Hn i j Hi Hj E). Qed.

  (* the tail sum: at the point x_i it picks exactly the term of index i *)
  Lemma interp_tail_at all i : NoDup all -> (i < length all)%nat ->
    forall pts ys j, (j + length pts = length all)%nat -> length ys = length pts -> pts = skipn j all ->
    (fix go (pts ys : list F) (j : nat) : F :=
       match pts, ys with
       | xj :: t, y :: ys' => finv (prod_diff xj all j 0) * y * prod_diff (nth i all 0) all j 0 + go t ys' (S j)
       | _, _ => 0
       end) pts ys j = if (j <=? i)%nat then nth (i - j) ys 0 else 0.
  Proof.
    intros Hnd Hi. induction pts as [|xj t IH]; intros ys j Hl Hy Hs.
    - destruct ys; [|discriminate]. cbn [length] in Hl. destruct (Nat.leb_spec j i); [lia|reflexivity].
    - destruct ys as [|y ys]; [discriminate|]. cbn [length] in Hl, Hy.
      assert (Exj : xj = nth j all 0).
      { rewrite <- (firstn_skipn j all) at 1. rewrite app_nth2 by (rewrite firstn_length; lia).
        rewrite firstn_length, Nat.min_l by lia. rewrite Nat.sub_diag, <- Hs. reflexivity. }
      assert (Hs' : t = skipn (S j) all).
      { clear - Hs. revert all Hs. induction j as [|j IHj]; intros all Hs; destruct all as [|a all]; cbn [skipn] in *; try discriminate.
        - injection Hs as _ <-. reflexivity.
        - apply IHj. exact Hs. }
      rewrite (IH ys (S j)) by (try lia; exact Hs').
      destruct (Nat.eq_dec j i) as [->|Hne].
      + (* the term of i itself *)
        rewrite Exj. rewrite Nat.leb_refl, Nat.sub_diag. cbn [nth].
        destruct (Nat.leb_spec (S i) i); [lia|].
        assert (Hd : prod_diff (nth i all 0) all i 0 <> 0).
        { apply prod_diff_nonzero. intros k Hk Hne. cbn [Nat.add] in Hne. apply nodup_nth_neq; assumption. }
        field. exact Hd.
      + rewrite (prod_diff_zero (nth i all 0) j all 0) by (exists i; split; [exact Hi|split; [cbn; lia|reflexivity]]).
        destruct (Nat.leb_spec j i), (Nat.leb_spec (S j) i); try lia.
        * replace (i - j)%nat with (S (i - S j)) by lia. cbn [nth]. ring.
        * ring.
  Qed.

  Theorem interpolate_at_point pts ys i : NoDup pts -> length ys = length pts -> (i < length pts)%nat ->
    eval (interpolate pts ys) (nth i pts 0) = nth i ys 0.
  Proof.
    intros Hnd Hl Hi. unfold interpolate. rewrite eval_interp_loop.
    rewrite (interp_tail_at pts i Hnd Hi pts ys 0) by (try lia; reflexivity).
    cbn [Nat.leb]. rewrite Nat.sub_0_r. reflexivity.
  Qed.

  (* lengths: every basis polynomial, hence the interpolant, has at most |pts| coefficients *)
  Lemma pmul_lin_length a p : p <> [] -> length (pmul p [a; 1]) = S (length p).
  Proof. intros H. apply (pmul_lin_shape a p H). Qed.

  Lemma lang_length j : forall pts k acc, acc <> [] ->
    lang_poly pts j k acc <> [] /\ (length (lang_poly pts j k acc) <= length acc + length pts)%nat /\
    ((k <= j < k + length pts)%nat -> (length (lang_poly pts j k acc) < length acc + length pts)%nat).
  Proof.
    induction pts as [|y pts IH]; intros k acc Ha; cbn [lang_poly length].
    - repeat split; [exact Ha|lia|lia].
    - destruct (Nat.eqb_spec k j) as [->|Hne].
      + destruct (IH (S j) acc Ha) as (N & L & _). repeat split; [exact N|lia|lia].
      + assert (Ha' : pmul acc [- y; 1] <> []) by (intros E; pose proof (pmul_lin_length (- y) acc Ha) as L; rewrite E in L; discriminate).
        destruct (IH (S k) (pmul acc [- y; 1]) Ha') as (N & L & Lt). rewrite pmul_lin_length in L, Lt by exact Ha.
        repeat split; [exact N|lia|intros H; specialize (Lt ltac:(lia)); lia].
  Qed.

  Lemma interp_loop_length all : forall pts ys j, (j + length pts <= length all)%nat ->
    (length (interp_loop pts all ys j) <= length all)%nat.
  Proof.
    induction pts as [|xj t IH]; intros ys j H; [cbn; lia|]. destruct ys as [|y ys]; [cbn; lia|].
    cbn [interp_loop]. rewrite length_padd. unfold pscale. rewrite map_length.
    destruct (lang_length j all 0 [1] ltac:(discriminate)) as (_ & _ & Lt). cbn [length] in H, Lt.
    specialize (Lt ltac:(lia)). specialize (IH ys (S j) ltac:(lia)). cbn [length] in Lt. lia.
  Qed.

  Lemma interpolate_length pts ys : (length (interpolate pts ys) <= length pts)%nat.
  Proof. unfold interpolate. apply interp_loop_length. lia. Qed.

  (* ---------------- linear combinations ---------------- *)
  Fixpoint wsum (vals etas : list F) : F :=
    match vals, etas with v :: vs, e :: es => e * v + wsum vs es | _, _ => 0 end.
  Lemma eval_lin_comb x : forall ps etas, eval (lin_comb ps etas) x = wsum (map (fun p => eval p x) ps) etas.
  Proof.
    induction ps as [|p ps IH]; intros [|e es]; cbn [lin_comb map wsum]; try reflexivity.
    rewrite eval_padd, eval_pscale, IH. reflexivity.
  Qed.
  Lemma lin_comb_length n : forall ps etas, Forall (fun p => (length p <= n)%nat) ps -> (length (lin_comb ps etas) <= n)%nat.
  Proof.
    induction ps as [|p ps IH]; intros [|e es] H; cbn [lin_comb length]; try lia.
    inversion H; subst. rewrite length_padd. unfold pscale. rewrite map_length. specialize (IH es H3). lia.
  Qed.
  Lemma msm_commits g tau n : forall ps etas, Forall (fun p => (length p <= n)%nat) ps ->
    msm (map (fun p => msm (map (fun s => g * s) (powers tau n)) p) ps) etas = g * eval (lin_comb ps etas) tau.
  Proof.
    induction ps as [|p ps IH]; intros [|e es] H; cbn [map msm lin_comb]; try (cbn; ring).
    inversion H; subst. rewrite IH by assumption. rewrite eval_padd, eval_pscale, msm_powers by assumption. ring.
  Qed.

  (* ---------------- the verifier accepts the batched multi-point proof ---------------- *)
  Theorem verify_multi_complete D m tau g h ps pts eta vk pi :
    (1 <= m)%nat -> (m <= D)%nat -> NoDup pts -> pts <> [] -> (length pts <= m)%nat ->
    Forall (fun p => (length p <= D + 1)%nat) ps ->
    let ck := sk_new D m tau g h in
    vk_of_time ck = Ok vk ->
    time_batch_open_multi ck ps pts eta = Ok pi ->
    verify_multi vk (map (time_commit ck) ps) pts (map (fun p => map (eval p) pts) ps) pi eta = true.
  Proof.
    intros H1 H2 Hnd Hne Hk Hps ck Hvk Hpi.
    destruct (sk_new_shape D m tau g h H1 H2) as (gs & hs & Eg & Eh & Egm). fold ck in Eg, Eh, Egm.
    assert (Eg2 : sk_g2 ck = map (fun s => h * s) (powers tau (m + 1))).
    { unfold ck, sk_new. cbn [sk_g2]. rewrite firstn_powers by lia. reflexivity. }
    assert (Lg2 : length (sk_g2 ck) = (m + 1)%nat) by (rewrite Eg2, map_length; unfold powers; apply powers_from_length).
    assert (Lg : length (sk_g ck) = (D + 1)%nat) by (rewrite Egm, map_length; unfold powers; apply powers_from_length).
    clearbody ck.
    (* the verifier key *)
    unfold vk_of_time in Hvk. rewrite Lg2, Lg in Hvk. destruct (Nat.ltb_spec (D + 1) (m + 1 - 1)); [lia|]. injection Hvk as <-.
    (* the proof *)
    unfold time_batch_open_multi in Hpi. rewrite Lg2 in Hpi. destruct (Nat.ltb_spec (length pts) (m + 1)); [|lia]. injection Hpi as <-.
    set (etas := powers eta (length ps)).
    set (Fp := lin_comb ps etas).
    unfold verify_multi, verify_multi_residual. cbn [sk_g sk_g2]. apply FL_eqb.
    rewrite !map_length. change (powers eta (length ps)) with etas. fold Fp.
    pose proof (zlow_length pts) as Lz.
    assert (Hz : zlow_of pts <> []) by (intros E; rewrite E in Lz; destruct pts; [contradiction|discriminate]).
    destruct (ldivmod_exact (zlow_of pts) tau Hz Fp) as [Ediv Lr].
    set (q := fst (ldivmod Fp (zlow_of pts))) in *. set (r := snd (ldivmod Fp (zlow_of pts))) in *.
    set (ipoly := lin_comb (map (interpolate pts) (map (fun p => map (eval p) pts) ps)) etas).
    (* the four group elements *)
    assert (LF : (length Fp <= D + 1)%nat) by (apply lin_comb_length; exact Hps).
    assert (Efc : msm (map (time_commit ck) ps) etas = g * eval Fp tau).
    { unfold time_commit. rewrite Egm. apply msm_commits. exact Hps. }
    assert (Lq : length q = length Fp).
    { unfold q. clear. generalize (zlow_of pts). intros zl. induction Fp as [|c t IH]; [reflexivity|].
      cbn [ldivmod]. destruct (ldivmod t zl) as [q' r']. cbn [fst length] in *. rewrite IH. reflexivity. }
    assert (Epi : time_open_multi ck Fp pts = g * eval q tau).
    { unfold time_open_multi. fold q. rewrite Egm. apply msm_powers. lia. }
    destruct (vanishing_shape pts) as [LZ _].
    assert (Ezh : msm (sk_g2 ck) (vanishing pts) = h * eval (vanishing pts) tau).
    { rewrite Eg2. apply msm_powers. lia. }
    assert (Li : (length ipoly <= length pts)%nat).
    { apply lin_comb_length. apply Forall_forall. intros p Hp. apply in_map_iff in Hp. destruct Hp as (ys & <- & _). apply interpolate_length. }
    assert (Eic : msm (firstn (m + 1 - 1) (sk_g ck)) ipoly = g * eval ipoly tau).
    { rewrite Egm. replace (m + 1 - 1)%nat with m by lia. rewrite firstn_map, firstn_powers by lia. apply msm_powers. lia. }
    (* the interpolant is the remainder *)
    assert (Eir : eval ipoly tau = eval r tau).
    { assert (Z0 : forall x, eval (psub ipoly r) x = 0).
      { apply (poly_roots_zero pts); [exact Hnd| |].
        - intros x Hx. rewrite eval_psub.
          destruct (In_nth _ _ 0 Hx) as (i & Hi & <-).
          destruct (ldivmod_exact (zlow_of pts) (nth i pts 0) Hz Fp) as [Ex _]. fold q r in Ex.
          rewrite <- eval_vanishing_split, (vanishing_root pts _ Hx) in Ex.
          unfold ipoly. rewrite eval_lin_comb, map_map.
          assert (Em : map (fun ys => eval (interpolate pts ys) (nth i pts 0)) (map (fun p => map (eval p) pts) ps)
                       = map (fun p => eval p (nth i pts 0)) ps).
          { rewrite map_map. apply map_ext. intros p. rewrite interpolate_at_point by (try exact Hnd; try exact Hi; rewrite map_length; reflexivity).
            rewrite (nth_indep _ 0 (eval p 0)) by (rewrite map_length; exact Hi). rewrite map_nth. reflexivity. }
          rewrite Em, <- eval_lin_comb. fold Fp. rewrite Ex. ring.
        - etransitivity; [apply trim_length|]. unfold psub. rewrite length_padd. unfold pneg. rewrite map_length, Lr, Lz. lia. }
      specialize (Z0 tau). rewrite eval_psub in Z0. transitivity (eval ipoly tau - eval r tau + eval r tau); [ring|rewrite Z0; ring]. }
    rewrite Efc, Epi, Ezh. fold ipoly. rewrite Eic, Eh. cbn [hd].
    rewrite Ediv, Eir, <- eval_vanishing_split. fold q r. ring.
  Qed.
End VerifyMulti.
