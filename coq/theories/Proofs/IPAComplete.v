(* IPA end to end: commitments from commit (degree bounds, hiding, any RNG tape), the proof from open (any sponge
   challenges, any nonzero hash-derived round challenges, hiding polynomial from any RNG tape) are accepted by check
   for the true evaluations, and both challenge tapes are left where the prover left them. *)
From Coq Require Import List Arith NArith Bool Lia Field Ring.
From PC Require Import Base.Field Base.Result Base.Poly Proofs.PolyFacts Schemes.LC Schemes.Marlin Schemes.IPA Proofs.LCFacts Proofs.IPAFacts.
Import ListNotations.
Open Scope F_scope.

Section IPAComplete.
  Context {FO : FieldOps} {FL : FieldLaws FO}.
  Add Field Ffield25 : FL_field.

  (* ---------------- scalar products against polynomial arithmetic ---------------- *)
  Lemma dot_nil_r (a : list F) : dot a [] = 0.
  Proof. destruct a; reflexivity. Qed.
  Lemma dot_padd : forall p q k, dot (padd p q) k = dot p k + dot q k.
  Proof.
    induction p as [|a p IH]; intros q k.
    - cbn [padd dot]. ring.
    - destruct q as [|b q]; [cbn [padd dot]; destruct k; ring|].
      destruct k as [|y k]; cbn [padd dot]; [ring|]. rewrite IH. ring.
  Qed.
  Lemma dot_pscale c : forall p k, dot (pscale c p) k = c * dot p k.
  Proof.
    unfold pscale. induction p as [|a p IH]; intros [|y k]; cbn [map dot]; try ring. rewrite IH. ring.
  Qed.
  Lemma dot_padd_scaled p c q k : dot (padd_scaled p c q) k = dot p k + c * dot q k.
  Proof. unfold padd_scaled. rewrite dot_padd, dot_pscale. reflexivity. Qed.
  Lemma dot_trim : forall p k, dot (trim p) k = dot p k.
  Proof.
    induction p as [|c t IH]; intros k; [reflexivity|].
    rewrite trim_cons. destruct (trim t) as [|e t'] eqn:E.
    - destruct (fzerob c) eqn:Z.
      + apply fzerob_true in Z. subst c. destruct k as [|y k]; cbn [dot]; [reflexivity|]. rewrite <- IH. cbn [dot]. ring.
      + destruct k as [|y k]; cbn [dot]; [reflexivity|]. rewrite <- IH. reflexivity.
    - destruct k as [|y k]; cbn [dot]; [reflexivity|]. rewrite <- IH. reflexivity.
  Qed.
  Lemma dot_firstn : forall (a : list F) n k, (length a <= n)%nat -> dot a (firstn n k) = dot a k.
  Proof.
    induction a as [|x a IH]; intros n k H; [reflexivity|]. destruct n as [|n]; [cbn in H; lia|].
    destruct k as [|y k]; cbn [firstn dot]; [reflexivity|]. rewrite IH by (cbn in H; lia). reflexivity.
  Qed.
  Lemma dot_repeat0_app : forall n q k, dot (repeat 0 n ++ q) k = dot q (skipn n k).
  Proof.
    induction n as [|n IH]; intros q k; [reflexivity|].
    destruct k as [|y k]; cbn [repeat app dot skipn]; [rewrite dot_nil_r; reflexivity|]. rewrite IH. ring.
  Qed.
  Lemma dot_zeros : forall m k, dot (repeat 0 m) k = 0.
  Proof. induction m as [|m IH]; intros [|y k]; cbn [repeat dot]; try reflexivity. rewrite IH. ring. Qed.
  Lemma dot_app_zeros : forall t m k, dot (t ++ repeat 0 m) k = dot t k.
  Proof.
    induction t as [|x t IH]; intros m k; cbn [app].
    - rewrite dot_zeros. reflexivity.
    - destruct k as [|y k]; cbn [dot]; [reflexivity|]. rewrite IH. reflexivity.
  Qed.
  Lemma eval_zeros m z : eval (repeat 0 m) z = 0.
  Proof. induction m as [|m IH]; cbn [repeat eval]; [reflexivity|]. rewrite IH. ring. Qed.
  Lemma eval_app_zeros : forall t m z, eval (t ++ repeat 0 m) z = eval t z.
  Proof.
    induction t as [|x t IH]; intros m z; cbn [app eval]; [apply eval_zeros|]. rewrite IH. reflexivity.
  Qed.
  Lemma eval_repeat0_app : forall n q z, eval (repeat 0 n ++ q) z = eval q z * fpow z n.
  Proof.
    induction n as [|n IH]; intros q z; cbn [repeat app eval fpow]; [ring|]. rewrite IH. ring.
  Qed.

  (* ---------------- coefficients above a degree ---------------- *)
  Definition hz (n : nat) (p : poly) : Prop := forall j, (n <= j)%nat -> nth j p 0 = 0.
  Lemma hz_length n p : (length p <= n)%nat -> hz n p.
  Proof. intros H j Hj. apply nth_overflow. lia. Qed.
  Lemma nth_padd : forall p q j, nth j (padd p q) 0 = nth j p 0 + nth j q 0.
  Proof.
    induction p as [|a p IH]; intros q j.
    - cbn [padd]. destruct j; cbn [nth]; ring.
    - destruct q as [|b q]; [cbn [padd]; destruct j; cbn [nth]; ring|].
      destruct j as [|j]; cbn [padd nth]; [ring|]. apply IH.
  Qed.
  Lemma nth_pscale c : forall p j, nth j (pscale c p) 0 = c * nth j p 0.
  Proof.
    unfold pscale. induction p as [|a p IH]; intros [|j]; cbn [map nth]; try ring. apply IH.
  Qed.
  Lemma hz_padd_scaled n p c q : hz n p -> hz n q -> hz n (padd_scaled p c q).
  Proof.
    intros Hp Hq j Hj. unfold padd_scaled. rewrite nth_padd, nth_pscale, (Hp j Hj), (Hq j Hj). ring.
  Qed.
  Lemma hz_trim_length : forall p n, hz n p -> (length (trim p) <= n)%nat.
  Proof.
    induction p as [|c t IH]; intros n H; [cbn; lia|].
    rewrite trim_cons. destruct n as [|n].
    - assert (Hc : c = 0) by (exact (H 0%nat (le_n _))).
      assert (Ht : hz 0 t) by (intros j Hj; exact (H (S j) ltac:(lia))).
      pose proof (IH 0%nat Ht) as L. destruct (trim t) as [|e t']; [|cbn in L; lia].
      subst c. replace (fzerob 0) with true by (symmetry; apply fzerob_true; reflexivity). cbn; lia.
    - assert (Ht : hz n t) by (intros j Hj; exact (H (S j) ltac:(lia))).
      pose proof (IH n Ht) as L. destruct (trim t) as [|e t']; [destruct (fzerob c); cbn; lia|cbn [length] in *; lia].
  Qed.
  Lemma hz_degree p d : (degree p <= d)%nat -> (length (trim p) <= d + 1)%nat.
  Proof. unfold degree. lia. Qed.
  Lemma nth_trim : forall p j, nth j (trim p) 0 = nth j p 0.
  Proof.
    induction p as [|c t IH]; intros j; [reflexivity|].
    rewrite trim_cons. destruct (trim t) as [|e t'] eqn:E.
    - destruct (fzerob c) eqn:Z.
      + apply fzerob_true in Z. subst c. destruct j as [|j]; cbn [nth]; [reflexivity|]. rewrite <- IH. destruct j; reflexivity.
      + destruct j as [|j]; cbn [nth]; [reflexivity|]. rewrite <- IH. reflexivity.
    - destruct j as [|j]; cbn [nth]; [reflexivity|]. rewrite <- IH. reflexivity.
  Qed.
  Lemma hz_of_degree p d : (degree p <= d)%nat -> hz (d + 1) p.
  Proof.
    intros H j Hj. rewrite <- nth_trim. apply nth_overflow. unfold degree in H. lia.
  Qed.
  (* ---------------- what commit guarantees ---------------- *)
  Lemma check_dab_inv d p bound : i_check_dab d p bound = Ok tt ->
    (degree p <= d)%nat /\ (forall b, bound = Some b -> (degree p <= b)%nat /\ (b <= d)%nat).
  Proof.
    unfold i_check_dab. destruct (Nat.ltb_spec d (degree p)) as [|Hd]; [discriminate|].
    destruct bound as [b|]; [|intros _; split; [exact Hd|discriminate]].
    destruct (Nat.ltb_spec b (degree p)); cbn [orb]; [discriminate|].
    destruct (Nat.ltb_spec d b); [discriminate|]. intros _. split; [exact Hd|]. intros b' E. injection E as <-. split; assumption.
  Qed.

  Definition is_some {A} (o : option A) : bool := match o with Some _ => true | None => false end.

  Lemma commit1_inv d lp rng cm st n : i_commit1 d lp rng = Ok (cm, st, n) ->
    i_check_dab d (lp_poly lp) (lp_bound lp) = Ok tt /\
    ic_comm cm = gvadd (gmsm (firstn (degree (lp_poly lp) + 1) (key_of d)) (trim (lp_poly lp))) (gvscale (ir_rand st) (gs d)) /\
    ic_shifted cm = match lp_bound lp with Some b => Some (cm_at d (d - b) (trim (lp_poly lp)) (ir_shifted st)) | None => None end /\
    (lp_hiding lp = None -> ir_rand st = 0 /\ ir_shifted st = None) /\
    (is_some (lp_hiding lp) = true -> is_some (ir_shifted st) = is_some (lp_bound lp)).
  Proof.
    unfold i_commit1. destruct (i_check_dab d (lp_poly lp) (lp_bound lp)) as [[]| |]; cbn [bind]; try discriminate.
    destruct (lp_hiding lp) as [hb|].
    - destruct rng as [tape|]; cbn [bind]; [|discriminate].
      destruct (lp_bound lp) as [b|].
      + destruct (length tape <? 2)%nat; cbn [bind]; [discriminate|]. intros H. injection H as <- <- <-.
        cbn. repeat split; try reflexivity; discriminate.
      + destruct (length tape <? 1)%nat; cbn [bind]; [discriminate|]. intros H. injection H as <- <- <-.
        cbn. repeat split; try reflexivity; discriminate.
    - cbn [bind]. intros H. injection H as <- <- <-. cbn. repeat split; try reflexivity; discriminate.
  Qed.

  (* ---------------- the accumulation loops of prover and verifier ---------------- *)
  Definition honest (d : nat) (it : LPoly * option nat * IComm * IRand) : Prop :=
    let '(lp, cb, cm, st) := it in cb = lp_bound lp /\ exists rng n, i_commit1 d lp rng = Ok (cm, st, n).
  Definition cs_of (items : list (LPoly * option nat * IComm * IRand)) : list (IComm * option nat) :=
    map (fun it => let '(lp, cb, cm, st) := it in (cm, cb)) items.
  Definition vs_of (z : F) (items : list (LPoly * option nat * IComm * IRand)) : list F :=
    map (fun it => let '(lp, cb, cm, st) := it in eval (lp_poly lp) z) items.

  (* what the opening actually needs of an item (free-module view): the commitment is, coordinate by coordinate, the key-defined
     linear map of the polynomial plus the blinding term; the shifted part likewise for the shifted polynomial.  Commitments made
     by commit satisfy it (honest_sem); so do the combined items of open_combinations, which commit never made. *)
  Definition sem_honest (d : nat) (it : LPoly * option nat * IComm * IRand) : Prop :=
    let '(lp, cb, cm, st) := it in
    cb = lp_bound lp /\
    i_check_dab d (lp_poly lp) (lp_bound lp) = Ok tt /\
    (forall i, co i (ic_comm cm) = dot (lp_poly lp) (map (co i) (key_of d)) + ir_rand st * co i (gs d)) /\
    match lp_bound lp with
    | Some b => exists sc, ic_shifted cm = Some sc /\
                  forall i, co i sc = dot (repeat 0 (d - b) ++ trim (lp_poly lp)) (map (co i) (key_of d))
                                      + match ir_shifted st with Some x => x | None => 0 end * co i (gs d)
    | None => ic_shifted cm = None
    end /\
    (lp_hiding lp = None -> ir_rand st = 0 /\ ir_shifted st = None) /\
    (is_some (lp_hiding lp) = true -> is_some (ir_shifted st) = is_some (lp_bound lp)).

  Definition Inv (d : nat) (a : oacc) : Prop :=
    hz (d + 1) (oa_p a) /\ (oa_hid a = false -> oa_r a = 0) /\
    forall i, co i (oa_c a) = dot (oa_p a) (map (co i) (key_of d)) + oa_r a * co i (gs d).

  Lemma co_commit d i p r : (degree p <= d)%nat ->
    co i (gvadd (gmsm (firstn (degree p + 1) (key_of d)) (trim p)) (gvscale r (gs d)))
    = dot p (map (co i) (key_of d)) + r * co i (gs d).
  Proof.
    intros Hd. rewrite co_gvadd, co_gvscale, co_gmsm, <- firstn_map, dot_firstn, dot_trim; [ring|]. unfold degree. lia.
  Qed.
  Lemma co_cm_at d i off p r :
    co i (cm_at d off (trim p) r)
    = dot (repeat 0 off ++ trim p) (map (co i) (key_of d)) + match r with Some x => x | None => 0 end * co i (gs d).
  Proof.
    unfold cm_at. rewrite dot_repeat0_app, skipn_map.
    destruct r as [x|]; [rewrite co_gvadd, co_gvscale|]; rewrite co_gmsm; ring.
  Qed.
  Lemma honest_sem d it : honest d it -> sem_honest d it.
  Proof.
    destruct it as [[[lp cb] cm] st]. intros (Ecb & rng & n & Hc).
    destruct (commit1_inv _ _ _ _ _ _ Hc) as (Hdab & Ecomm & Eshift & Hnh & Hhs).
    destruct (check_dab_inv _ _ _ Hdab) as (Hdeg & Hb).
    unfold sem_honest. split; [exact Ecb|]. split; [exact Hdab|]. split.
    { intros i. rewrite Ecomm. apply co_commit. exact Hdeg. }
    split; [|split; assumption].
    rewrite Eshift. destruct (lp_bound lp) as [b|]; [|reflexivity].
    eexists. split; [reflexivity|]. intros i. apply co_cm_at.
  Qed.

  Lemma commit1_sem_honest d lp rng cm st n : i_commit1 d lp rng = Ok (cm, st, n) -> sem_honest d (lp, lp_bound lp, cm, st).
  Proof. intros H. apply honest_sem. split; [reflexivity|]. exists rng, n. exact H. Qed.

  Lemma shift_poly_dot d p b k : dot (i_shift_poly d p b) k = dot (repeat 0 (d - b) ++ trim p) k.
  Proof.
    unfold i_shift_poly, is_zero_poly. destruct (trim p) as [|c t]; [|reflexivity].
    rewrite app_nil_r, dot_zeros. reflexivity.
  Qed.
  Lemma shift_poly_eval d p b z : eval (i_shift_poly d p b) z = eval p z * fpow z (d - b).
  Proof.
    unfold i_shift_poly, is_zero_poly. destruct (trim p) as [|c t] eqn:E.
    - rewrite (trim_nil_eval p E). cbn [eval]. ring.
    - rewrite eval_repeat0_app, <- E, eval_trim. reflexivity.
  Qed.
  Lemma shift_poly_hz d p b : (degree p <= b)%nat -> (b <= d)%nat -> hz (d + 1) (i_shift_poly d p b).
  Proof.
    intros H1 H2. unfold i_shift_poly, is_zero_poly, degree in *. destruct (trim p) as [|c t] eqn:E.
    - apply hz_length. cbn; lia.
    - apply hz_length. rewrite app_length, repeat_length. cbn [length] in *. lia.
  Qed.
  Lemma ok3 {A B C} (x : A) (y y' : B) (c : C) : y = y' -> @Ok (A * B * C) (x, y, c) = Ok (x, y', c).
  Proof. intros ->. reflexivity. Qed.

  Lemma loop_sim d z : forall items cur chal a cv a' cur' chal',
    Forall (sem_honest d) items -> Inv d a ->
    i_open_loop d items cur chal a = Ok (a', cur', chal') ->
    Inv d a' /\
    i_sc_loop d z (cs_of items) (vs_of z items) cur chal (oa_c a) cv
      = Ok (oa_c a', cv + (eval (oa_p a') z - eval (oa_p a) z), chal').
  Proof.
    induction items as [|it items IH]; intros cur chal a cv a' cur' chal' Hh HI H.
    - cbn [i_open_loop] in H. injection H as <- <- <-. split; [exact HI|]. cbn.
      replace (cv + (eval (oa_p a) z - eval (oa_p a) z)) with cv by ring. reflexivity.
    - destruct it as [[[lp cb] cm] st]. inversion Hh as [|? ? Hit Hh']; subst.
      destruct Hit as (Ecb & Hdab & Ecomm & Eshift & Hnh & Hhs). subst cb.
      destruct (check_dab_inv _ _ _ Hdab) as (Hdeg & Hb).
      destruct HI as (HI1 & HI2 & HI3).
      cbn [i_open_loop] in H. rewrite Hdab in H. cbn [bind] in H.
      cbn [cs_of vs_of map i_sc_loop].
      destruct chal as [|nxt chal1]; [discriminate|].
      destruct (lp_bound lp) as [b|] eqn:Eb.
      + destruct (Hb b eq_refl) as [Hb1 Hb2].
        destruct Eshift as (sc & Esc & Hsc0).
        rewrite Esc in *. cbn [Bool.eqb negb] in *. rewrite Nat.eqb_refl in H. cbn [negb] in H.
        destruct chal1 as [|nxt2 chal2]; [discriminate|].
        cbn [oa_p oa_r oa_c oa_hid] in H.
        destruct (Nat.ltb_spec d b) as [|_]; [lia|].
        destruct (lp_hiding lp) as [hb|] eqn:Ehid.
        * specialize (Hhs eq_refl). destruct (ir_shifted st) as [sr|] eqn:Esr; [|discriminate]. cbn [andb] in H.
          match type of H with i_open_loop _ _ _ _ ?A = _ => set (a2 := A) in * end.
          assert (HI' : Inv d a2).
          { split; [|split].
            - cbn [a2 oa_p]. apply hz_padd_scaled; [apply hz_padd_scaled; [exact HI1|apply hz_of_degree; exact Hdeg]|apply shift_poly_hz; assumption].
            - cbn [a2 oa_hid]. rewrite orb_true_r. discriminate.
            - intros i. cbn [a2 oa_p oa_c oa_r]. rewrite !co_gvadd, !co_gvscale, Ecomm, Hsc0.
              rewrite !dot_padd_scaled, shift_poly_dot, HI3. ring. }
          destruct (IH _ _ _ (cv + cur * eval (lp_poly lp) z + nxt * eval (lp_poly lp) z * fpow z (d - b)) _ _ _ Hh' HI' H) as [HI'' Hsc].
          split; [exact HI''|]. cbn [a2 oa_c] in Hsc. refine (eq_trans Hsc _). apply ok3.
          cbn [a2 oa_p]. rewrite !eval_padd_scaled, shift_poly_eval. ring.
        * destruct (Hnh eq_refl) as [Er Esr]. rewrite Esr in *. cbn [andb] in H.
          match type of H with i_open_loop _ _ _ _ ?A = _ => set (a2 := A) in * end.
          assert (HI' : Inv d a2).
          { split; [|split].
            - cbn [a2 oa_p]. apply hz_padd_scaled; [apply hz_padd_scaled; [exact HI1|apply hz_of_degree; exact Hdeg]|apply shift_poly_hz; assumption].
            - cbn [a2 oa_hid oa_r]. rewrite orb_false_r. exact HI2.
            - intros i. cbn [a2 oa_p oa_c oa_r]. rewrite !co_gvadd, !co_gvscale, Ecomm, Hsc0.
              rewrite !dot_padd_scaled, shift_poly_dot, HI3, Er. ring. }
          destruct (IH _ _ _ (cv + cur * eval (lp_poly lp) z + nxt * eval (lp_poly lp) z * fpow z (d - b)) _ _ _ Hh' HI' H) as [HI'' Hsc].
          split; [exact HI''|]. cbn [a2 oa_c] in Hsc. refine (eq_trans Hsc _). apply ok3.
          cbn [a2 oa_p]. rewrite !eval_padd_scaled, shift_poly_eval. ring.
      + rewrite Eshift in *. cbn [Bool.eqb negb] in *.
        destruct chal1 as [|nxt2 chal2]; [discriminate|].
        match type of H with i_open_loop _ _ _ _ ?A = _ => set (a2 := A) in * end.
        assert (HI' : Inv d a2).
        { split; [|split].
          - cbn [a2 oa_p]. apply hz_padd_scaled; [exact HI1|apply hz_of_degree; exact Hdeg].
          - cbn [a2 oa_hid oa_r]. destruct (lp_hiding lp) as [hb|] eqn:Ehid; [rewrite orb_true_r; discriminate|rewrite orb_false_r; exact HI2].
          - intros i. cbn [a2 oa_p oa_c oa_r]. rewrite !co_gvadd, !co_gvscale, Ecomm.
            rewrite !dot_padd_scaled, HI3.
            destruct (lp_hiding lp) as [hb|] eqn:Ehid; [ring|]. destruct (Hnh eq_refl) as [Er _]. rewrite Er. ring. }
        destruct (IH _ _ _ (cv + cur * eval (lp_poly lp) z) _ _ _ Hh' HI' H) as [HI'' Hsc].
        split; [exact HI''|]. cbn [a2 oa_c] in Hsc. refine (eq_trans Hsc _). apply ok3.
        cbn [a2 oa_p]. rewrite !eval_padd_scaled. ring.
  Qed.
  Lemma key_of_length d : length (key_of d) = (d + 1)%nat.
  Proof. unfold key_of. rewrite map_length, seq_length. reflexivity. Qed.

  Lemma Forall_firstn {A} (P : A -> Prop) n : forall l, Forall P l -> Forall P (firstn n l).
  Proof. induction n as [|n IH]; intros [|x l] H; cbn [firstn]; try constructor; inversion H; subst; auto. Qed.

  (* from the combined polynomial to the verdict: the rounds, the verifier's fold, the two final comparisons *)
  Lemma final_part d z k p' cc1 cv hp hchal2 ls rs fk c hrest :
    (d + 1 = 2 ^ k)%nat -> hz (d + 1) p' -> eval p' z = cv ->
    (forall i, co i cc1 = dot p' (map (co i) (key_of d))) ->
    Forall (fun rc => rc <> 0) hchal2 ->
    i_rounds k hp (let t := trim p' in t ++ repeat 0 (d + 1 - length t)) (powers z (d + 1)) (key_of d) hchal2
      = Ok (ls, rs, fk, c, hrest) ->
    length ls = k /\ length rs = k /\
    exists rcomm chs, i_fold_lr ls rs hchal2 (gvadd cc1 (gvscale cv hp)) [] = Ok (rcomm, chs, hrest) /\
      gvzero (gvsub rcomm (gvadd (gvscale c fk) (gvscale (sc_evaluate chs z * c) hp))) = true /\
      gvzero (gvsub (gmsm (key_of d) (compute_coeffs chs)) fk) = true.
  Proof.
    intros Hd Hz Hv Hc Hnz Hr. cbv zeta in Hr.
    pose proof (hz_trim_length _ _ Hz) as Lt.
    set (coeffs := trim p' ++ repeat 0 (d + 1 - length (trim p'))) in *.
    assert (Lc : length coeffs = (2 ^ k)%nat) by (unfold coeffs; rewrite app_length, repeat_length; lia).
    assert (LK : length (key_of d) = (2 ^ k)%nat) by (rewrite key_of_length; exact Hd).
    rewrite Hd in Hr.
    pose proof (Forall_firstn _ k _ Hnz) as Hnz'.
    assert (Lz : length (powers z (2 ^ k)) = (2 ^ k)%nat) by (unfold powers; apply powers_from_length).
    destruct (rounds_co 0%nat k hp coeffs _ _ hchal2 ls rs fk c hrest Lc Lz LK Hnz' Hr) as (_ & _ & Ll & Lr & _).
    split; [exact Ll|]. split; [exact Lr|].
    destruct (ipa_core_complete k hp coeffs z (key_of d) hchal2 ls rs fk c hrest (gvadd cc1 (gvscale cv hp)) Lc LK Hnz' Hr)
      as (rcomm & chs & E1 & _ & E2 & E3).
    { intros i. rewrite co_gvadd, co_gvscale, Hc. unfold coeffs. rewrite dot_app_zeros, dot_trim, eval_app_zeros, eval_trim, Hv. ring. }
    exists rcomm, chs. repeat split; assumption.
  Qed.
  Theorem ipa_complete_sem d items z chal hchal rng pf rest hrest nd :
    (d + 1 = 2 ^ Nat.log2_up (d + 1))%nat ->
    Forall (sem_honest d) items ->
    Forall (fun rc => rc <> 0) hchal ->
    i_open d items z chal hchal rng = Ok (pf, rest, hrest, nd) ->
    i_check d (cs_of items) z (vs_of z items) pf chal hchal = Ok (true, rest, hrest).
  Proof.
    intros Hd Hh Hnz H. unfold i_open in H.
    destruct chal as [|c0 chal0]; [discriminate|].
    destruct (i_open_loop d items c0 chal0 _) as [[[acc cur'] rest']| |] eqn:El; cbn [bind] in H; try discriminate.
    assert (HI0 : Inv d {| oa_p := []; oa_r := 0; oa_c := []; oa_hid := false |}).
    { split; [|split]; cbn [oa_p oa_r oa_c oa_hid].
      - apply hz_length; cbn; lia.
      - reflexivity.
      - intros i. rewrite co_nil. cbn [dot]. ring. }
    destruct (loop_sim d z _ _ _ _ 0 _ _ _ Hh HI0 El) as [(HA1 & HA2 & HA3) Hsc]. cbn [oa_c oa_p eval] in Hsc.
    set (k := Nat.log2_up (d + 1)) in *.
    destruct (oa_hid acc) eqn:Ehid.
    - destruct rng as [tape|]; cbn [bind] in H; [|discriminate].
      destruct (length tape <? d + 2)%nat; cbn [bind] in H; [discriminate|].
      destruct hchal as [|hc hchal']; cbn [bind] in H; [discriminate|].
      destruct hchal' as [|rc0 hchal2]; [discriminate|].
      match type of H with context [i_rounds ?kk ?hp ?co ?zs ?K ?hh] =>
        destruct (i_rounds kk hp co zs K hh) as [[[[[ls rs] fk] c] hrest']| |] eqn:Er; cbn [bind] in H; try discriminate end.
      injection H as <- <- <- <-.
      set (hpoly := trim (psub (trim (firstn (d + 1) tape)) [eval (trim (firstn (d + 1) tape)) z])) in *.
      set (hrand := nth (d + 1) tape 0) in *.
      assert (Hhz : hz (d + 1) hpoly).
      { apply hz_length. unfold hpoly. etransitivity; [apply trim_length|]. unfold psub, pneg. rewrite length_padd, map_length.
        pose proof (trim_length (firstn (d + 1) tape)) as L1. pose proof (firstn_le_length (d + 1) tape) as L2. cbn [length]. lia. }
      assert (Hh0 : eval hpoly z = 0).
      { unfold hpoly. rewrite eval_trim, eval_psub. cbn [eval]. ring. }
      inversion Hnz as [|? ? _ Hnz1]; subst. inversion Hnz1 as [|? ? _ Hnz2]; subst.
      destruct (final_part d z k (padd_scaled (oa_p acc) hc hpoly)
                  (gvadd (oa_c acc) (gvsub (gvscale hc (gvadd (gmsm (key_of d) hpoly) (gvscale hrand (gs d))))
                                           (gvscale (oa_r acc + hc * hrand) (gs d))))
                  (0 + (eval (oa_p acc) z - 0)) (gvscale rc0 (gh d)) hchal2 ls rs fk c hrest' Hd) as (Ll & Lr & rcomm & chs & E1 & E2 & E3).
      { apply hz_padd_scaled; assumption. }
      { rewrite eval_padd_scaled, Hh0. ring. }
      { intros i. rewrite co_gvadd, co_gvsub, !co_gvscale, co_gvadd, co_gvscale, co_gmsm, HA3, dot_padd_scaled. ring. }
      { exact Hnz2. }
      { exact Er. }
      unfold i_check. cbn [ip_l ip_r]. rewrite Ll, Lr, !Nat.eqb_refl. cbn [negb orb].
      unfold i_succinct_check. rewrite Hsc. cbn [bind ip_hcomm ip_rand Bool.eqb negb ip_l ip_r].
      rewrite E1. cbn [bind ip_c ip_key]. rewrite E2, E3. reflexivity.
    - cbn [bind] in H.
      destruct hchal as [|rc0 hchal2]; [discriminate|].
      match type of H with context [i_rounds ?kk ?hp ?co ?zs ?K ?hh] =>
        destruct (i_rounds kk hp co zs K hh) as [[[[[ls rs] fk] c] hrest']| |] eqn:Er; cbn [bind] in H; try discriminate end.
      injection H as <- <- <- <-.
      inversion Hnz as [|? ? _ Hnz1]; subst.
      destruct (final_part d z k (oa_p acc) (oa_c acc)
                  (0 + (eval (oa_p acc) z - 0)) (gvscale rc0 (gh d)) hchal2 ls rs fk c hrest' Hd) as (Ll & Lr & rcomm & chs & E1 & E2 & E3).
      { exact HA1. }
      { ring. }
      { intros i. rewrite HA3, (HA2 eq_refl). ring. }
      { exact Hnz1. }
      { exact Er. }
      unfold i_check. cbn [ip_l ip_r]. rewrite Ll, Lr, !Nat.eqb_refl. cbn [negb orb].
      unfold i_succinct_check. rewrite Hsc. cbn [bind ip_hcomm ip_rand Bool.eqb negb ip_l ip_r].
      rewrite E1. cbn [bind ip_c ip_key]. rewrite E2, E3. reflexivity.
  Qed.
  Theorem ipa_complete d items z chal hchal rng pf rest hrest nd :
    (d + 1 = 2 ^ Nat.log2_up (d + 1))%nat ->
    Forall (honest d) items ->
    Forall (fun rc => rc <> 0) hchal ->
    i_open d items z chal hchal rng = Ok (pf, rest, hrest, nd) ->
    i_check d (cs_of items) z (vs_of z items) pf chal hchal = Ok (true, rest, hrest).
  Proof.
    intros Hd Hh. apply ipa_complete_sem; [exact Hd|].
    clear - Hh FL. induction Hh as [|it items H _ IH]; [constructor|constructor; [apply honest_sem; exact H|exact IH]].
  Qed.
  Lemma itrim_pow2 D s d : itrim D s = Ok d -> (d + 1 = 2 ^ Nat.log2_up (d + 1))%nat.
  Proof.
    unfold itrim. destruct (D <? _)%nat; [discriminate|]. intros H. injection H as <-.
    assert (P : (0 < 2 ^ Nat.log2_up (s + 1))%nat) by (apply Nat.neq_0_lt_0, Nat.pow_nonzero; lia).
    replace (2 ^ Nat.log2_up (s + 1) - 1 + 1)%nat with (2 ^ Nat.log2_up (s + 1))%nat by lia.
    rewrite Nat.log2_up_pow2 by lia. reflexivity.
  Qed.

  (* keys from trim, commitments from commit, proof from open: check accepts *)
  Theorem ipa_complete_trimmed D s d items z chal hchal rng pf rest hrest nd :
    itrim D s = Ok d ->
    Forall (honest d) items ->
    Forall (fun rc => rc <> 0) hchal ->
    i_open d items z chal hchal rng = Ok (pf, rest, hrest, nd) ->
    i_check d (cs_of items) z (vs_of z items) pf chal hchal = Ok (true, rest, hrest).
  Proof. intros Ht. apply ipa_complete. exact (itrim_pow2 _ _ _ Ht). Qed.
End IPAComplete.
