(* Marlin open_combinations -> check_combinations: complete end to end, for every set of combinations under distinct labels on
   which the prover succeeds - polynomials without degree bounds, or one degree-bounded polynomial alone with coefficient one
   (same structure as the Sonic theorem; the verifier recomputes exactly the labelled commitment the prover formed). *)
From Coq Require Import List Arith NArith Bool Lia Field Ring.
From PC Require Import Base.Field Base.Result Base.Poly Base.OrdMap Proofs.PolyFacts Proofs.OrdMapFacts
     Schemes.KZG10 Schemes.LC Schemes.Marlin Schemes.MarlinLC Proofs.KZG10Facts Proofs.KZG10Binding Proofs.LCFacts
     Proofs.MarlinComplete Proofs.MarlinLCFacts Proofs.MarlinBatch Proofs.MarlinBatchComplete
     Schemes.Sonic Schemes.SonicLC Proofs.SonicLCComplete.
Import ListNotations.
Open Scope F_scope.

Section MarlinLCComplete.
  Context {FO : FieldOps} {FL : FieldLaws FO}.
  Add Field Ffield49 : FL_field.
  Variables (ck : CKey) (vk : MVKey) (g gam h b : F) (D hi n m : nat).
  Hypothesis KO : KeyOK ck vk g gam h b D hi n m.
  Hypothesis Hco : forall z items chal a r,
    open_loop ck z items chal {| oa_p := []; oa_r := []; oa_sw := []; oa_sr := []; oa_srw := []; oa_enf := false |} = Ok (a, r) ->
    is_hiding (trim (oa_r a)) = false -> eval (oa_sr a) z = 0.

  Definition ml_agree (lm : list (N * (LPoly * MRand * LComm))) (cm : list (N * LComm)) : Prop :=
    forall l lp st c, lookup N.compare l lm = Some (lp, st, c) -> lookup N.compare l cm = Some c /\ lc_bound c = lp_bound lp.

  Lemma m_verifier_follows_prover lm cm lab num : ml_agree lm cm -> forall terms a a' ev,
    lc_prover_loop lm num terms a = Ok a' ->
    lc_verifier_loop cm lab num terms ev (pa_bound a) (pa_cc a) = Ok (ev_sub lab terms ev, pa_bound a', pa_cc a').
  Proof.
    intros Ha. induction terms as [|[c0 [|l]] t IH]; intros a a' ev H; cbn [lc_prover_loop] in H; cbn [lc_verifier_loop ev_sub].
    - injection H as <-. reflexivity.
    - exact (IH a a' _ H).
    - destruct (lookup N.compare l lm) as [[[lp st] c]|] eqn:El; [|discriminate].
      destruct (Ha l lp st c El) as [Ec Eb]. rewrite Ec, Eb.
      destruct (bound_policy num c0 (lp_bound lp) (pa_bound a)) as [bb| |]; cbn [bind] in H |- *; try discriminate.
      exact (IH _ a' ev H).
  Qed.

  Lemma m_verifier_all_follows lm cm : ml_agree lm cm -> forall lcs trip ev,
    mapM (lc_prover_one lm) lcs = Ok trip ->
    lc_verifier_all cm lcs ev = Ok (map snd trip, ev_sub_all lcs ev).
  Proof.
    intros Ha. induction lcs as [|l t IH]; intros trip ev H; cbn [mapM] in H.
    - injection H as <-. reflexivity.
    - destruct (lc_prover_one lm l) as [t1| |] eqn:E1; cbn [bind] in H; try discriminate.
      destruct (mapM (lc_prover_one lm) t) as [ts| |] eqn:E2; cbn [bind] in H; try discriminate. injection H as <-.
      unfold lc_prover_one in E1.
      set (a0 := {| pa_poly := []; pa_bound := None; pa_hiding := None; pa_rand := {| mr_rand := []; mr_shifted := None |}; pa_cc := [] |}) in *.
      destruct (lc_prover_loop lm (length (snd l)) (snd l) a0) as [a| |] eqn:EL; cbn [bind] in E1; try discriminate.
      cbn [lc_verifier_all].
      pose proof (m_verifier_follows_prover lm cm (fst l) (length (snd l)) Ha (snd l) a0 a ev EL) as Hv. cbn [pa_bound pa_cc a0] in Hv.
      rewrite Hv. cbn [bind].
      destruct (combine_commitments (pa_cc a) 0 None) as [cc cs]. injection E1 as <-.
      rewrite (IH ts _ eq_refl). cbn [bind fst snd map]. reflexivity.
  Qed.

  (* ---- which combinations the prover accepts: polynomials without degree bounds, or one degree-bounded polynomial alone with
     coefficient one (the bound policy refuses everything else) ---- *)
  Lemma m_loop_num_ne1 (lm : list (N * (LPoly * MRand * LComm))) num : num <> 1%nat -> forall terms a a',
    lc_prover_loop lm num terms a = Ok a' ->
    forall co l lp st c, In (co, TPoly l) terms -> lookup N.compare l lm = Some (lp, st, c) -> lp_bound lp = None.
  Proof.
    intros Hn. induction terms as [|[c0 [|l]] t IH]; intros a a' H; cbn [lc_prover_loop] in H.
    - intros ? ? ? ? ? [].
    - intros co0 l0 lp st c [E|Hin]; [discriminate E|]. exact (IH _ _ H co0 l0 lp st c Hin).
    - destruct (lookup N.compare l lm) as [[[lp st] cm]|] eqn:El; [|discriminate].
      destruct (lp_bound lp) as [bb|] eqn:Eb.
      + cbn [bound_policy] in H. destruct (Nat.eqb_spec num 1); [contradiction|]. cbn [bind] in H. discriminate.
      + cbn [bound_policy bind] in H. intros co0 l0 lp0 st0 c [E|Hin] Hl0.
        * injection E as _ <-. rewrite El in Hl0. injection Hl0 as <- _ _. exact Eb.
        * exact (IH _ _ H co0 l0 lp0 st0 c Hin Hl0).
  Qed.

  Lemma m_prover_cases (lm : list (N * (LPoly * MRand * LComm))) terms a0 a : lc_prover_loop lm (length terms) terms a0 = Ok a ->
    (forall co l lp st c, In (co, TPoly l) terms -> lookup N.compare l lm = Some (lp, st, c) -> lp_bound lp = None) \/
    exists c0 l lp st c bb, terms = [(c0, TPoly l)] /\ feqb c0 f1 = true /\ lookup N.compare l lm = Some (lp, st, c) /\ lp_bound lp = Some bb.
  Proof.
    intros H. destruct terms as [|t1 [|t2 rest]].
    - left. intros ? ? ? ? ? [].
    - destruct t1 as [c0 [|l]].
      + left. intros co0 l0 lp st c [E|[]]. discriminate E.
      + cbn [length lc_prover_loop] in H.
        destruct (lookup N.compare l lm) as [[[lp st] c]|] eqn:El; [|discriminate].
        destruct (lp_bound lp) as [bb|] eqn:Eb.
        * right. cbn [bound_policy Nat.eqb] in H. destruct (feqb c0 f1) eqn:Ec; [|discriminate].
          exists c0, l, lp, st, c, bb. repeat split; assumption.
        * left. intros co0 l0 lp0 st0 c1 [E|[]] Hl0. injection E as _ <-. rewrite El in Hl0. injection Hl0 as <- _ _. exact Eb.
    - left. apply (m_loop_num_ne1 lm (length (t1 :: t2 :: rest))) with (a := a0) (a' := a); [cbn [length]; lia|exact H].
  Qed.

  Theorem marlin_lc_complete lcs items cs qs ev chal vtape pfs rest :
    lm_honest ck g gam b D m (label_map items) ->
    ml_agree (label_map items) (comm_map cs) ->
    NoDup (map fst lcs) ->
    (forall pl pt labels lab terms, In (pl, (pt, labels)) (group_queries qs) -> In lab labels -> In (lab, terms) lcs ->
        lookup qkey_cmp (lab, pt) (evals_map ev) = Some (lc_value (poly_of (label_map items) pt) terms)) ->
    (length (group_queries qs) <= length vtape)%nat ->
    mopen_combinations ck lcs items qs chal = Ok (pfs, rest) ->
    mcheck_combinations vk lcs cs qs ev pfs chal vtape = Ok (true, rest, length (group_queries qs)).
  Proof.
    intros Hh Ha Hd Hcl Lt H. unfold mopen_combinations in H.
    set (lm := label_map items) in *.
    destruct (mapM (lc_prover_one lm) lcs) as [trip| |] eqn:Em; cbn [bind] in H; try discriminate.
    unfold mcheck_combinations. rewrite (m_verifier_all_follows lm (comm_map cs) Ha lcs trip _ Em). cbn [bind fst snd].
    destruct (Forall2_combine_in _ _ _ (mapM_Forall2 _ _ _ Em)) as (I1 & I2 & I3).
    assert (Hone : forall l t, In (l, t) (combine lcs trip) ->
              honest ck g gam b D m (fst t) (snd t) /\ lp_label (fst (fst t)) = fst l /\ lc_label (snd t) = fst l /\
              forall x, eval (lp_poly (fst (fst t))) x + lc_const (snd l) = lc_value (poly_of lm x) (snd l)).
    { intros l [[lp st] c] Hin. pose proof (I2 _ _ Hin) as Ep. cbn [fst snd].
      assert (Hl : In l lcs) by (eapply in_combine_l; exact Hin).
      assert (Elab : lp_label lp = fst l /\ lc_label c = fst l).
      { unfold lc_prover_one in Ep. destruct (lc_prover_loop lm (length (snd l)) (snd l) _) as [a| |]; cbn [bind] in Ep; try discriminate.
        destruct (combine_commitments (pa_cc a) 0 None) as [cc cs0]. injection Ep as <- _ <-. split; reflexivity. }
      assert (Ecases : (forall co lab lp' st' c', In (co, TPoly lab) (snd l) -> lookup N.compare lab lm = Some (lp', st', c') -> lp_bound lp' = None) \/
                       exists c0 l1 lp1 st1 c1 bb, snd l = [(c0, TPoly l1)] /\ feqb c0 f1 = true /\ lookup N.compare l1 lm = Some (lp1, st1, c1) /\ lp_bound lp1 = Some bb).
      { unfold lc_prover_one in Ep. destruct (lc_prover_loop lm (length (snd l)) (snd l) _) as [a| |] eqn:EL; cbn [bind] in Ep; try discriminate.
        exact (m_prover_cases lm (snd l) _ a EL). }
      destruct Ecases as [Hnb|(c0 & l1 & lp1 & st1 & c1 & bb & Et & Hc0 & El1 & Eb1)].
      - exact (lc_prover_one_unbounded ck g gam b D m lm l lp st c Hh Hnb Ep).
      - apply FL_eqb in Hc0. subst c0. destruct l as [lab0 terms0]. cbn [fst snd] in *. subst terms0.
        destruct (lc_prover_one_bounded_single ck g gam b D m lm lab0 l1 lp1 st1 c1 bb lp st c Hh El1 Eb1 Ep) as (A1 & A2 & A4).
        split; [exact A1|]. split; [exact (proj1 Elab)|]. split; [exact (proj2 Elab)|].
        intros x. cbn [lc_const lc_value term_value]. unfold poly_of. rewrite El1, A4. ring. }
    assert (Hkeys : map fst (map (fun c : LComm => (lc_label c, c)) (map snd trip)) = map fst lcs).
    { rewrite !map_map. cbn [fst].
      assert (G : forall (ls : list lcomb) (ts : list (LPoly * MRand * LComm)),
                 (forall l t, In (l, t) (combine ls ts) -> lc_label (snd t) = fst l) -> length ls = length ts ->
                 map (fun x : LPoly * MRand * LComm => lc_label (snd x)) ts = map fst ls).
      { induction ls as [|l ls IHl]; intros [|t ts] Hc Hlen; cbn in Hlen; try lia; [reflexivity|].
        cbn [map]. f_equal; [exact (Hc l t (or_introl eq_refl))|]. apply IHl; [|lia]. intros l' t' Hin. apply Hc. right. exact Hin. }
      apply G; [|exact I3]. intros l t Hin. exact (proj1 (proj2 (proj2 (Hone l t Hin)))). }
    refine (marlin_batch_m_complete ck vk g gam h b D hi n m KO Hco
              (map (fun x : LPoly * MRand * LComm => (fst (fst x), snd (fst x))) trip) _ qs _ chal vtape pfs rest _ _ Lt H).
    - intros l it Hl. unfold poly_state_map in Hl. apply (lookup_of_list_some N.compare N.compare_eq_iff) in Hl.
      apply in_map_iff in Hl. destruct Hl as (it0 & E0 & Hin0). injection E0 as <- <-.
      apply in_map_iff in Hin0. destruct Hin0 as (t0 & <- & Ht0).
      destruct (I1 t0 Ht0) as (l0 & Hc0 & _). destruct (Hone l0 t0 Hc0) as (B1 & B2 & B3 & _).
      exists (snd t0). split.
      + unfold comm_map. apply (lookup_of_list_in N.compare N.compare_eq_iff); [exact (eq_ind_r (fun x => NoDup x) Hd Hkeys)|].
        apply in_map_iff. exists (snd t0). cbn [fst snd]. rewrite B2, B3. split; [reflexivity|]. apply in_map. exact Ht0.
      + destruct t0 as [[lp st] c]. cbn [fst snd] in *. exact B1.
    - intros pl pt labels Hg l it Hl Hit. unfold poly_state_map in Hit. apply (lookup_of_list_some N.compare N.compare_eq_iff) in Hit.
      apply in_map_iff in Hit. destruct Hit as (it0 & E0 & Hin0). injection E0 as El <-.
      apply in_map_iff in Hin0. destruct Hin0 as (t0 & <- & Ht0).
      destruct (I1 t0 Ht0) as (l0 & Hc0 & _). destruct (Hone l0 t0 Hc0) as (_ & B2 & _ & B4). cbn [fst snd] in *.
      assert (Hl0 : In l0 lcs) by (eapply in_combine_l; exact Hc0).
      assert (El0 : l0 = (l, snd l0)) by (destruct l0 as [a0 b0]; cbn [fst snd] in *; congruence).
      rewrite El0 in Hl0.
      rewrite (ev_sub_all_lookup lcs _ l (snd l0) pt Hd Hl0), (Hcl pl pt labels l (snd l0) Hg Hl Hl0). cbn [option_map]. f_equal.
      match goal with |- ?a - ?b0 = ?c => assert (E : a = c + b0) by (symmetry; exact (B4 pt)); rewrite E; ring end.
  Qed.
End MarlinLCComplete.
