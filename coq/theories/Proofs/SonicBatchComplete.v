(* Completeness of SonicKZG10's batch flows: the proofs of batch_open (the trait default: one open per point-label group on
   the shared challenge tape) are accepted by Sonic's own batch_check for the true evaluations, whatever randomizers the
   verifier draws; the verifier ends on the prover's tape position and draws one randomizer per group. *)
From Coq Require Import List Arith NArith Bool Lia Field Ring.
From PC Require Import Base.Field Base.Result Base.Poly Base.OrdMap Proofs.PolyFacts Schemes.KZG10 Schemes.LC Schemes.Marlin Schemes.MarlinLC
     Schemes.Sonic Schemes.SonicLC Proofs.KZG10Facts Proofs.MarlinComplete Proofs.SonicFacts Proofs.SonicBatchFacts Proofs.SonicLCFacts.
Import ListNotations.
Open Scope F_scope.

Section SonicBatchComplete.
  Context {FO : FieldOps} {FL : FieldLaws FO}.
  Variables (g gam h beta : F) (n m : nat) (ck : SCKey) (vk : SVKey).
  Hypothesis Kg : sck_g ck = gpowers g 1 beta n.
  Hypothesis Kgg : sck_gamma ck = gpowers gam 1 beta m.
  Hypothesis V1 : vk_g (svk_vk vk) = g.
  Hypothesis V2 : vk_gamma_g (svk_vk vk) = gam.
  Hypothesis V3 : vk_h (svk_vk vk) = h.
  Hypothesis V4 : vk_beta_h (svk_vk vk) = h * beta.

  (* prover's item and verifier's (commitment, bound) belong together *)
  Definition sb_R (it : LPoly * Rand) (c : F * option nat) : Prop :=
    snd c = lp_bound (fst it) /\ s_honest vk h g gam beta m (fst it, snd it, fst c).
  Definition smaps_agree (pm : list (N * (LPoly * Rand))) (cm : list (N * (F * option nat))) : Prop :=
    forall l it, lookup N.compare l pm = Some it -> exists c, lookup N.compare l cm = Some c /\ sb_R it c.
  Definition sevals_true (pm : list (N * (LPoly * Rand))) (ev : evals) (pt : F) (labels : list N) : Prop :=
    forall l it, In l labels -> lookup N.compare l pm = Some it -> lookup qkey_cmp (l, pt) ev = Some (eval (lp_poly (fst it)) pt).

  Lemma sgather_agree pm cm ev pt : smaps_agree pm cm -> forall labels items,
    sevals_true pm ev pt labels ->
    lookup_all pm labels = Ok items ->
    exists cs, s_gather cm ev pt labels = Ok (cs, map (fun it => eval (lp_poly (fst it)) pt) items) /\ Forall2 sb_R items cs.
  Proof.
    intros Hm. induction labels as [|l t IH]; intros items He H; cbn [lookup_all] in H.
    - injection H as <-. exists []. split; [reflexivity|constructor].
    - destruct (lookup N.compare l pm) as [it|] eqn:El; [|discriminate].
      destruct (lookup_all pm t) as [r| |] eqn:Eg; cbn [bind] in H; try discriminate. injection H as <-.
      destruct (Hm l it El) as (c & Ec & Hh).
      destruct (IH r (fun l0 it0 Hin => He l0 it0 (or_intror Hin)) eq_refl) as (cs & Egv & HF).
      exists (c :: cs). split; [|constructor; assumption].
      cbn [s_gather]. rewrite Ec, (He l it (or_introl eq_refl) El), Egv. reflexivity.
  Qed.

  (* the consistency hypothesis of sonic_check_complete, from the pointwise relation *)
  Lemma sb_R_consistent : forall items cs, Forall2 sb_R items cs ->
    length cs = length items /\ Forall (fun it : LPoly * Rand => (length (snd it) <= m)%nat) items /\
    exists sps, Forall2 (fun cb sp => shift_power vk (snd cb) = Ok sp) cs sps /\
                map (fun csp : F * option nat * F => fst (fst csp) * snd csp) (combine cs sps)
                = map (fun it : LPoly * Rand => h * (g * eval (lp_poly (fst it)) beta + gam * eval (snd it) beta)) items.
  Proof.
    induction 1 as [|it c items cs [Hb (sp & Esp & Ec & Lr)] HF (L & Fr & sps & HS & Hm)].
    - split; [reflexivity|]. split; [constructor|]. exists []. split; [constructor|reflexivity].
    - cbn [fst snd] in Esp, Ec, Lr. split; [cbn [length]; lia|]. split; [constructor; assumption|].
      exists (sp :: sps). split; [constructor; [rewrite Hb; exact Esp|exact HS]|].
      cbn [combine map fst snd]. rewrite Ec, Hm. reflexivity.
  Qed.

  Lemma s_check_true_resid cs z vs pf chal rest :
    s_check vk cs z vs pf chal = Ok (true, rest) ->
    exists y, s_resid vk cs z vs pf chal = Ok (Ok y, rest) /\ feqb y 0 = true.
  Proof.
    unfold s_check, s_resid. destruct chal as [|c0 chal0]; [discriminate|].
    destruct (s_acc vk cs vs c0 chal0 0 0) as [[[l va] r]| |]; cbn [bind]; try discriminate.
    destruct l as [lhs| |]; cbn [bind]; try discriminate.
    intros H. injection H as H <-. eexists. split; [reflexivity|exact H].
  Qed.

  Lemma sgroups_complete pm cm ev : smaps_agree pm cm -> forall groups chal pfs rest,
    (forall pl pt labels, In (pl, (pt, labels)) groups -> sevals_true pm ev pt labels) ->
    s_open_groups ck pm groups chal = Ok (pfs, rest) ->
    exists rs, s_group_resids vk cm ev groups pfs chal = Ok (rs, rest) /\ length rs = length groups /\ length pfs = length groups /\
               Forall (fun r => feqb r 0 = true) rs.
  Proof.
    intros Hm. induction groups as [|[pl [pt labels]] t IH]; intros chal pfs rest He H; cbn [s_open_groups] in H.
    - injection H as <- <-. exists []. cbn [s_group_resids length]. repeat split; constructor.
    - destruct (lookup_all pm labels) as [items| |] eqn:Eg; cbn [bind] in H; try discriminate.
      destruct (s_open ck items pt chal) as [[pf rest1]| |] eqn:Eo; cbn [bind fst snd] in H; try discriminate.
      destruct (s_open_groups ck pm t rest1) as [[pfs1 rest2]| |] eqn:Er; cbn [bind fst snd] in H; try discriminate.
      injection H as <- <-.
      destruct (sgather_agree pm cm ev pt Hm labels items (He pl pt labels (or_introl eq_refl)) Eg) as (cs' & Egv & HF).
      destruct (sb_R_consistent items cs' HF) as (L & Fr & Hcons).
      pose proof (sonic_check_complete g gam h beta n m ck vk items cs' pt chal pf rest1 Kg Kgg V1 V2 V3 V4 L Fr Hcons Eo) as Hc.
      destruct (s_check_true_resid _ _ _ _ _ _ Hc) as (y & Ey & Hy).
      destruct (IH rest1 pfs1 rest2 (fun pl0 pt0 l0 Hin => He pl0 pt0 l0 (or_intror Hin)) Er) as (rs & Egr & L1 & L2 & Hz).
      exists (y :: rs). cbn [s_group_resids]. rewrite Egv. cbn [bind fst snd]. rewrite Ey. cbn [bind fst snd]. rewrite Egr. cbn [bind fst snd].
      split; [reflexivity|]. cbn [length]. repeat split; try lia. constructor; assumption.
  Qed.

  Theorem sonic_batch_m_complete items cs qs evm chal vtape pfs rest :
    smaps_agree (s_poly_map items) (s_comm_map cs) ->
    (forall pl pt labels, In (pl, (pt, labels)) (group_queries qs) -> sevals_true (s_poly_map items) evm pt labels) ->
    (length (group_queries qs) <= length vtape)%nat ->
    s_batch_open ck items qs chal = Ok (pfs, rest) ->
    s_batch_check_m vk cs qs evm pfs chal vtape = Ok (true, rest, length (group_queries qs)).
  Proof.
    intros Hm He Lt H. unfold s_batch_open in H.
    destruct (sgroups_complete _ _ _ Hm (group_queries qs) chal pfs rest He H) as (rs & Egr & L1 & L2 & Hz).
    rewrite <- L1. apply sonic_batch_m_all_true; try assumption; lia.
  Qed.
  Theorem sonic_batch_complete items cs qs ev chal vtape pfs rest :
    smaps_agree (s_poly_map items) (s_comm_map cs) ->
    (forall pl pt labels, In (pl, (pt, labels)) (group_queries qs) -> sevals_true (s_poly_map items) (evals_map ev) pt labels) ->
    (length (group_queries qs) <= length vtape)%nat ->
    s_batch_open ck items qs chal = Ok (pfs, rest) ->
    s_batch_check vk cs qs ev pfs chal vtape = Ok (true, rest, length (group_queries qs)).
  Proof. unfold s_batch_check. apply sonic_batch_m_complete. Qed.
End SonicBatchComplete.
