(* Completeness of the trait's default batch_open / batch_check, for ANY scheme: if the scheme's own open / check are
   complete on one point (on the shared transcript state, which both leave in the same state), then the proofs made by the
   default batch_open are accepted by the default batch_check for the true evaluations, and the verifier ends in the
   prover's transcript state. *)
From Coq Require Import List Arith NArith Bool Lia.
From PC Require Import Base.Field Base.Result Base.Poly Base.OrdMap Schemes.LC Schemes.DefaultBatch.
Import ListNotations.

Section DefaultBatchComplete.
  Context {FO : FieldOps}.
  Variables (Comm Item Proof St : Type).
  Variable check : list Comm -> point -> list F -> Proof -> St -> res (bool * St).
  Variable open : list Item -> point -> St -> res (Proof * St).
  Variable R : Item -> Comm -> Prop.            (* c is the commitment of the prover's item *)
  Variable value : Item -> point -> F.          (* the evaluation the item opens to *)
  Hypothesis group_complete : forall items cs pt st pf st',
    Forall2 R items cs -> open items pt st = Ok (pf, st') ->
    check cs pt (map (fun it => value it pt) items) pf st = Ok (true, st').

  Definition maps_agree (im : list (N * Item)) (cm : list (N * Comm)) : Prop :=
    forall l it, lookup_lab l im = Some it -> exists c, lookup_lab l cm = Some c /\ R it c.
  Definition evals_true (im : list (N * Item)) (ev : list (N * point * F)) (pt : point) (labels : list N) : Prop :=
    forall l it, In l labels -> lookup_lab l im = Some it -> lookup_eval l pt ev = Some (value it pt).

  Lemma gather_agree im cm ev pt : maps_agree im cm -> forall labels its,
    evals_true im ev pt labels ->
    gather_p Item im labels = Ok its ->
    exists cs, gather_v Comm cm ev pt labels = Ok (cs, map (fun it => value it pt) its) /\ Forall2 R its cs.
  Proof.
    intros Hm. induction labels as [|l t IH]; intros its He H; cbn [gather_p] in H.
    - injection H as <-. exists []. split; [reflexivity|constructor].
    - destruct (lookup_lab l im) as [it|] eqn:El; [|discriminate].
      destruct (gather_p Item im t) as [r| |] eqn:Eg; cbn [bind] in H; try discriminate. injection H as <-.
      destruct (Hm l it El) as (c & Ec & Hr).
      destruct (IH r (fun l0 it0 Hin => He l0 it0 (or_intror Hin)) eq_refl) as (cs & Egv & HF).
      exists (c :: cs). split; [|constructor; assumption].
      cbn [gather_v]. rewrite Ec, (He l it (or_introl eq_refl) El), Egv. reflexivity.
  Qed.

  Lemma bloop_complete im cm ev : maps_agree im cm -> forall gs st pfs st' result,
    (forall pl pt labels, In (pl, (pt, labels)) gs -> evals_true im ev pt labels) ->
    bopen_loop Item Proof St open im gs st = Ok (pfs, st') ->
    bcheck_loop Comm Proof St check cm ev gs pfs st result = Ok (result, st') /\ length pfs = length gs.
  Proof.
    intros Hm. induction gs as [|[pl [pt labels]] gs IH]; intros st pfs st' result He H; cbn [bopen_loop] in H.
    - injection H as <- <-. split; reflexivity.
    - destruct (gather_p Item im labels) as [its| |] eqn:Eg; cbn [bind] in H; try discriminate.
      destruct (open its pt st) as [[pf st1]| |] eqn:Eo; cbn [bind fst snd] in H; try discriminate.
      destruct (bopen_loop Item Proof St open im gs st1) as [[rest st2]| |] eqn:Er; cbn [bind fst snd] in H; try discriminate.
      injection H as <- <-.
      destruct (gather_agree im cm ev pt Hm labels its (He pl pt labels (or_introl eq_refl)) Eg) as (cs & Egv & HF).
      destruct (IH st1 rest st2 (result && true) (fun pl0 pt0 l0 Hin => He pl0 pt0 l0 (or_intror Hin)) Er) as [Hc Hl].
      split; [|cbn [length]; lia].
      cbn [bcheck_loop]. rewrite Egv. cbn [bind fst snd]. rewrite (group_complete its cs pt st pf st1 HF Eo). cbn [bind fst snd].
      rewrite Hc. rewrite andb_true_r. reflexivity.
  Qed.

  Theorem default_batch_complete items cs qs ev st pfs st' :
    maps_agree (label_map items) (label_map cs) ->
    (forall pl pt labels, In (pl, (pt, labels)) (groups qs) -> evals_true (label_map items) ev pt labels) ->
    default_batch_open Item Proof St open items qs st = Ok (pfs, st') ->
    default_batch_check Comm Proof St check cs qs ev pfs st = Ok (true, st').
  Proof.
    intros Hm He H. unfold default_batch_open in H. unfold default_batch_check.
    destruct (bloop_complete _ _ ev Hm (groups qs) st pfs st' true He H) as [Hc Hl].
    rewrite Hl, Nat.eqb_refl. cbn [negb]. exact Hc.
  Qed.
End DefaultBatchComplete.

(* the same with separate prover / verifier transcript states related by a simulation (e.g. a prover state that also carries
   its RNG tape), and a side condition on the points *)
Section DefaultBatchCompleteSim.
  Context {FO : FieldOps}.
  Variables (Comm Item Proof PSt VSt : Type).
  Variable check : list Comm -> point -> list F -> Proof -> VSt -> res (bool * VSt).
  Variable open : list Item -> point -> PSt -> res (Proof * PSt).
  Variable R : Item -> Comm -> Prop.
  Variable value : Item -> point -> F.
  Variable sim : PSt -> VSt -> Prop.
  Variable okpt : point -> Prop.
  Hypothesis group_complete : forall items cs pt st vst pf st',
    okpt pt -> Forall2 R items cs -> sim st vst -> open items pt st = Ok (pf, st') ->
    exists vst', check cs pt (map (fun it => value it pt) items) pf vst = Ok (true, vst') /\ sim st' vst'.

  Lemma bloop_complete_sim im cm ev : maps_agree Comm Item R im cm -> forall gs st vst pfs st' result,
    (forall pl pt labels, In (pl, (pt, labels)) gs -> okpt pt /\ evals_true Item value im ev pt labels) ->
    sim st vst ->
    bopen_loop Item Proof PSt open im gs st = Ok (pfs, st') ->
    exists vst', bcheck_loop Comm Proof VSt check cm ev gs pfs vst result = Ok (result, vst') /\ sim st' vst' /\ length pfs = length gs.
  Proof.
    intros Hm. induction gs as [|[pl [pt labels]] gs IH]; intros st vst pfs st' result He Hs H; cbn [bopen_loop] in H.
    - injection H as <- <-. exists vst. repeat split; assumption.
    - destruct (gather_p Item im labels) as [its| |] eqn:Eg; cbn [bind] in H; try discriminate.
      destruct (open its pt st) as [[pf st1]| |] eqn:Eo; cbn [bind fst snd] in H; try discriminate.
      destruct (bopen_loop Item Proof PSt open im gs st1) as [[rest st2]| |] eqn:Er; cbn [bind fst snd] in H; try discriminate.
      injection H as <- <-.
      destruct (He pl pt labels (or_introl eq_refl)) as [Hok Hev].
      destruct (gather_agree Comm Item R value im cm ev pt Hm labels its Hev Eg) as (cs & Egv & HF).
      destruct (group_complete its cs pt st vst pf st1 Hok HF Hs Eo) as (vst1 & Ec & Hs1).
      destruct (IH st1 vst1 rest st2 (result && true) (fun pl0 pt0 l0 Hin => He pl0 pt0 l0 (or_intror Hin)) Hs1 Er) as (vst2 & Hc & Hs2 & Hl).
      exists vst2. split; [|split; [exact Hs2|cbn [length]; lia]].
      cbn [bcheck_loop]. rewrite Egv. cbn [bind fst snd]. rewrite Ec. cbn [bind fst snd].
      rewrite Hc. rewrite andb_true_r. reflexivity.
  Qed.

  Theorem default_batch_complete_sim items cs qs ev st vst pfs st' :
    maps_agree Comm Item R (label_map items) (label_map cs) ->
    (forall pl pt labels, In (pl, (pt, labels)) (groups qs) -> okpt pt /\ evals_true Item value (label_map items) ev pt labels) ->
    sim st vst ->
    default_batch_open Item Proof PSt open items qs st = Ok (pfs, st') ->
    exists vst', default_batch_check Comm Proof VSt check cs qs ev pfs vst = Ok (true, vst') /\ sim st' vst'.
  Proof.
    intros Hm He Hs H. unfold default_batch_open in H. unfold default_batch_check.
    destruct (bloop_complete_sim _ _ ev Hm (groups qs) st vst pfs st' true He Hs H) as (vst' & Hc & Hs' & Hl).
    exists vst'. rewrite Hl, Nat.eqb_refl. cbn [negb]. split; assumption.
  Qed.
End DefaultBatchCompleteSim.
