(* Completeness of MarlinKZG10's batch flows: the proofs made by batch_open (one `open` per point-label group, on the shared
   challenge tape) are accepted by batch_check (KZG10's batch equation over the groups) for the true evaluations, whatever
   randomizers the verifier draws, and the verifier ends on the prover's tape position. *)
From Coq Require Import List Arith NArith Bool Lia Field Ring.
From PC Require Import Base.Field Base.Result Base.Poly Base.OrdMap Proofs.PolyFacts
     Schemes.KZG10 Schemes.LC Schemes.Marlin Proofs.KZG10Facts Proofs.KZG10Binding Proofs.MarlinComplete Proofs.MarlinBatch.
Import ListNotations.
Open Scope F_scope.

Section MarlinBatchComplete.
  Context {FO : FieldOps} {FL : FieldLaws FO}.
  Variables (ck : CKey) (vk : MVKey) (g gam h b : F) (D hi n m : nat).
  Hypothesis KO : KeyOK ck vk g gam h b D hi n m.
  (* the side condition of the single-point completeness theorem (see marlin_open_check_complete), for every group *)
  Hypothesis Hco : forall z items chal a r,
    open_loop ck z items chal {| oa_p := []; oa_r := []; oa_sw := []; oa_sr := []; oa_srw := []; oa_enf := false |} = Ok (a, r) ->
    is_hiding (trim (oa_r a)) = false -> eval (oa_sr a) z = 0.

  Definition mmaps_agree (pm : list (N * (LPoly * MRand))) (cm : list (N * LComm)) : Prop :=
    forall l it, lookup N.compare l pm = Some it -> exists c, lookup N.compare l cm = Some c /\ honest ck g gam b D m it c.
  Definition mevals_true (pm : list (N * (LPoly * MRand))) (ev : evals) (pt : F) (labels : list N) : Prop :=
    forall l it, In l labels -> lookup N.compare l pm = Some it -> lookup qkey_cmp (l, pt) ev = Some (eval (lp_poly (fst it)) pt).

  Lemma mgather_agree pm cm ev pt : mmaps_agree pm cm -> forall labels items,
    mevals_true pm ev pt labels ->
    lookup_all pm labels = Ok items ->
    exists cs, gather cm ev pt labels = Ok (cs, map (fun it => eval (lp_poly (fst it)) pt) items) /\
               Forall2 (honest ck g gam b D m) items cs.
  Proof.
    intros Hm. induction labels as [|l t IH]; intros items He H; cbn [lookup_all] in H.
    - injection H as <-. exists []. split; [reflexivity|constructor].
    - destruct (lookup N.compare l pm) as [it|] eqn:El; [|discriminate].
      destruct (lookup_all pm t) as [r| |] eqn:Eg; cbn [bind] in H; try discriminate. injection H as <-.
      destruct (Hm l it El) as (c & Ec & Hh).
      destruct (IH r (fun l0 it0 Hin => He l0 it0 (or_intror Hin)) eq_refl) as (cs & Egv & HF).
      exists (c :: cs). split; [|constructor; assumption].
      cbn [gather]. rewrite Ec.
      assert (Eg1 : Bool.eqb (match lc_bound c with Some _ => true | None => false end)
                             (match mc_shifted (lc_comm c) with Some _ => true | None => false end) = true).
      { destruct it as [lp st]. destruct Hh as (Hb & _ & _ & Hs). rewrite Hb.
        destruct (lp_bound lp); [destruct Hs as (rs & _ & _ & _ & ->)|destruct Hs as [-> _]]; reflexivity. }
      rewrite Eg1. cbn [negb]. rewrite (He l it (or_introl eq_refl) El), Egv. reflexivity.
  Qed.

  Lemma groups_complete pm cm ev : mmaps_agree pm cm -> forall groups chal pfs rest,
    (forall pl pt labels, In (pl, (pt, labels)) groups -> mevals_true pm ev pt labels) ->
    open_groups ck pm groups chal = Ok (pfs, rest) ->
    exists ccs zs vs, combine_groups vk cm ev groups chal = Ok (ccs, zs, vs, rest) /\
      length zs = length ccs /\ length vs = length ccs /\ length pfs = length ccs /\
      Forall (fun e => e = 0) (residuals (mvk_vk vk) ccs zs vs pfs).
  Proof.
    intros Hm. induction groups as [|[pl [pt labels]] t IH]; intros chal pfs rest He H; cbn [open_groups] in H.
    - injection H as <- <-. exists [], [], []. cbn [combine_groups residuals length]. repeat split; constructor.
    - destruct (lookup_all pm labels) as [items| |] eqn:Eg; cbn [bind] in H; try discriminate.
      destruct (mopen ck items pt chal) as [[pf rest1]| |] eqn:Eo; cbn [bind fst snd] in H; try discriminate.
      destruct (open_groups ck pm t rest1) as [[pfs1 rest2]| |] eqn:Er; cbn [bind fst snd] in H; try discriminate.
      injection H as <- <-.
      destruct (mgather_agree pm cm ev pt Hm labels items (He pl pt labels (or_introl eq_refl)) Eg) as (cs' & Egv & HF).
      pose proof (marlin_open_check_complete ck vk g gam h b D hi n m KO pt items cs' chal pf rest1 HF Eo
                    (fun a r => Hco pt items chal a r)) as Hc.
      unfold mcheck in Hc.
      destruct (accumulate vk cs' (map (fun it => eval (lp_poly (fst it)) pt) items) chal 0 0) as [[[cc cv] chal1]| |] eqn:Ea;
        cbn [bind] in Hc; try discriminate.
      destruct (KZG10.check (mvk_vk vk) cc pt cv pf) as [bb| |] eqn:Ek; cbn [bind] in Hc; try discriminate.
      injection Hc as -> ->.
      destruct (IH rest1 pfs1 rest2 (fun pl0 pt0 l0 Hin => He pl0 pt0 l0 (or_intror Hin)) Er)
        as (ccs & zs & vs & Ecg & L1 & L2 & L3 & Hres).
      exists (cc :: ccs), (pt :: zs), (cv :: vs).
      cbn [combine_groups]. rewrite Egv. cbn [bind fst snd]. rewrite Ea. cbn [bind]. rewrite Ecg. cbn [bind].
      split; [reflexivity|]. cbn [length residuals]. repeat split; try lia.
      constructor; [|exact Hres]. apply check_iff_residual. exact Ek.
  Qed.

  Theorem marlin_batch_m_complete items cs qs evm chal vtape pfs rest :
    mmaps_agree (poly_state_map items) (comm_map cs) ->
    (forall pl pt labels, In (pl, (pt, labels)) (group_queries qs) -> mevals_true (poly_state_map items) evm pt labels) ->
    (length (group_queries qs) <= length vtape)%nat ->
    mbatch_open ck items qs chal = Ok (pfs, rest) ->
    mbatch_check_m vk cs qs evm pfs chal vtape = Ok (true, rest, length (group_queries qs)).
  Proof.
    intros Hm He Lt H. unfold mbatch_open in H. unfold mbatch_check_m.
    destruct (groups_complete _ _ _ Hm (group_queries qs) chal pfs rest He H) as (ccs & zs & vs & Ecg & L1 & L2 & L3 & Hres).
    rewrite Ecg. cbn [bind]. rewrite L3, <- L1, Nat.eqb_refl. cbn [negb].
    assert (Lg : length ccs = length (group_queries qs)).
    { clear - Ecg. revert chal ccs zs vs rest Ecg. induction (group_queries qs) as [|[pl [pt labels]] t IH]; intros chal ccs zs vs rest E; cbn [combine_groups] in E.
      - injection E as <- _ _ _. reflexivity.
      - destruct (gather _ _ pt labels) as [cv| |]; cbn [bind] in E; try discriminate.
        destruct (accumulate vk (fst cv) (snd cv) chal 0 0) as [[[c v] chal1]| |]; cbn [bind] in E; try discriminate.
        destruct (combine_groups vk _ _ t chal1) as [[[[a1 a2] a3] a4]| |] eqn:E2; cbn [bind] in E; try discriminate.
        injection E as <- _ _ _. cbn [length]. f_equal. exact (IH _ _ _ _ _ E2). }
    rewrite (batch_all_true_accepts (mvk_vk vk) ccs zs vs pfs vtape L1 L2 L3 ltac:(lia) Hres). cbn [bind fst snd].
    rewrite Lg. reflexivity.
  Qed.
  Theorem marlin_batch_complete items cs qs ev chal vtape pfs rest :
    mmaps_agree (poly_state_map items) (comm_map cs) ->
    (forall pl pt labels, In (pl, (pt, labels)) (group_queries qs) -> mevals_true (poly_state_map items) (evals_map ev) pt labels) ->
    (length (group_queries qs) <= length vtape)%nat ->
    mbatch_open ck items qs chal = Ok (pfs, rest) ->
    mbatch_check vk cs qs ev pfs chal vtape = Ok (true, rest, length (group_queries qs)).
  Proof. unfold mbatch_check. apply marlin_batch_m_complete. Qed.
End MarlinBatchComplete.
