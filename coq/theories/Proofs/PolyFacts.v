From Coq Require Import List Arith Bool Lia Field Ring.
From PC Require Import Base.Field Base.Poly.
Import ListNotations.
Open Scope F_scope.

Section PolyFacts.
  Context {FO : FieldOps} {FL : FieldLaws FO}.
  Add Field Ffield2 : FL_field.

  Lemma fzerob_true x : fzerob x = true <-> x = 0.
  Proof. unfold fzerob. apply FL_eqb. Qed.
  Lemma fzerob_false x : fzerob x = false <-> x <> 0.
  Proof. unfold fzerob. apply feqb_false. Qed.

  Lemma eval_nil x : eval [] x = 0. Proof. reflexivity. Qed.
  Lemma eval_cons c t x : eval (c :: t) x = c + x * eval t x. Proof. reflexivity. Qed.

  Lemma trim_cons c t :
    trim (c :: t) = match trim t with [] => if fzerob c then [] else [c] | t' => c :: t' end.
  Proof. reflexivity. Qed.

  Lemma eval_trim p x : eval (trim p) x = eval p x.
  Proof.
    induction p as [|c t IH]; [reflexivity|].
    rewrite trim_cons. destruct (trim t) as [|d t'] eqn:E.
    - destruct (fzerob c) eqn:Z.
      + apply fzerob_true in Z. subst c. cbn [eval] in *. rewrite <- IH. ring.
      + cbn [eval] in *. rewrite <- IH. ring.
    - rewrite (eval_cons c (d :: t')), (eval_cons c t), IH. reflexivity.
  Qed.

  Lemma trim_length p : length (trim p) <= length p.
  Proof.
    induction p as [|c t IH]; [cbn; lia|].
    rewrite trim_cons. destruct (trim t) as [|d t'].
    - destruct (fzerob c); cbn; lia.
    - cbn [length] in *. lia.
  Qed.

  (* last coefficient of a trimmed polynomial is non-zero *)
  Lemma trim_last_nonzero p : trim p <> [] -> last (trim p) 0 <> 0.
  Proof.
    induction p as [|c t IH]; [intros H; exact (False_ind _ (H eq_refl))|].
    rewrite trim_cons. destruct (trim t) as [|d t'] eqn:E.
    - destruct (fzerob c) eqn:Z; [intros H; exact (False_ind _ (H eq_refl))|].
      intros _. cbn. apply fzerob_false; exact Z.
    - intros _. change (last (c :: d :: t') 0) with (last (d :: t') 0).
      apply IH. discriminate.
  Qed.

  Lemma trim_idem p : trim (trim p) = trim p.
  Proof.
    induction p as [|c t IH]; [reflexivity|].
    rewrite trim_cons. destruct (trim t) as [|d t'] eqn:E.
    - destruct (fzerob c) eqn:Z; [reflexivity|]. cbn. rewrite Z. reflexivity.
    - rewrite trim_cons. rewrite IH. reflexivity.
  Qed.

  Lemma trim_nil_eval p : trim p = [] -> forall x, eval p x = 0.
  Proof. intros H x. rewrite <- eval_trim, H. reflexivity. Qed.

  Lemma eval_padd p q x : eval (padd p q) x = eval p x + eval q x.
  Proof.
    revert q; induction p as [|a p IH]; intros q.
    - cbn. ring.
    - destruct q as [|b q]; cbn [padd eval].
      + ring.
      + rewrite IH. ring.
  Qed.

  Lemma eval_pscale c p x : eval (pscale c p) x = c * eval p x.
  Proof.
    induction p as [|a p IH]; cbn [pscale map eval]; [ring|].
    unfold pscale in IH. rewrite IH. ring.
  Qed.

  Lemma eval_pneg p x : eval (pneg p) x = - eval p x.
  Proof.
    induction p as [|a p IH]; cbn [pneg map eval]; [ring|].
    unfold pneg in IH. rewrite IH. ring.
  Qed.

  Lemma eval_psub p q x : eval (psub p q) x = eval p x - eval q x.
  Proof. unfold psub. rewrite eval_padd, eval_pneg. ring. Qed.

  Lemma eval_padd_scaled p c q x : eval (padd_scaled p c q) x = eval p x + c * eval q x.
  Proof. unfold padd_scaled. rewrite eval_padd, eval_pscale. reflexivity. Qed.

  Lemma length_padd p q : length (padd p q) = Nat.max (length p) (length q).
  Proof.
    revert q; induction p as [|a p IH]; intros q; [reflexivity|].
    destruct q as [|b q]; cbn [padd length]; [reflexivity|]. rewrite IH. reflexivity.
  Qed.

  (* synthetic division *)
  Lemma sdiv_cons c t z :
    sdiv (c :: t) z = (snd (sdiv t z) :: fst (sdiv t z), c + z * snd (sdiv t z)).
  Proof. cbn [sdiv]. destruct (sdiv t z). reflexivity. Qed.

  Lemma sdiv_rem p z : snd (sdiv p z) = eval p z.
  Proof.
    induction p as [|c t IH]; [reflexivity|].
    rewrite sdiv_cons. cbn [snd eval]. rewrite IH. reflexivity.
  Qed.

  Lemma sdiv_spec p z x : eval p x = eval (quot_lin p z) x * (x - z) + eval p z.
  Proof.
    unfold quot_lin. induction p as [|c t IH]; [cbn; ring|].
    rewrite sdiv_cons. cbn [fst eval]. rewrite sdiv_rem. rewrite IH at 1. ring.
  Qed.

  Lemma sdiv_length p z : length (quot_lin p z) = length p.
  Proof.
    unfold quot_lin. induction p as [|c t IH]; [reflexivity|].
    rewrite sdiv_cons. cbn [fst length]. rewrite IH. reflexivity.
  Qed.

  (* top coefficient of the quotient list is zero: the real quotient has one
     coefficient fewer than p *)
  Lemma quot_last_zero p z : last (quot_lin p z) 0 = 0.
  Proof.
    unfold quot_lin. induction p as [|c t IH]; [reflexivity|].
    rewrite sdiv_cons. cbn [fst]. destruct t as [|d t'].
    - reflexivity.
    - rewrite sdiv_cons in IH |- *. cbn [fst snd] in IH |- *.
      remember (fst (sdiv t' z)) as l. remember (snd (sdiv t' z)) as y.
      exact IH.
  Qed.

  Lemma trim_length_lt p : p <> [] -> last p 0 = 0 -> length (trim p) < length p.
  Proof.
    induction p as [|c t IH]; [intros H; exact (False_ind _ (H eq_refl))|].
    intros _ HL. rewrite trim_cons. destruct t as [|d t'].
    - cbn in HL. subst c. cbn [trim]. assert (fzerob 0 = true) as -> by (apply fzerob_true; reflexivity).
      cbn; lia.
    - assert (Ht : length (trim (d :: t')) < length (d :: t')) by (apply IH; [discriminate|exact HL]).
      destruct (trim (d :: t')) as [|e t''].
      + destruct (fzerob c); cbn [length] in *; lia.
      + cbn [length] in *. lia.
  Qed.

  Lemma witness_length p z : length (trim (quot_lin p z)) <= pred (length p).
  Proof.
    destruct p as [|c t]; [cbn; lia|].
    assert (H : length (trim (quot_lin (c :: t) z)) < length (quot_lin (c :: t) z)).
    { apply trim_length_lt; [|apply quot_last_zero].
      unfold quot_lin. rewrite sdiv_cons. discriminate. }
    rewrite sdiv_length in H. lia.
  Qed.

  (* MSM over the published powers *)
  Lemma msm_nil_r b : msm b [] = 0.
  Proof. destruct b; reflexivity. Qed.

  Lemma msm_powers_from g cur b n p :
    length p <= n ->
    msm (map (fun s => g * s) (powers_from cur b n)) p = g * cur * eval p b.
  Proof.
    revert cur p; induction n as [|n IH]; intros cur p Hl.
    - destruct p; [cbn; ring|cbn in Hl; lia].
    - destruct p as [|c t]; [cbn; ring|].
      cbn [powers_from map msm eval]. rewrite IH by (cbn in Hl; lia). ring.
  Qed.

  Lemma msm_powers g b n p :
    length p <= n -> msm (map (fun s => g * s) (powers b n)) p = g * eval p b.
  Proof. intros H. unfold powers. rewrite msm_powers_from by exact H. ring. Qed.

  Lemma firstn_powers_from cur b n m :
    m <= n -> firstn m (powers_from cur b n) = powers_from cur b m.
  Proof.
    revert cur m; induction n as [|n IH]; intros cur m H.
    - assert (m = O) by lia. subst. reflexivity.
    - destruct m as [|m]; [reflexivity|]. cbn [powers_from firstn]. rewrite IH by lia. reflexivity.
  Qed.

  Lemma firstn_powers b n m : m <= n -> firstn m (powers b n) = powers b m.
  Proof. apply firstn_powers_from. Qed.

  Lemma powers_from_length cur b n : length (powers_from cur b n) = n.
  Proof. revert cur; induction n as [|n IH]; intros cur; cbn; [reflexivity|rewrite IH; reflexivity]. Qed.

  Lemma nth_powers_from cur b n i : i < n -> nth i (powers_from cur b n) 0 = cur * fpow b i.
  Proof.
    revert cur i; induction n as [|n IH]; intros cur i H; [lia|].
    destruct i as [|i]; cbn [powers_from nth fpow]; [ring|].
    rewrite IH by lia. ring.
  Qed.

  (* skipping low-order zero coefficients does not change the MSM *)
  Lemma skip_leading_zeros_msm bases p :
    let '(n, s) := skip_leading_zeros p in msm (skipn n bases) s = msm bases p.
  Proof.
    revert bases; induction p as [|c t IH]; intros bases.
    - cbn. destruct bases; reflexivity.
    - cbn [skip_leading_zeros]. destruct (fzerob c) eqn:Z.
      + apply fzerob_true in Z. subst c.
        destruct bases as [|b bs].
        * specialize (IH []). destruct (skip_leading_zeros t) as [n s].
          cbn [skipn msm]. rewrite skipn_nil in IH. exact IH.
        * specialize (IH bs). destruct (skip_leading_zeros t) as [n s].
          cbn [skipn msm]. rewrite IH. ring.
      + reflexivity.
  Qed.

  Lemma eval_fsum_scale : forall (l : list F) c, fsum (map (fmul c) l) = c * fsum l.
  Proof. induction l as [|x t IH]; intros c; cbn [map fsum]; [ring|rewrite IH; ring]. Qed.

  (* A non-zero polynomial of length n has fewer than n roots: stated as
     "a list with n pairwise distinct roots and length <= n is identically 0". *)
  Lemma root_factor p z : eval p z = 0 -> forall x, eval p x = eval (quot_lin p z) x * (x - z).
  Proof. intros H x. rewrite (sdiv_spec p z x), H. ring. Qed.

  Lemma poly_roots_zero : forall (roots : list F) (p : poly),
      NoDup roots -> (forall r, In r roots -> eval p r = 0) ->
      length (trim p) <= length roots -> forall x, eval p x = 0.
  Proof.
    induction roots as [|z zs IH]; intros p Hnd Hr Hl x.
    - apply trim_nil_eval. destruct (trim p); [reflexivity|cbn in Hl; lia].
    - destruct (trim p) as [|c0 t0] eqn:Etp; [apply trim_nil_eval; exact Etp|].
      rewrite <- eval_trim.
      assert (Hz : eval (trim p) z = 0) by (rewrite eval_trim; apply Hr; left; reflexivity).
      rewrite (root_factor _ _ Hz x).
      inversion Hnd as [|? ? Hnin Hnd']; subst.
      rewrite <- (eval_trim (quot_lin (trim p) z)).
      rewrite (IH (trim (quot_lin (trim p) z))); [ring|exact Hnd'| |].
      + intros r Hin. rewrite eval_trim.
        assert (Hrr : eval (trim p) r = 0) by (rewrite eval_trim; apply Hr; right; exact Hin).
        rewrite (root_factor _ _ Hz r) in Hrr.
        destruct (f_integral _ _ Hrr) as [E|E]; [exact E|].
        apply (proj1 (fsub_eq_0 _ _)) in E. rewrite E in Hin. contradiction.
      + rewrite trim_idem. pose proof (witness_length (trim p) z) as W.
        rewrite Etp in *. cbn [length] in *. lia.
  Qed.
End PolyFacts.
