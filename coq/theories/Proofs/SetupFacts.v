(* C09: universal parameters are internally consistent, trimmed keys are faithful sub-keys. *)
From Coq Require Import List Arith NArith Bool Lia Field Ring.
From PC Require Import Base.Field Base.Result Base.Poly Base.OrdMap Proofs.PolyFacts
     Schemes.KZG10 Schemes.LC Schemes.Marlin Proofs.KZG10Facts Proofs.MarlinComplete Proofs.MarlinBounds.
Import ListNotations.
Open Scope F_scope.

Section SetupFacts.
  Context {FO : FieldOps} {FL : FieldLaws FO}.
  Add Field Ffield14 : FL_field.

  (* every published G1 power is the stated power of the one trapdoor *)
  Theorem setup_powers D g2 beta g gamma_g h up :
    setup D g2 beta g gamma_g h = Ok up ->
    length (up_powers_of_g up) = (D + 1)%nat /\ length (up_powers_of_gamma_g up) = (D + 2)%nat /\
    (forall i, (i <= D)%nat -> nth i (up_powers_of_g up) 0 = g * fpow beta i) /\
    (forall i, (i <= D + 1)%nat -> nth i (up_powers_of_gamma_g up) 0 = gamma_g * fpow beta i) /\
    up_h up = h /\ up_beta_h up = h * beta.
  Proof.
    intros Hs. destruct (setup_ok _ _ _ _ _ _ _ Hs) as (HD & Hg & Hgg & Hh & Hbh).
    assert (Eg : up_powers_of_g up = gpowers g 1 beta (D + 1)) by (rewrite Hg; reflexivity).
    assert (Egg : up_powers_of_gamma_g up = gpowers gamma_g 1 beta (D + 2)) by (rewrite Hgg; reflexivity).
    rewrite Eg, Egg. rewrite !gpowers_length. repeat split; auto.
    - intros i Hi. rewrite nth_gpowers by lia. ring.
    - intros i Hi. rewrite nth_gpowers by lia. ring.
  Qed.

  (* the pairing checks e(P_{i+1}, h) = e(P_i, beta*h) hold for every index *)
  Theorem setup_pairing_consistent D g2 beta g gamma_g h up i :
    setup D g2 beta g gamma_g h = Ok up -> (i < D)%nat ->
    nth (S i) (up_powers_of_g up) 0 * up_h up = nth i (up_powers_of_g up) 0 * up_beta_h up /\
    nth (S i) (up_powers_of_gamma_g up) 0 * up_h up = nth i (up_powers_of_gamma_g up) 0 * up_beta_h up.
  Proof.
    intros Hs Hi. destruct (setup_powers _ _ _ _ _ _ _ Hs) as (_ & _ & Pg & Pgg & Hh & Hbh).
    rewrite !Pg, !Pgg, Hh, Hbh by lia. cbn [fpow]. split; ring.
  Qed.

  Lemma nth_npowers_from : forall n cur b i, b <> 0 -> (i < n)%nat ->
      nth i (npowers_from cur b n) 0 * fpow b i = cur.
  Proof.
    induction n as [|n IH]; intros cur b i Hb Hi; [lia|].
    destruct i as [|i]; cbn [npowers_from nth fpow]; [ring|].
    transitivity ((nth i (npowers_from (cur / b) b n) 0 * fpow b i) * b); [ring|].
    rewrite IH by (auto; lia). field. exact Hb.
  Qed.

  Lemma npowers_from_length : forall n c b, length (npowers_from c b n) = n.
  Proof. induction n as [|n IH]; intros c b; cbn [npowers_from length]; [reflexivity|rewrite IH; reflexivity]. Qed.

  (* negative powers in G2 (Sonic): h_i * beta^i = h *)
  Theorem setup_neg_powers D beta g gamma_g h up i :
    setup D true beta g gamma_g h = Ok up -> beta <> 0 -> (i <= D)%nat ->
    nth i (up_neg_powers_of_h up) 0 * fpow beta i = h /\ length (up_neg_powers_of_h up) = (D + 1)%nat.
  Proof.
    intros Hs Hb Hi. unfold setup in Hs. destruct (Nat.ltb D 1); [discriminate|]. inversion Hs; subst; clear Hs.
    cbn [up_neg_powers_of_h]. split.
    - destruct i as [|i]; cbn [map nth fpow]; [ring|].
      rewrite (nth_indep _ 0 (h * 0)).
      + rewrite (map_nth (fun s => h * s)).
        transitivity (h * ((nth i (npowers_from (1 / beta) beta D) 0 * fpow beta i) * beta)); [ring|].
        rewrite nth_npowers_from by (auto; lia). field. exact Hb.
      + rewrite map_length, npowers_from_length. lia.
    - cbn [length]. rewrite map_length, npowers_from_length. lia.
  Qed.

  (* trimmed keys are faithful sub-keys: same generators, exactly the requested powers *)
  Theorem trim_is_subkey D beta g gamma_g h up s sh bounds ck vk :
    setup D false beta g gamma_g h = Ok up ->
    mtrim up s sh bounds = Ok (ck, vk) ->
    ck_powers ck = firstn (s + 1) (up_powers_of_g up) /\
    ck_gamma ck = firstn (sh + 2) (up_powers_of_gamma_g up) /\
    mvk_vk vk = vk_of up /\ mvk_supported vk = s /\ mvk_max vk = D /\ ck_max_degree ck = D /\
    ck_supported ck = s /\ (s <= D)%nat /\
    ck_bounds ck = option_map sort_dedup bounds.
  Proof.
    intros Hs Ht. destruct (mtrim_keyok _ _ _ _ _ _ _ _ _ _ _ Hs Ht) as (KO & HsD & Hmax & Hb).
    destruct (setup_ok _ _ _ _ _ _ _ Hs) as (HD & Hg & Hgg & _).
    assert (HmaxD : max_degree up = D).
    { unfold max_degree. rewrite Hg, map_length. unfold powers. rewrite powers_from_length. lia. }
    unfold mtrim in Ht. cbv zeta in Ht. rewrite !HmaxD in Ht.
    destruct (Nat.ltb D s); [discriminate|].
    destruct (index_all _ _) as [gam| |] eqn:Eg; cbn [bind] in Ht; try discriminate.
    destruct (index_all_seq _ _ _ _ Eg) as [Egam _]. cbn [skipn] in Egam.
    assert (Hlen : length (firstn (s + 1) (up_powers_of_g up)) = (s + 1)%nat).
    { rewrite firstn_length, Hg, map_length. unfold powers. rewrite powers_from_length. lia. }
    destruct (match option_map sort_dedup bounds with
              | Some [] => _ | Some (n :: l) => _ | None => _ end) as [[a b]| |]; cbn [bind fst snd] in Ht; try discriminate.
    inversion Ht; subst ck vk; clear Ht. cbn [ck_powers ck_gamma mvk_vk mvk_supported mvk_max ck_max_degree ck_bounds].
    unfold ck_supported. cbn [ck_powers]. rewrite Hlen. repeat split; auto. lia.
  Qed.

  (* prepared tables (kzg10::PreparedVerifierKey, PreparedCommitment): successive doublings *)
  Fixpoint doublings (x : F) (n : nat) : list F := match n with O => [] | S k => x :: doublings (x + x) k end.
  Theorem doublings_spec x : forall n i, (i < n)%nat -> nth i (doublings x n) 0 = fpow (1 + 1) i * x.
  Proof.
    intros n; revert x; induction n as [|n IH]; intros x i Hi; [lia|].
    destruct i as [|i]; cbn [doublings nth fpow]; [ring|]. rewrite IH by lia. ring.
  Qed.
End SetupFacts.
