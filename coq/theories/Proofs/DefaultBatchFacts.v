(* The default batch verifier of the trait: its verdict is the conjunction of the verdicts of the scheme's own check on
   the groups of the query set, taken in order on the shared transcript; an error or abort of any group is the result. *)
From Coq Require Import List Arith NArith Bool Lia.
From PC Require Import Base.Field Base.Result Base.Poly Schemes.DefaultBatch.
Import ListNotations.

Section DefaultBatchFacts.
  Context {FO : FieldOps}.
  Variables (Comm Proof St : Type).
  Variable check : list Comm -> point -> list F -> Proof -> St -> res (bool * St).

  (* the same traversal, collecting the verdicts *)
  Fixpoint bverdicts (cm : list (N * Comm)) (ev : list (N * point * F)) (gs : list (N * (point * list N)))
           (proofs : list Proof) (st : St) : res (list bool * St) :=
    match gs, proofs with
    | (_, (pt, labels)) :: gs', pf :: proofs' =>
      do cv <- gather_v Comm cm ev pt labels;
      do r <- check (fst cv) pt (snd cv) pf st;
      do rest <- bverdicts cm ev gs' proofs' (snd r);
      Ok (fst r :: fst rest, snd rest)
    | _, _ => Ok ([], st)
    end.

  Lemma bcheck_loop_spec cm ev : forall gs proofs st result,
    bcheck_loop Comm Proof St check cm ev gs proofs st result
    = (do r <- bverdicts cm ev gs proofs st; Ok (result && forallb (fun b => b) (fst r), snd r)).
  Proof.
    induction gs as [|[pl [pt labels]] gs IH]; intros proofs st result.
    - cbn [bcheck_loop bverdicts bind forallb fst snd]. rewrite andb_true_r. reflexivity.
    - destruct proofs as [|pf proofs]; cbn [bcheck_loop bverdicts].
      + cbn [bind forallb fst snd]. rewrite andb_true_r. reflexivity.
      + destruct (gather_v Comm cm ev pt labels) as [cv| |]; cbn [bind]; try reflexivity.
        destruct (check (fst cv) pt (snd cv) pf st) as [[b st1]| |]; cbn [bind fst snd]; try reflexivity.
        rewrite IH. destruct (bverdicts cm ev gs proofs st1) as [[vs st2]| |]; cbn [bind fst snd forallb]; try reflexivity.
        rewrite andb_assoc. reflexivity.
  Qed.

  (* batch verdict = AND of the group verdicts; in particular it is true only if every group was accepted *)
  Theorem default_batch_is_and cs qs ev proofs st :
    length proofs = length (groups qs) ->
    default_batch_check Comm Proof St check cs qs ev proofs st
    = (do r <- bverdicts (label_map cs) ev (groups qs) proofs st; Ok (forallb (fun b => b) (fst r), snd r)).
  Proof.
    intros L. unfold default_batch_check. rewrite L, Nat.eqb_refl. cbn [negb]. rewrite bcheck_loop_spec.
    destruct (bverdicts _ ev (groups qs) proofs st) as [[vs st2]| |]; reflexivity.
  Qed.

  Theorem default_batch_wrong_count cs qs ev proofs st :
    length proofs <> length (groups qs) -> default_batch_check Comm Proof St check cs qs ev proofs st = Panic.
  Proof.
    intros L. unfold default_batch_check. destruct (Nat.eqb_spec (length proofs) (length (groups qs))); [contradiction|reflexivity].
  Qed.
End DefaultBatchFacts.
