(* The default batch verifier of the trait: its verdict is the conjunction of the verdicts of the scheme's own check on
   the groups of the query set, taken in order on the shared transcript; an error or abort of any group is the result. *)
From Coq Require Import List Arith NArith Bool Lia.
From PC Require Import Base.Field Base.Result Base.Poly Base.OrdMap Schemes.LC Schemes.DefaultBatch.
Import ListNotations.

Section DefaultBatchFacts.
  Context {FO : FieldOps}.
  Variables (Comm Proof St : Type).
  Variable check : list Comm -> point -> list F -> Proof -> St -> res (bool * St).

  (* the same traversal, collecting the verdicts *)
  Fixpoint bverdicts (cm : list (N * Comm)) (ev : list (N * point * F)) (gs : list (N * (point * list N)))
           (proofs : list Proof) (st : St) : res (list bool * St) :=
    match gs, proofs with
    | (_, (pt, labels)) :: gs', pf :: proofs' =>
      do cv <- gather_v Comm cm ev pt labels;
      do r <- check (fst cv) pt (snd cv) pf st;
      do rest <- bverdicts cm ev gs' proofs' (snd r);
      Ok (fst r :: fst rest, snd rest)
    | _, _ => Ok ([], st)
    end.

  Lemma bcheck_loop_spec cm ev : forall gs proofs st result,
    bcheck_loop Comm Proof St check cm ev gs proofs st result
    = (do r <- bverdicts cm ev gs proofs st; Ok (result && forallb (fun b => b) (fst r), snd r)).
  Proof.
    induction gs as [|[pl [pt labels]] gs IH]; intros proofs st result.
    - cbn [bcheck_loop bverdicts bind forallb fst snd]. rewrite andb_true_r. reflexivity.
    - destruct proofs as [|pf proofs]; cbn [bcheck_loop bverdicts].
      + cbn [bind forallb fst snd]. rewrite andb_true_r. reflexivity.
      + destruct (gather_v Comm cm ev pt labels) as [cv| |]; cbn [bind]; try reflexivity.
        destruct (check (fst cv) pt (snd cv) pf st) as [[b st1]| |]; cbn [bind fst snd]; try reflexivity.
        rewrite IH. destruct (bverdicts cm ev gs proofs st1) as [[vs st2]| |]; cbn [bind fst snd forallb]; try reflexivity.
        rewrite andb_assoc. reflexivity.
  Qed.

  (* batch verdict = AND of the group verdicts; in particular it is true only if every group was accepted *)
  Theorem default_batch_is_and cs qs ev proofs st :
    length proofs = length (groups qs) ->
    default_batch_check Comm Proof St check cs qs ev proofs st
    = (do r <- bverdicts (label_map cs) ev (groups qs) proofs st; Ok (forallb (fun b => b) (fst r), snd r)).
  Proof.
    intros L. unfold default_batch_check. rewrite L, Nat.eqb_refl. cbn [negb]. rewrite bcheck_loop_spec.
    destruct (bverdicts _ ev (groups qs) proofs st) as [[vs st2]| |]; reflexivity.
  Qed.

  Theorem default_batch_wrong_count cs qs ev proofs st :
    length proofs <> length (groups qs) -> default_batch_check Comm Proof St check cs qs ev proofs st = Panic.
  Proof.
    intros L. unfold default_batch_check. destruct (Nat.eqb_spec (length proofs) (length (groups qs))); [contradiction|reflexivity].
  Qed.
End DefaultBatchFacts.

Section DefaultLCFacts.
  Context {FO : FieldOps} {FL : FieldLaws FO}.
  Variables (Comm Proof St : Type).
  Variable check : list Comm -> point -> list F -> Proof -> St -> res (bool * St).

  (* the claim of one equation query holds against the transmitted polynomial evaluations *)
  Definition claim_holds (lcm : list (N * lc)) (pev eqn_ev : list (pkey * F)) (q : query) : Prop :=
    match OrdMap.lookup N.compare (fst q) lcm with
    | None => True
    | Some terms => exists claimed, lookup_pk (fst q, snd (snd q)) eqn_ev = Some claimed /\
                                    lc_rhs pev (snd (snd q)) terms f0 = Ok claimed
    end.

  Lemma eqn_loop_none_all lcm pev eqn_ev : forall qs,
    eqn_loop lcm pev eqn_ev qs = None -> Forall (claim_holds lcm pev eqn_ev) qs.
  Proof.
    induction qs as [|[lab [pl pt]] qs IH]; intros H; [constructor|].
    cbn [eqn_loop] in H. constructor.
    - unfold claim_holds. cbn [fst snd].
      destruct (OrdMap.lookup N.compare lab lcm) as [terms|]; [|exact I].
      destruct (lookup_pk (lab, pt) eqn_ev) as [claimed|]; [|discriminate].
      destruct (lc_rhs pev pt terms f0) as [actual| |]; try discriminate.
      destruct (feqb claimed actual) eqn:E; [|discriminate].
      apply FL_eqb in E. subst actual. exists claimed. split; reflexivity.
    - apply IH. destruct (OrdMap.lookup N.compare lab lcm) as [terms|]; [|exact H].
      destruct (lookup_pk (lab, pt) eqn_ev) as [claimed|]; [|discriminate].
      destruct (lc_rhs pev pt terms f0) as [actual| |]; try discriminate.
      destruct (feqb claimed actual); [exact H|discriminate].
  Qed.

  (* the default check_combinations accepts only if the claim of EVERY equation query (every equation at every one of its
     points) equals the combination of the transmitted evaluations, and the batch check of those evaluations accepts *)
  Theorem default_check_combinations_true lcs cs eqn_qs eqn_ev proofs evs st st' :
    default_check_combinations Comm Proof St check lcs cs eqn_qs eqn_ev proofs (Some evs) st = Ok (true, st') ->
    let lcm := lcs_map lcs in
    let pqs := lc_qs_to_poly_qs lcm eqn_qs in
    let pev := combine (poly_point_keys pqs) evs in
    Forall (claim_holds lcm pev eqn_ev) eqn_qs /\
    default_batch_check Comm Proof St check cs pqs (map (fun kv => (fst (fst kv), snd (fst kv), snd kv)) pev) proofs st = Ok (true, st').
  Proof.
    intros H. cbv zeta. unfold default_check_combinations in H.
    destruct (eqn_loop _ _ eqn_ev eqn_qs) as [[[|]| |]|] eqn:E; try discriminate.
    - exfalso. revert E. generalize (combine (poly_point_keys (lc_qs_to_poly_qs (lcs_map lcs) eqn_qs)) evs). intros pev.
      induction eqn_qs as [|[lab [pl pt]] qs IH]; cbn [eqn_loop]; [discriminate|].
      destruct (OrdMap.lookup N.compare lab (lcs_map lcs)) as [terms|]; [|exact IH].
      destruct (lookup_pk (lab, pt) eqn_ev) as [claimed|]; [|discriminate].
      destruct (lc_rhs pev pt terms f0) as [actual| |]; try discriminate.
      destruct (feqb claimed actual); [exact IH|discriminate].
    - split; [apply eqn_loop_none_all; exact E|exact H].
  Qed.
End DefaultLCFacts.
