(* Sonic linear-combination openings (C06): the homomorphic combination of honest commitments to polynomials without
   degree bounds is an honest commitment triple of exactly the stated combination; a single degree-bounded polynomial with
   coefficient one keeps its bound; the degree-bound policy; constant terms move into the claims of that combination. *)
From Coq Require Import List Arith NArith Bool Lia Field Ring.
From PC Require Import Base.Field Base.Result Base.Poly Base.OrdMap Proofs.PolyFacts
     Schemes.KZG10 Schemes.LC Schemes.Marlin Schemes.MarlinLC Schemes.Sonic Schemes.SonicLC
     Proofs.KZG10Facts Proofs.LCFacts Proofs.MarlinComplete Proofs.MarlinLCFacts.
Import ListNotations.
Open Scope F_scope.

Section SonicLCFacts.
  Context {FO : FieldOps} {FL : FieldLaws FO}.
  Add Field Ffield44 : FL_field.

  Theorem s_prover_refuses_bounded_mix lm num coeff l t a lp st c d :
    lookup N.compare l lm = Some (lp, st, c) -> lp_bound lp = Some d -> num <> 1%nat ->
    slc_prover_loop lm num ((coeff, TPoly l) :: t) a = Err EEquationHasDegreeBounds.
  Proof. intros Hl Hb Hn. cbn [slc_prover_loop]. rewrite Hl, Hb, policy_bounded_in_mix by exact Hn. reflexivity. Qed.

  Theorem s_verifier_refuses_bounded_mix cm lab num coeff l t ev b cc c d :
    lookup N.compare l cm = Some (c, Some d) -> num <> 1%nat ->
    slc_verifier_loop cm lab num ((coeff, TPoly l) :: t) ev b cc = Err EEquationHasDegreeBounds.
  Proof. intros Hl Hn. cbn [slc_verifier_loop]. rewrite Hl. cbn [snd]. rewrite policy_bounded_in_mix by exact Hn. reflexivity. Qed.

  Theorem s_constant_term_moves_to_claim cm lab num coeff t ev b cc :
    slc_verifier_loop cm lab num ((coeff, TOne) :: t) ev b cc =
    slc_verifier_loop cm lab num t
      (map (fun kv => if N.eqb (fst (fst kv)) lab then (fst kv, snd kv - coeff) else kv) ev) b cc.
  Proof. reflexivity. Qed.

  (* the verifier's combined commitment is the coefficient-weighted sum of the looked-up commitments *)
  Fixpoint s_comm_value (cm : list (N * (F * option nat))) (terms : lc) : F :=
    match terms with
    | [] => 0
    | (_, TOne) :: t => s_comm_value cm t
    | (c, TPoly l) :: t => (match lookup N.compare l cm with Some x => fst x * c | None => 0 end) + s_comm_value cm t
    end.
  Lemma s_verifier_loop_comm cm lab num : forall terms ev b cc ev' b' cc',
    slc_verifier_loop cm lab num terms ev b cc = Ok (ev', b', cc') -> cc' = cc + s_comm_value cm terms.
  Proof.
    induction terms as [|[co [|l]] t IH]; intros ev b cc ev' b' cc' H; cbn [slc_verifier_loop] in H.
    - injection H as _ _ <-. cbn [s_comm_value]. ring.
    - rewrite (IH _ _ _ _ _ _ H). cbn [s_comm_value]. ring.
    - destruct (lookup N.compare l cm) as [c|] eqn:El; [|discriminate].
      destruct (bound_policy num co (snd c) b); cbn [bind] in H; try discriminate.
      rewrite (IH _ _ _ _ _ _ H). cbn [s_comm_value]. rewrite El. ring.
  Qed.

  Section WithKey.
    Variables (vk : SVKey) (h g gam beta : F) (m : nat).

    (* an honest (polynomial, blinding polynomial, commitment): consistent with the shift element of its bound *)
    Definition s_honest (it : LPoly * Rand * F) : Prop :=
      exists sp, shift_power vk (lp_bound (fst (fst it))) = Ok sp /\
                 snd it * sp = h * (g * eval (lp_poly (fst (fst it))) beta + gam * eval (snd (fst it)) beta) /\
                 (length (snd (fst it)) <= m)%nat.
    Definition s_lm_honest (lm : list (N * (LPoly * Rand * F))) : Prop :=
      forall l it, lookup N.compare l lm = Some it -> s_honest it.
    Definition s_poly_of (lm : list (N * (LPoly * Rand * F))) (x : F) (l : N) : F :=
      match lookup N.compare l lm with Some (lp, _, _) => eval (lp_poly lp) x | None => 0 end.

    Definition SInv (lm : list (N * (LPoly * Rand * F))) (done : lc) (a : slc_acc) : Prop :=
      (forall x, eval (sa_poly a) x = lc_poly_value (s_poly_of lm x) done) /\
      (length (sa_rand a) <= m)%nat /\ sa_bound a = None /\
      sa_comm a * vk_h (svk_vk vk) = h * (g * eval (sa_poly a) beta + gam * eval (sa_rand a) beta).

    Lemma s_prover_loop_unbounded lm num : forall terms done a a',
        s_lm_honest lm ->
        (forall co l lp st c, In (co, TPoly l) terms -> lookup N.compare l lm = Some (lp, st, c) -> lp_bound lp = None) ->
        SInv lm done a ->
        slc_prover_loop lm num terms a = Ok a' -> SInv lm (done ++ terms) a'.
    Proof.
      induction terms as [|[co [|l]] t IH]; intros done a a' Hlm Hnb HI H; cbn [slc_prover_loop] in H.
      - inversion H; subst. rewrite app_nil_r. exact HI.
      - replace (done ++ (co, TOne) :: t) with ((done ++ [(co, TOne)]) ++ t) by (rewrite <- app_assoc; reflexivity).
        apply (IH (done ++ [(co, TOne)]) a a' Hlm); [intros; eapply Hnb; [right; eassumption|eassumption]| |exact H].
        destruct HI as (I1 & I2 & I3 & I4). repeat split; auto.
        intros x. rewrite lc_poly_value_app, I1. cbn [lc_poly_value]. ring.
      - destruct (lookup N.compare l lm) as [[[lp st] c]|] eqn:El; [|discriminate].
        assert (Hb : lp_bound lp = None) by (eapply Hnb; [left; reflexivity|exact El]).
        rewrite Hb in H. cbn [bound_policy bind] in H.
        replace (done ++ (co, TPoly l) :: t) with ((done ++ [(co, TPoly l)]) ++ t) by (rewrite <- app_assoc; reflexivity).
        eapply (IH (done ++ [(co, TPoly l)]) _ a' Hlm); cycle 2; [exact H|intros; eapply Hnb; [right; eassumption|eassumption]|].
        destruct HI as (I1 & I2 & I3 & I4).
        destruct (Hlm _ _ El) as (sp & Esp & Ec & Lr). cbn [fst snd] in Esp, Ec, Lr. rewrite Hb in Esp. cbn [shift_power] in Esp.
        injection Esp as <-.
        unfold SInv. cbn [sa_poly sa_bound sa_rand sa_comm]. repeat split; auto.
        + intros x. rewrite eval_padd_scaled, lc_poly_value_app, I1. cbn [lc_poly_value]. unfold s_poly_of at 3. rewrite El. ring.
        + rewrite length_padd_scaled. lia.
        + rewrite !eval_padd_scaled.
          transitivity (sa_comm a * vk_h (svk_vk vk) + co * (c * vk_h (svk_vk vk))); [ring|]. rewrite I4, Ec. ring.
    Qed.

    Theorem slc_prover_one_unbounded lm (l : lcomb) lp st c :
      s_lm_honest lm ->
      (forall co lab lp' st' c', In (co, TPoly lab) (snd l) -> lookup N.compare lab lm = Some (lp', st', c') -> lp_bound lp' = None) ->
      slc_prover_one lm l = Ok (lp, st, c) ->
      s_honest (lp, st, fst c) /\ lp_label lp = fst l /\ snd c = lp_bound lp /\ lp_bound lp = None /\
      forall x, eval (lp_poly lp) x + lc_const (snd l) = lc_value (s_poly_of lm x) (snd l).
    Proof.
      intros Hlm Hnb H. unfold slc_prover_one in H.
      set (a0 := {| sa_poly := []; sa_bound := None; sa_hiding := None; sa_rand := []; sa_comm := 0 |}) in *.
      destruct (slc_prover_loop lm (length (snd l)) (snd l) a0) as [a| |] eqn:EL; cbn [bind] in H; try discriminate.
      assert (HI : SInv lm [] a0).
      { unfold SInv. cbn. repeat split; auto; try lia. ring. }
      pose proof (s_prover_loop_unbounded lm (length (snd l)) (snd l) [] a0 a Hlm Hnb HI EL) as (I1 & I2 & I3 & I4). cbn [app] in I1.
      inversion H; subst lp st c; clear H. cbn [fst snd lp_bound lp_poly lp_label].
      repeat split; auto.
      - exists (vk_h (svk_vk vk)). cbn [fst snd lp_bound lp_poly]. rewrite I3. repeat split; auto.
      - intros x. rewrite lc_value_split, I1. reflexivity.
    Qed.

    (* a single degree-bounded polynomial with coefficient one keeps its bound; the triple stays honest for that bound *)
    Theorem slc_prover_one_bounded_single lm lab l lp0 st0 c0 d lp st c :
      s_lm_honest lm -> lookup N.compare l lm = Some (lp0, st0, c0) -> lp_bound lp0 = Some d ->
      slc_prover_one lm (lab, [(1, TPoly l)]) = Ok (lp, st, c) ->
      s_honest (lp, st, fst c) /\ lp_bound lp = Some d /\ snd c = Some d /\ forall x, eval (lp_poly lp) x = eval (lp_poly lp0) x.
    Proof.
      intros Hlm El Hb H. unfold slc_prover_one in H. cbn [snd length slc_prover_loop] in H. rewrite El, Hb in H.
      rewrite policy_bounded_alone_coeff_one in H. cbn [bind slc_prover_loop sa_poly sa_bound sa_rand sa_comm] in H.
      destruct (Hlm _ _ El) as (sp & Esp & Ec & Lr). cbn [fst snd] in Esp, Ec, Lr.
      inversion H; subst lp st c; clear H. cbn [fst snd lp_bound lp_poly].
      repeat split; auto.
      - exists sp. cbn [fst snd lp_bound lp_poly]. rewrite <- Hb. repeat split; auto.
        + rewrite !eval_padd_scaled. cbn [eval]. transitivity (c0 * sp); [ring|]. rewrite Ec. ring.
        + rewrite length_padd_scaled. cbn [length]. lia.
      - intros x. rewrite eval_padd_scaled. cbn [eval]. ring.
    Qed.
  End WithKey.
End SonicLCFacts.
