(* C07 for the Pedersen-style schemes: where the blinding scalars come from and how many are drawn.
   Hyrax: one fresh blinder per matrix row at commit; dim + 3 fresh scalars per opened polynomial (the evaluation blinder, the
   mask vector d, its two blinders), disjoint slices of the RNG tape for the polynomials of one opening.
   IPA: one draw per hiding commitment, two with a degree bound, none without hiding; the drawn scalars ARE the commitment's
   randomness. *)
From Coq Require Import List Arith NArith Bool Lia.
From PC Require Import Base.Field Base.Result Base.Poly Schemes.LC Schemes.Marlin Schemes.MLPC Schemes.Hyrax Schemes.IPA.
Import ListNotations.

Section HidingDraws.
  Context {FO : FieldOps}.

  Theorem hyrax_commit_draws keylen nv evals tape rows st k :
    h_commit1 keylen nv evals tape = Ok (rows, st, k) ->
    k = (2 ^ (nv / 2))%nat /\ hs_rand st = firstn k tape /\ length (hs_rand st) = k.
  Proof.
    unfold h_commit1. destruct (Nat.odd nv); [discriminate|]. destruct (keylen <? nv)%nat; [discriminate|].
    destruct (negb _); [discriminate|]. destruct (length tape <? 2 ^ (nv / 2))%nat eqn:El; [discriminate|].
    match goal with |- context [bind ?X _] => destruct X as [rs| |] end; cbn [bind]; try discriminate.
    intros H. injection H as _ <- <-. cbn [hs_rand]. split; [reflexivity|]. split; [reflexivity|].
    apply Nat.ltb_ge in El. rewrite firstn_length. apply Nat.min_l. exact El.
  Qed.

  Theorem hyrax_open_draws keylen point st tape c pf k :
    h_open1 keylen point st tape c = Ok (pf, k) ->
    k = (2 ^ (length point / 2) + 3)%nat /\ (k <= length tape)%nat /\ hp_reval pf = nth 0 tape f0.
  Proof.
    unfold h_open1. destruct (h_lr point) as [l r].
    destruct (length tape <? 2 ^ (length point / 2) + 3)%nat eqn:El; [discriminate|].
    destruct (negb _); [discriminate|].
    match goal with |- context [bind ?X _] => destruct X as [cd| |] end; cbn [bind]; try discriminate.
    intros H. injection H as <- <-. cbn [hp_reval]. apply Nat.ltb_ge in El. split; [reflexivity|]. split; [exact El|reflexivity].
  Qed.

  Lemma skipn_skipn' {A} : forall (b a : nat) (l : list A), skipn a (skipn b l) = skipn (b + a) l.
  Proof.
    induction b as [|b IH]; intros a l; [reflexivity|]. destruct l as [|x l]; cbn [skipn Nat.add].
    - destruct a; reflexivity.
    - apply IH.
  Qed.

  (* the polynomials of one opening take consecutive, disjoint slices of the tape *)
  Theorem hyrax_open_loop_draws keylen point : forall sts otape chal pfs ot' ch',
    h_open_loop keylen point sts otape chal = Ok (pfs, ot', ch') ->
    ot' = skipn (length sts * (2 ^ (length point / 2) + 3)) otape /\ length pfs = length sts.
  Proof.
    induction sts as [|st sts IH]; intros otape chal pfs ot' ch' H; cbn [h_open_loop] in H.
    - injection H as <- <- _. split; reflexivity.
    - destruct chal as [|c chal']; [discriminate|].
      destruct (h_open1 keylen point st otape c) as [[pf k]| |] eqn:E1; cbn [bind] in H; try discriminate.
      destruct (h_open_loop keylen point sts (skipn k otape) chal') as [[[pfs1 o1] c1]| |] eqn:E2; cbn [bind] in H; try discriminate.
      injection H as <- <- _.
      destruct (hyrax_open_draws _ _ _ _ _ _ _ E1) as (Ek & _ & _).
      destruct (IH _ _ _ _ _ E2) as [Eo Lp]. split; [|cbn [length]; lia].
      assert (Em : (2 ^ (length point / 2) + 3 + length sts * (2 ^ (length point / 2) + 3)
                    = length (st :: sts) * (2 ^ (length point / 2) + 3))%nat)
        by (cbn [length]; rewrite Nat.mul_succ_l; apply Nat.add_comm).
      rewrite Eo, skipn_skipn', Ek, Em. reflexivity.
  Qed.

  Theorem ipa_commit_draws d lp rng cm st n :
    i_commit1 d lp rng = Ok (cm, st, n) ->
    match lp_hiding lp, rng with
    | None, _ => n = O /\ ir_rand st = f0 /\ ir_shifted st = None
    | Some _, None => False
    | Some _, Some tape =>
      match lp_bound lp with
      | Some _ => n = 2%nat /\ ir_rand st = nth 0 tape f0 /\ ir_shifted st = Some (nth 1 tape f0) /\ (2 <= length tape)%nat
      | None => n = 1%nat /\ ir_rand st = nth 0 tape f0 /\ ir_shifted st = None /\ (1 <= length tape)%nat
      end
    end.
  Proof.
    unfold i_commit1. destruct (i_check_dab d (lp_poly lp) (lp_bound lp)) as [[]| |]; cbn [bind]; try discriminate.
    destruct (lp_hiding lp) as [hb|].
    - destruct rng as [tape|]; cbn [bind]; [|discriminate].
      destruct (lp_bound lp) as [b|].
      + destruct (length tape <? 2)%nat eqn:El; cbn [bind]; [discriminate|]. intros H. injection H as _ <- <-.
        apply Nat.ltb_ge in El. cbn [ir_rand ir_shifted]. repeat split; exact El.
      + destruct (length tape <? 1)%nat eqn:El; cbn [bind]; [discriminate|]. intros H. injection H as _ <- <-.
        apply Nat.ltb_ge in El. cbn [ir_rand ir_shifted]. repeat split; exact El.
    - cbn [bind]. intros H. injection H as _ <- <-. cbn [ir_rand ir_shifted]. repeat split.
  Qed.
End HidingDraws.
