(* C14: FoldedPolynomialStreamIter on streams of ANY length (depth >= 1): it yields exactly the last naive folding of the
   zero-padded stream, block by block.  With an even padding the pre-seeded stack is what reading the padding two coefficients at a
   time leaves; with an odd padding the level-0 entry init_stack puts on top makes the iterator read the first coefficient alone and
   merge it with that zero - the same item a double read of (0, first coefficient) yields. *)
From Coq Require Import List Arith NArith Bool Lia Field Ring.
From PC Require Import Base.Field Base.Result Base.Poly Proofs.PolyFacts Schemes.StreamKZG Proofs.StreamIter Proofs.StreamIterPad Proofs.StreamIterS.
Import ListNotations.
Open Scope F_scope.

Section StreamIterSPad.
  Context {FO : FieldOps} {FL : FieldLaws FO}.
  Add Field Ffield59 : FL_field.
  Variable chs : list F.
  Hypothesis Hdepth : (1 <= length chs)%nat.

  Fixpoint szsteps (i delta : nat) : nat :=
    match i with
    | O => O
    | S i' => if (2 ^ i' <=? delta)%nat then (ssteps i' + szsteps i' (delta - 2 ^ i'))%nat else szsteps i' delta
    end.

  Lemma even_sub_pow2 delta k : (1 <= k)%nat -> (2 ^ k <= delta)%nat -> Nat.even delta = true -> Nat.even (delta - 2 ^ k) = true.
  Proof.
    intros Hk Hle He. rewrite Nat.even_sub by exact Hle. rewrite He.
    destruct k as [|k]; [lia|]. rewrite Nat.pow_succ_r', Nat.even_mul. reflexivity.
  Qed.

  (* reading an even number of leading zeros, two at a time: no output, and the stack init_stack_loop builds *)
  Lemma szeros_run : forall i delta st inp fuel,
    Nat.even delta = true -> (delta < 2 ^ i)%nat -> (i <= length chs)%nat -> stable st -> topnz st -> allabove i st ->
    stream_run (szsteps i delta + fuel) chs st (repeat 0 delta ++ inp) = stream_run fuel chs (init_stack_loop delta i st) inp.
  Proof.
    induction i as [|i IH]; intros delta st inp fuel He Hd Hi Hs Ht Ha.
    - cbn in Hd. assert (delta = 0)%nat by lia. subst. reflexivity.
    - cbn [szsteps init_stack_loop].
      assert (Ha' : allabove i st) by (eapply Forall_impl; [|exact Ha]; cbn; intros e He'; lia).
      destruct (Nat.leb_spec (2 ^ i) delta) as [Hle|Hgt].
      + destruct i as [|i].
        { (* the lowest bit of an even number below 2 is not set *)
          cbn in Hle, Hd. assert (delta = 1)%nat by lia. subst. cbn in He. discriminate. }
        assert (E : repeat (@f0 FO) delta = repeat 0 (2 ^ S i) ++ repeat 0 (delta - 2 ^ S i)).
        { rewrite <- repeat_app. f_equal. lia. }
        rewrite E, <- app_assoc.
        replace (ssteps (S i) + szsteps (S i) (delta - 2 ^ S i) + fuel)%nat with (ssteps (S i) + (szsteps (S i) (delta - 2 ^ S i) + fuel))%nat by lia.
        assert (Hab : above (S i) st) by (destruct st as [|[l v] t]; [exact I|]; inversion Ha'; subst; assumption).
        rewrite (sblock_run chs Hdepth (S i) (repeat 0 (2 ^ S i)) st _ _ ltac:(lia) (repeat_length _ _) ltac:(lia) Hs Ht Hab).
        rewrite (bval_zero chs (S i) _ (allz_repeat _)).
        assert (Eo : sout chs (S i) 0 = []) by (unfold sout; destruct (Nat.eqb_spec (S i) (length chs)); [lia|reflexivity]).
        assert (Ep : spush chs (S i) 0 st = (S i, 0) :: st) by (unfold spush; destruct (Nat.eqb_spec (S i) (length chs)); [lia|reflexivity]).
        rewrite Eo, Ep. cbn [app].
        apply IH.
        * apply even_sub_pow2; [lia|exact Hle|exact He].
        * rewrite (Nat.pow_succ_r' 2 (S i)) in Hd. lia.
        * lia.
        * cbn [stable]. destruct st as [|[l v] t]; [exact I|]. inversion Ha; subst. cbn [fst] in *. lia.
        * cbn [topnz]. lia.
        * constructor; [cbn [fst]; lia|exact Ha'].
      + apply IH; [exact He|exact Hgt|lia|exact Hs|exact Ht|exact Ha'].
  Qed.

  (* for an odd padding init_stack_loop ends with a level-0 zero on top of the stack of the even part *)
  Lemma init_loop_odd : forall i delta st, Nat.even delta = false -> (delta < 2 ^ i)%nat ->
    init_stack_loop delta i st = (0%nat, 0) :: init_stack_loop (delta - 1) i st.
  Proof.
    induction i as [|i IH]; intros delta st Ho Hd.
    - cbn in Hd. assert (delta = 0)%nat by lia. subst. cbn in Ho. discriminate.
    - cbn [init_stack_loop]. destruct i as [|i].
      + cbn in Hd. assert (delta = 1)%nat by (destruct delta as [|[|d]]; [cbn in Ho; discriminate|reflexivity|lia]). subst. reflexivity.
      + destruct (Nat.leb_spec (2 ^ S i) delta) as [Hle|Hgt].
        * assert (Hle' : (2 ^ S i <= delta - 1)%nat).
          { assert (delta <> 2 ^ S i)%nat; [|lia]. intros ->. rewrite Nat.pow_succ_r', Nat.even_mul in Ho. discriminate. }
          destruct (Nat.leb_spec (2 ^ S i) (delta - 1)); [|lia].
          rewrite IH.
          -- f_equal. f_equal. lia.
          -- rewrite Nat.even_sub by exact Hle. rewrite Ho. rewrite Nat.pow_succ_r', Nat.even_mul. reflexivity.
          -- rewrite (Nat.pow_succ_r' 2 (S i)) in Hd. lia.
        * destruct (Nat.leb_spec (2 ^ S i) (delta - 1)); [lia|]. apply IH; [exact Ho|exact Hgt].
  Qed.

  Lemma init_loop_inv : forall i delta st, Nat.even delta = true -> (delta < 2 ^ i)%nat -> stable st -> topnz st -> allabove i st ->
    stable (init_stack_loop delta i st) /\ topnz (init_stack_loop delta i st).
  Proof.
    induction i as [|i IH]; intros delta st He Hd Hs Ht Ha; [split; assumption|].
    cbn [init_stack_loop].
    assert (Ha' : allabove i st) by (eapply Forall_impl; [|exact Ha]; cbn; intros e He'; lia).
    destruct (Nat.leb_spec (2 ^ i) delta) as [Hle|Hgt].
    - destruct i as [|i]; [cbn in Hle, Hd; assert (delta = 1)%nat by lia; subst; cbn in He; discriminate|].
      apply IH.
      + apply even_sub_pow2; [lia|exact Hle|exact He].
      + rewrite (Nat.pow_succ_r' 2 (S i)) in Hd. lia.
      + cbn [stable]. destruct st as [|[l v] t]; [exact I|]. inversion Ha; subst. cbn [fst] in *. lia.
      + cbn [topnz]. lia.
      + constructor; [cbn [fst]; lia|exact Ha'].
    - apply IH; assumption.
  Qed.

  (* the two ways of producing the first level-1 item when the padding is odd *)
  Lemma odd_first_item st c inp fuel : stable st -> topnz st ->
    stream_run (2 + fuel) chs ((0%nat, 0) :: st) (c :: inp) = stream_run (1 + fuel) chs st (0 :: c :: inp).
  Proof.
    intros Hs Ht.
    assert (Hd0 : (0 <? length chs)%nat = true) by (apply Nat.ltb_lt; lia).
    (* right: one double read *)
    change (1 + fuel)%nat with (S fuel). rewrite (stream_run_unfold chs fuel st), (sstep_read2 chs Hdepth st 0 c inp Hs Ht).
    (* left: a single read, then a merge *)
    change (2 + fuel)%nat with (S (S fuel)). rewrite (stream_run_unfold chs (S fuel)).
    assert (E1 : stream_step chs ((0%nat, 0) :: st) (c :: inp) = Some ((0%nat, 0) :: st, inp, (0%nat, c))).
    { unfold stream_step. rewrite Hd0. destruct st as [|[l2 v2] st']; [reflexivity|].
      cbn in Ht. destruct (Nat.eqb_spec 0 l2); [lia|]. reflexivity. }
    rewrite E1. destruct (Nat.eqb_spec 0 (length chs)); [lia|].
    rewrite (stream_run_unfold chs fuel), sstep_merge.
    assert (Ev : 0 * nth 0 chs 0 + c = nth 0 chs 0 * 0 + c) by ring.
    rewrite Ev. reflexivity.
  Qed.

  Lemma szsteps_le : forall i delta, (szsteps i delta <= 2 * 2 ^ i)%nat.
  Proof.
    induction i as [|i IH]; intros delta; cbn [szsteps]; [lia|].
    rewrite Nat.pow_succ_r'. destruct (2 ^ i <=? delta)%nat.
    - pose proof (ssteps_le chs Hdepth i). pose proof (IH (delta - 2 ^ i)%nat). lia.
    - pose proof (IH delta). lia.
  Qed.

  Theorem stream_iter_padded coeffs :
    (length coeffs mod 2 ^ length chs <> 0)%nat ->
    exists bs, concat bs = pad_front (length chs) coeffs /\ Forall (fun b => length b = (2 ^ length chs)%nat) bs /\
               stream_iter chs coeffs = map (bval chs (length chs)) bs.
  Proof.
    intros Hr. set (depth := length chs) in *. set (c := (2 ^ depth)%nat) in *. set (n := length coeffs) in *.
    assert (Hc : (0 < c)%nat) by (unfold c; pose proof (pow2_pos chs depth); lia).
    set (delta := (c - n mod c)%nat).
    pose proof (Nat.mod_upper_bound n c ltac:(lia)) as Hm.
    assert (Hdl : (delta < c)%nat) by (unfold delta; lia).
    assert (Ep : pad_front depth coeffs = repeat 0 delta ++ coeffs).
    { unfold pad_front. fold c n. destruct (Nat.eqb_spec (n mod c) 0); [contradiction|]. reflexivity. }
    assert (Lp : length (repeat (@f0 FO) delta ++ coeffs) = ((n / c + 1) * c)%nat).
    { rewrite app_length, repeat_length. fold n. unfold delta. pose proof (Nat.div_mod n c ltac:(lia)). nia. }
    destruct (chunks chs c Hc (n / c + 1)%nat _ Lp) as (bs & Ebs & Hb & Lbs).
    exists bs. split; [rewrite Ep; exact Ebs|]. split; [exact Hb|].
    unfold stream_iter. fold depth c n.
    assert (Ei : init_stack n depth = init_stack_loop delta depth []).
    { unfold init_stack. fold c. destruct (Nat.eqb_spec (n mod c) 0); [contradiction|]. reflexivity. }
    rewrite Ei.
    set (F0 := (2 * (n + c) + 2)%nat).
    pose proof (ssteps_le chs Hdepth depth) as Hs. fold c in Hs.
    assert (Hblocks : (length bs * ssteps depth <= 2 * (n + c))%nat).
    { rewrite Lbs. assert ((n / c + 1) * ssteps depth <= (n / c + 1) * (2 * c))%nat by (apply Nat.mul_le_mono_l; exact Hs).
      pose proof (Nat.div_mod n c ltac:(lia)). nia. }
    assert (Hfin : forall T, (length bs * ssteps depth <= T)%nat -> stream_run T chs [] (concat bs) = map (bval chs depth) bs).
    { intros T HT. replace T with (length bs * ssteps depth + (T - length bs * ssteps depth))%nat by lia.
      rewrite <- (app_nil_r (concat bs)). rewrite (sblocks_run chs Hdepth bs [] _ Hb), stream_run_end, app_nil_r. reflexivity. }
    destruct (Nat.even delta) eqn:Ev.
    - (* even padding *)
      pose proof (szeros_run depth delta [] coeffs F0 Ev Hdl (le_n _) I I (Forall_nil _)) as Z.
      rewrite <- Z, <- Ebs. apply Hfin. unfold F0. lia.
    - (* odd padding: coeffs is not empty *)
      destruct coeffs as [|c0 rest]; [cbn in n; subst n; rewrite Nat.mod_0_l in Hr by lia; contradiction|].
      rewrite (init_loop_odd depth delta [] Ev Hdl).
      assert (Ev' : Nat.even (delta - 1) = true).
      { destruct delta as [|d']; [cbn in Ev; discriminate|]. replace (S d' - 1)%nat with d' by lia.
        rewrite Nat.even_succ in Ev. rewrite <- Nat.negb_odd. rewrite Ev. reflexivity. }
      destruct (init_loop_inv depth (delta - 1) [] Ev' ltac:(lia) I I (Forall_nil _)) as [Hs1 Ht1].
      replace F0 with (2 + (F0 - 2))%nat by (unfold F0; lia).
      rewrite (odd_first_item _ c0 rest (F0 - 2) Hs1 Ht1).
      pose proof (szeros_run depth (delta - 1) [] (0 :: c0 :: rest) (1 + (F0 - 2)) Ev' ltac:(lia) (le_n _) I I (Forall_nil _)) as Z.
      rewrite <- Z.
      assert (E : repeat (@f0 FO) (delta - 1) ++ 0 :: c0 :: rest = repeat 0 delta ++ c0 :: rest).
      { replace delta with ((delta - 1) + 1)%nat at 2 by (destruct delta; [cbn in Ev; discriminate|lia]).
        rewrite repeat_app, <- app_assoc. reflexivity. }
      rewrite E, <- Ebs. apply Hfin. unfold F0. lia.
  Qed.

  (* ---- in terms of the model's naive definition: the last of the successive foldings of the zero-padded stream ---- *)
  Lemma last_foldings : forall cs (L : list F), cs <> [] -> last (foldings cs L) [] = foldk cs L.
  Proof.
    induction cs as [|c t IH]; intros L Hne; [contradiction|].
    cbn [foldings foldk]. destruct t as [|c2 t2]; [reflexivity|].
    rewrite <- (IH (fold1 c L)) by discriminate. cbn [foldings]. reflexivity.
  Qed.

  Lemma top_level_of_blocks : forall bs, Forall (fun b => length b = (2 ^ length chs)%nat) bs ->
    map (bval chs (length chs)) bs = foldk chs (concat bs).
  Proof.
    intros bs Hb.
    rewrite <- (firstn_all chs) at 3.
    rewrite <- (by_level_blocks chs (length chs) bs Hb Hdepth (le_n _)).
    clear - Hb Hdepth FL. induction Hb as [|b t Hl _ IH]; [reflexivity|].
    cbn [map blocks_emit]. rewrite by_level_app, <- IH. f_equal.
    rewrite (by_level_bemit chs (length chs) (length chs) b Hdepth (le_n _)).
    destruct (length chs) as [|d] eqn:Ed; [lia|]. rewrite levc_S, Nat.eqb_refl. rewrite bval_bvalc. reflexivity.
  Qed.

  (* every stream length, every depth >= 1, every challenge list *)
  Theorem stream_iter_is_fold_stream coeffs : stream_iter chs coeffs = fold_stream chs coeffs.
  Proof.
    assert (Hne : chs <> []) by (destruct chs; [cbn in Hdepth; lia|discriminate]).
    assert (Efs : fold_stream chs coeffs = foldk chs (pad_front (length chs) coeffs)).
    { unfold fold_stream, fold_tree. destruct chs as [|c0 t0] eqn:Ec; [contradiction|]. rewrite <- Ec in *. apply last_foldings. exact Hne. }
    rewrite Efs.
    destruct (Nat.eq_dec (length coeffs mod 2 ^ length chs) 0) as [Hz|Hnz].
    - assert (Hc : (0 < 2 ^ length chs)%nat) by (pose proof (pow2_pos chs (length chs)); lia).
      assert (Ln : length coeffs = (length coeffs / 2 ^ length chs * 2 ^ length chs)%nat).
      { pose proof (Nat.div_mod (length coeffs) (2 ^ length chs) ltac:(lia)). lia. }
      destruct (chunks chs _ Hc _ coeffs Ln) as (bs & Ebs & Hb & _).
      assert (Ep : pad_front (length chs) coeffs = coeffs).
      { unfold pad_front. rewrite Hz. reflexivity. }
      rewrite Ep, <- Ebs, (stream_iter_full_blocks chs Hdepth bs Hb). apply top_level_of_blocks. exact Hb.
    - destruct (stream_iter_padded coeffs Hnz) as (bs & Ebs & Hb & E).
      rewrite E, <- Ebs. apply top_level_of_blocks. exact Hb.
  Qed.
End StreamIterSPad.
