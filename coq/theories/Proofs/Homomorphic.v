(* C08: commitments are the key-defined linear map of the polynomial. *)
From Coq Require Import List Arith NArith Bool Lia Field Ring.
From PC Require Import Base.Field Base.Result Base.Poly Base.OrdMap Proofs.PolyFacts
     Schemes.KZG10 Schemes.LC Schemes.Marlin Proofs.KZG10Facts Proofs.MarlinComplete Proofs.Hiding.
Import ListNotations.
Open Scope F_scope.

Section Homomorphic.
  Context {FO : FieldOps} {FL : FieldLaws FO}.
  Add Field Ffield13 : FL_field.

  (* the commitment computed by the code (skip low-order zeros, MSM over the rest of the key) is
     the naive multi-scalar sum over the key, for EVERY list of key elements *)
  Theorem commit_is_msm (bases : list F) (p : poly) : commit_coeffs bases p = msm bases (trim p).
  Proof. apply commit_coeffs_msm. Qed.

  Lemma msm_padd : forall bases p q,
      (length p <= length bases)%nat -> (length q <= length bases)%nat ->
      msm bases (padd p q) = msm bases p + msm bases q.
  Proof.
    induction bases as [|b bs IH]; intros p q Hp Hq.
    - destruct p; destruct q; cbn in *; try lia. ring.
    - destruct p as [|x p]; destruct q as [|y q]; cbn [padd msm]; try ring.
      rewrite IH by (cbn in *; lia). ring.
  Qed.

  Lemma msm_pscale bases a p : msm bases (pscale a p) = a * msm bases p.
  Proof.
    revert p; induction bases as [|b bs IH]; intros p; destruct p as [|x p]; cbn [pscale map msm]; try ring.
    fold (pscale a p). rewrite IH. ring.
  Qed.

  Lemma trim_zeros k : trim (repeat 0 k) = [].
  Proof.
    induction k as [|k IH]; [reflexivity|]. cbn [repeat trim]. rewrite IH. unfold fzerob. rewrite feqb_refl. reflexivity.
  Qed.

  Lemma trim_app_zeros p k : trim (p ++ repeat 0 k) = trim p.
  Proof.
    induction p as [|c p IH]; cbn [app]; [rewrite trim_zeros; reflexivity|]. cbn [trim]. rewrite IH. reflexivity.
  Qed.

  (* representation independence: high-order zero coefficients do not change the commitment *)
  Theorem commit_ignores_trailing_zeros pw p k hb rng :
    commit pw (p ++ repeat 0 k) hb rng = commit pw p hb rng.
  Proof. unfold commit, commit_coeffs, degree. rewrite trim_app_zeros. reflexivity. Qed.

  (* the zero polynomial (in any representation) maps to the identity, under every key *)
  Theorem commit_zero pw k rng : (1 <= length (pw_g pw))%nat -> commit pw (repeat 0 k) None rng = Ok (0, [], O).
  Proof.
    intros Hl. unfold commit, commit_coeffs, degree. rewrite trim_zeros. cbn [length pred skip_leading_zeros skipn].
    unfold check_degree_is_too_large. destruct (Nat.ltb_spec (length (pw_g pw)) (0 + 1)); [lia|].
    cbn [bind]. rewrite !msm_nil_r. f_equal. f_equal. f_equal. ring.
  Qed.

  (* additivity under a window of published powers (plain and shifted windows alike) *)
  Theorem commit_additive g c gam b n m pw p q a a' rng1 rng2 rng3 cp cq cr rp rq rr dp dq dr :
    pw_g pw = gpowers g c b n -> pw_gamma_g pw = gpowers gam 1 b m ->
    commit pw p None rng1 = Ok (cp, rp, dp) -> commit pw q None rng2 = Ok (cq, rq, dq) ->
    commit pw (padd (pscale a p) (pscale a' q)) None rng3 = Ok (cr, rr, dr) ->
    cr = a * cp + a' * cq.
  Proof.
    intros Hg Hgg H1 H2 H3.
    destruct (commit_window _ _ _ _ _ _ _ _ _ _ _ _ _ Hg Hgg H1) as (E1 & _ & _ & _ & R1).
    destruct (commit_window _ _ _ _ _ _ _ _ _ _ _ _ _ Hg Hgg H2) as (E2 & _ & _ & _ & R2).
    destruct (commit_window _ _ _ _ _ _ _ _ _ _ _ _ _ Hg Hgg H3) as (E3 & _ & _ & _ & R3).
    rewrite (R1 eq_refl) in E1. rewrite (R2 eq_refl) in E2. rewrite (R3 eq_refl) in E3.
    rewrite E1, E2, E3, eval_padd, !eval_pscale. cbn [eval]. ring.
  Qed.

  (* Marlin: plain and degree-bound (shifted) parts are both additive *)
  Theorem marlin_commit_additive ck vk g gam h b D hi n m lab1 lab2 lab3 p q a a' bound rng1 rng2 rng3 c1 c2 c3 s1 s2 s3 d1 d2 d3 :
    KeyOK ck vk g gam h b D hi n m ->
    commit1 ck {| lp_label := lab1; lp_poly := p; lp_bound := bound; lp_hiding := None |} rng1 = Ok (c1, s1, d1) ->
    commit1 ck {| lp_label := lab2; lp_poly := q; lp_bound := bound; lp_hiding := None |} rng2 = Ok (c2, s2, d2) ->
    commit1 ck {| lp_label := lab3; lp_poly := padd (pscale a p) (pscale a' q); lp_bound := bound; lp_hiding := None |} rng3 = Ok (c3, s3, d3) ->
    mc_comm c3 = a * mc_comm c1 + a' * mc_comm c2 /\
    match mc_shifted c1, mc_shifted c2, mc_shifted c3 with
    | Some x1, Some x2, Some x3 => x3 = a * x1 + a' * x2
    | None, None, None => bound = None
    | _, _, _ => False
    end.
  Proof.
    intros KO H1 H2 H3.
    pose proof (commit1_honest _ _ _ _ _ _ _ _ _ _ _ _ _ _ _ KO H1) as (_ & _ & E1 & S1).
    pose proof (commit1_honest _ _ _ _ _ _ _ _ _ _ _ _ _ _ _ KO H2) as (_ & _ & E2 & S2).
    pose proof (commit1_honest _ _ _ _ _ _ _ _ _ _ _ _ _ _ _ KO H3) as (_ & _ & E3 & S3).
    destruct (marlin_hiding_draws _ _ _ _ _ _ H1) as (_ & N1). destruct (N1 eq_refl) as (R1 & T1).
    destruct (marlin_hiding_draws _ _ _ _ _ _ H2) as (_ & N2). destruct (N2 eq_refl) as (R2 & T2).
    destruct (marlin_hiding_draws _ _ _ _ _ _ H3) as (_ & N3). destruct (N3 eq_refl) as (R3 & T3).
    cbn [lc_comm lp_poly lp_bound] in *. rewrite R1 in E1. rewrite R2 in E2. rewrite R3 in E3. cbn [eval] in *.
    split.
    - rewrite E1, E2, E3, eval_padd, !eval_pscale. ring.
    - destruct bound as [d|].
      + destruct S1 as (r1 & Q1 & _ & _ & C1). destruct S2 as (r2 & Q2 & _ & _ & C2). destruct S3 as (r3 & Q3 & _ & _ & C3).
        rewrite C1, C2, C3.
        assert (Z1 : r1 = []) by (destruct T1 as [T|T]; rewrite Q1 in T; congruence).
        assert (Z2 : r2 = []) by (destruct T2 as [T|T]; rewrite Q2 in T; congruence).
        assert (Z3 : r3 = []) by (destruct T3 as [T|T]; rewrite Q3 in T; congruence).
        subst. cbn [eval]. rewrite eval_padd, !eval_pscale. ring.
      + destruct S1 as (-> & _). destruct S2 as (-> & _). destruct S3 as (-> & _). reflexivity.
  Qed.
End Homomorphic.
