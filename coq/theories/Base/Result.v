(* Results of library entry points: value, typed error, or abort (panic). *)
From Coq Require Import List.
Import ListNotations.

Inductive err :=
| EDegreeIsZero | ETooManyCoefficients | EHidingBoundIsZero | EHidingBoundTooLarge
| EMissingRng | EUnsupportedDegreeBound | EIncorrectDegreeBound | ETrimmingDegreeTooLarge
| EMissingPolynomial | EMissingEvaluation | EEquationHasDegreeBounds | EIncorrectInputLength
| EInvalidNumberOfVariables | EPolynomialDegreeTooLarge | EMismatchedLabels | EMismatchedNumVars
| EInvalidParameters | EInvalidCommitment | EIncorrectQuerySet | EMalformedSRS | ETranscript | EOther.

Inductive res (A : Type) := Ok (a : A) | Err (e : err) | Panic.
Arguments Ok {A} a. Arguments Err {A} e. Arguments Panic {A}.

Definition bind {A B} (r : res A) (f : A -> res B) : res B :=
  match r with Ok a => f a | Err e => Err e | Panic => Panic end.
Notation "'do' x <- r ; k" := (bind r (fun x => k)) (at level 200, x pattern, r at level 100, k at level 200).

Definition is_ok {A} (r : res A) : bool := match r with Ok _ => true | _ => false end.
Definition refused {A} (r : res A) : Prop := match r with Ok _ => False | _ => True end.

(* Verifier decision as the harness canonicalises it. *)
Inductive decision := Accept | Reject | Refused.
Definition decide (r : res bool) : decision :=
  match r with Ok true => Accept | Ok false => Reject | _ => Refused end.

Fixpoint mapM {A B} (f : A -> res B) (l : list A) : res (list B) :=
  match l with
  | [] => Ok []
  | a :: t => do b <- f a; do bs <- mapM f t; Ok (b :: bs)
  end.
