(* Executable prime-field instance used by the extracted runner: integers modulo p,
   canonical representatives in [0, p).  Inversion by Fermat (x^(p-2)), computed by
   square-and-multiply on the binary expansion of the exponent. *)
From Coq Require Import ZArith List.
From PC Require Import Base.Field.
Open Scope Z_scope.

Section Zp.
  Variable p : Z.

  Definition zp_norm (x : Z) : Z := x mod p.
  Definition zp_add (x y : Z) : Z := (x + y) mod p.
  Definition zp_sub (x y : Z) : Z := (x + (p - y)) mod p.
  Definition zp_opp (x : Z) : Z := (p - x) mod p.
  Definition zp_mul (x y : Z) : Z := (x * y) mod p.

  Fixpoint zp_pow_pos (x : Z) (e : positive) : Z :=
    match e with
    | xH => x
    | xO e' => let y := zp_pow_pos x e' in zp_mul y y
    | xI e' => let y := zp_pow_pos x e' in zp_mul x (zp_mul y y)
    end.
  Definition zp_pow (x : Z) (e : Z) : Z :=
    match e with Zpos e' => zp_pow_pos x e' | _ => 1 mod p end.
  Definition zp_inv (x : Z) : Z := zp_pow x (p - 2).
  Definition zp_div (x y : Z) : Z := zp_mul x (zp_inv y).

  Definition ZpOps : FieldOps :=
    {| F := Z; f0 := 0; f1 := 1 mod p;
       fadd := zp_add; fmul := zp_mul; fsub := zp_sub; fopp := zp_opp;
       fdiv := zp_div; finv := zp_inv; feqb := Z.eqb; fcmp := Z.compare |}.
End Zp.
