(* BTreeMap / BTreeSet as association lists kept in key order by a comparison
   function.  insert = BTreeMap::insert (overwrite), or_insert = entry().or_insert. *)
From Coq Require Import List.
Import ListNotations.

Section OrdMap.
  Context {K V : Type} (cmp : K -> K -> comparison).

  Fixpoint insert (k : K) (v : V) (m : list (K * V)) : list (K * V) :=
    match m with
    | [] => [(k, v)]
    | (k', v') :: t =>
      match cmp k k' with
      | Lt => (k, v) :: m
      | Eq => (k, v) :: t
      | Gt => (k', v') :: insert k v t
      end
    end.

  Fixpoint or_insert (k : K) (v : V) (m : list (K * V)) : list (K * V) :=
    match m with
    | [] => [(k, v)]
    | (k', v') :: t =>
      match cmp k k' with
      | Lt => (k, v) :: m
      | Eq => m
      | Gt => (k', v') :: or_insert k v t
      end
    end.

  Fixpoint lookup (k : K) (m : list (K * V)) : option V :=
    match m with
    | [] => None
    | (k', v') :: t => match cmp k k' with Eq => Some v' | _ => lookup k t end
    end.

  (* modify the value at k (entry().and_modify) *)
  Fixpoint update (k : K) (f : V -> V) (m : list (K * V)) : list (K * V) :=
    match m with
    | [] => []
    | (k', v') :: t => match cmp k k' with Eq => (k', f v') :: t | _ => (k', v') :: update k f t end
    end.

  Definition of_list (l : list (K * V)) : list (K * V) :=
    fold_left (fun m kv => insert (fst kv) (snd kv) m) l [].

  Definition keys (m : list (K * V)) : list K := map fst m.
  Definition values (m : list (K * V)) : list V := map snd m.

  Hypothesis cmp_eq : forall a b, cmp a b = Eq <-> a = b.

  Lemma cmp_refl a : cmp a a = Eq.
  Proof. apply cmp_eq; reflexivity. Qed.

  Lemma lookup_insert_same k v m : lookup k (insert k v m) = Some v.
  Proof.
    induction m as [|[k' v'] t IH]; cbn [insert lookup].
    - rewrite cmp_refl. reflexivity.
    - destruct (cmp k k') eqn:E; cbn [lookup].
      + rewrite cmp_refl. reflexivity.
      + rewrite cmp_refl. reflexivity.
      + rewrite E. exact IH.
  Qed.

  Lemma lookup_insert_other k k2 v m : k2 <> k -> lookup k2 (insert k v m) = lookup k2 m.
  Proof.
    intros N. assert (NE : cmp k2 k <> Eq) by (intros H; apply cmp_eq in H; contradiction).
    induction m as [|[k' v'] t IH]; cbn [insert lookup].
    - destruct (cmp k2 k); try reflexivity; congruence.
    - destruct (cmp k k') eqn:E; cbn [lookup].
      + apply cmp_eq in E. subst k'. destruct (cmp k2 k); try reflexivity; congruence.
      + destruct (cmp k2 k) eqn:E2; try reflexivity; congruence.
      + destruct (cmp k2 k'); try reflexivity; exact IH.
  Qed.

  Lemma lookup_or_insert_same k v m : exists w, lookup k (or_insert k v m) = Some w.
  Proof.
    induction m as [|[k' v'] t IH]; cbn [or_insert lookup].
    - rewrite cmp_refl. eauto.
    - destruct (cmp k k') eqn:E; cbn [lookup].
      + rewrite E. eauto.
      + rewrite cmp_refl. eauto.
      + rewrite E. exact IH.
  Qed.

  Lemma lookup_or_insert_other k k2 v m : k2 <> k -> lookup k2 (or_insert k v m) = lookup k2 m.
  Proof.
    intros N. assert (NE : cmp k2 k <> Eq) by (intros H; apply cmp_eq in H; contradiction).
    induction m as [|[k' v'] t IH]; cbn [or_insert lookup].
    - destruct (cmp k2 k); try reflexivity; congruence.
    - destruct (cmp k k') eqn:E; cbn [lookup].
      + reflexivity.
      + destruct (cmp k2 k) eqn:E2; try reflexivity; congruence.
      + destruct (cmp k2 k'); try reflexivity; exact IH.
  Qed.
End OrdMap.

(* lexicographic comparison helpers for composite keys *)
Definition cmp_pair {A B} (ca : A -> A -> comparison) (cb : B -> B -> comparison)
           (x y : A * B) : comparison :=
  match ca (fst x) (fst y) with Eq => cb (snd x) (snd y) | c => c end.

Fixpoint cmp_list {A} (ca : A -> A -> comparison) (x y : list A) : comparison :=
  match x, y with
  | [], [] => Eq
  | [], _ => Lt
  | _, [] => Gt
  | a :: x', b :: y' => match ca a b with Eq => cmp_list ca x' y' | c => c end
  end.

Lemma cmp_pair_eq {A B} (ca : A -> A -> comparison) (cb : B -> B -> comparison) :
  (forall a b, ca a b = Eq <-> a = b) -> (forall a b, cb a b = Eq <-> a = b) ->
  forall x y, cmp_pair ca cb x y = Eq <-> x = y.
Proof.
  intros Ha Hb [a1 b1] [a2 b2]. unfold cmp_pair; cbn [fst snd]. split.
  - destruct (ca a1 a2) eqn:E; try discriminate. intros H. apply Ha in E. apply Hb in H. congruence.
  - intros H. inversion H; subst. rewrite (proj2 (Ha a2 a2) eq_refl). apply Hb. reflexivity.
Qed.

Lemma cmp_list_eq {A} (ca : A -> A -> comparison) :
  (forall a b, ca a b = Eq <-> a = b) -> forall x y, cmp_list ca x y = Eq <-> x = y.
Proof.
  intros Ha. induction x as [|a x IH]; destruct y as [|b y]; cbn [cmp_list]; split; intros H;
    try reflexivity; try discriminate.
  - destruct (ca a b) eqn:E; try discriminate. apply Ha in E. apply IH in H. congruence.
  - inversion H; subst. rewrite (proj2 (Ha b b) eq_refl). apply IH. reflexivity.
Qed.
