(* Dense univariate polynomials as coefficient lists (low order first), the
   operations of ark-poly's DensePolynomial that poly-commit uses, and the
   linear map "multi-scalar multiplication" in the discrete-log representation. *)
From Coq Require Import List Arith Bool.
From PC Require Import Base.Field.
Import ListNotations.
Open Scope F_scope.

Section Poly.
  Context {FO : FieldOps}.

  Definition poly := list F.

  (* Horner evaluation *)
  Fixpoint eval (p : poly) (x : F) : F :=
    match p with [] => 0 | c :: t => c + x * eval t x end.

  Definition fzerob (x : F) : bool := feqb x 0.

  (* DensePolynomial::from_coefficients_vec: strip trailing (high-order) zeros *)
  Fixpoint trim (p : poly) : poly :=
    match p with
    | [] => []
    | c :: t => match trim t with
                | [] => if fzerob c then [] else [c]
                | t' => c :: t'
                end
    end.

  Definition is_zero_poly (p : poly) : bool := match trim p with [] => true | _ => false end.

  (* DensePolynomial::degree: 0 for the zero polynomial *)
  Definition degree (p : poly) : nat := pred (length (trim p)).

  Fixpoint padd (p q : poly) : poly :=
    match p, q with
    | [], _ => q
    | _, [] => p
    | a :: p', b :: q' => (a + b) :: padd p' q'
    end.

  Definition pscale (c : F) (p : poly) : poly := map (fmul c) p.
  Definition pneg (p : poly) : poly := map fopp p.
  Definition psub (p q : poly) : poly := padd p (pneg q).
  (* p += (c, q) *)
  Definition padd_scaled (p : poly) (c : F) (q : poly) : poly := padd p (pscale c q).

  (* multiplication by (X - z) *)
  Definition pmul_lin (q : poly) (z : F) : poly := padd (pscale (- z) q) (0 :: q).

  (* Synthetic division by (X - z): (quotient, remainder).  The quotient list has
     the same length as p (its top coefficient is 0), which is harmless for every
     consumer (evaluation, MSM) and keeps the recursion structural. *)
  Fixpoint sdiv (p : poly) (z : F) : poly * F :=
    match p with
    | [] => ([], 0)
    | c :: t => let '(q, r) := sdiv t z in (r :: q, c + z * r)
    end.
  Definition quot_lin (p : poly) (z : F) : poly := fst (sdiv p z).

  (* sum_i bases[i] * scalars[i], truncating to the shorter list, exactly like
     VariableBaseMSM::msm_bigint; group elements are discrete logs. *)
  Fixpoint msm (bases scalars : list F) : F :=
    match bases, scalars with
    | b :: bs, s :: ss => b * s + msm bs ss
    | _, _ => 0
    end.

  Fixpoint fsum (l : list F) : F := match l with [] => 0 | x :: t => x + fsum t end.

  Fixpoint fpow (x : F) (n : nat) : F := match n with O => 1 | S k => x * fpow x k end.

  (* [1, b, b^2, ..., b^(n-1)] computed by repeated multiplication as setup does *)
  Fixpoint powers_from (cur b : F) (n : nat) : list F :=
    match n with O => [] | S k => cur :: powers_from (cur * b) b k end.
  Definition powers (b : F) (n : nat) : list F := powers_from 1 b n.

  (* kzg10::skip_leading_zeros_and_convert_to_bigints: number of low-order zero
     coefficients and the remaining suffix *)
  Fixpoint skip_leading_zeros (p : poly) : nat * poly :=
    match p with
    | [] => (O, [])
    | c :: t => if fzerob c then let '(n, s) := skip_leading_zeros t in (S n, s) else (O, p)
    end.

  Fixpoint inner (a b : list F) : F :=
    match a, b with x :: a', y :: b' => x * y + inner a' b' | _, _ => 0 end.
End Poly.
