(* Abstract field: operations (used by the executable models) and laws (used by proofs). *)
From Coq Require Import List ZArith Bool Field Ring Setoid.
Import ListNotations.

Class FieldOps := mkFO {
  F : Type;
  f0 : F; f1 : F;
  fadd : F -> F -> F; fmul : F -> F -> F; fsub : F -> F -> F;
  fopp : F -> F; fdiv : F -> F -> F; finv : F -> F;
  feqb : F -> F -> bool;
  fcmp : F -> F -> comparison   (* arkworks' Ord on field elements: order of canonical integers; only used by ordered containers *)
}.

Declare Scope F_scope.
Delimit Scope F_scope with F.
Notation "0" := f0 : F_scope.
Notation "1" := f1 : F_scope.
Infix "+" := fadd : F_scope.
Infix "*" := fmul : F_scope.
Infix "-" := fsub : F_scope.
Infix "/" := fdiv : F_scope.
Notation "- x" := (fopp x) : F_scope.
Notation "/ x" := (finv x) : F_scope.

Class FieldLaws (FO : FieldOps) := {
  FL_field : field_theory f0 f1 fadd fmul fsub fopp fdiv finv (@eq F);
  FL_eqb : forall x y : F, feqb x y = true <-> x = y;
  FL_cmp : forall x y : F, fcmp x y = Eq <-> x = y
}.

Section FieldFacts.
  Context {FO : FieldOps} {FL : FieldLaws FO}.
  Open Scope F_scope.
  Add Field Ffield : FL_field.

  Lemma feqb_refl x : (feqb x x) = true.
  Proof. apply FL_eqb; reflexivity. Qed.

  Lemma feqb_false x y : (feqb x y) = false <-> x <> y.
  Proof.
    split; intros H.
    - intros E. apply FL_eqb in E. congruence.
    - destruct (feqb x y) eqn:E; [apply FL_eqb in E; contradiction | reflexivity].
  Qed.

  Lemma feqb_reflect x y : reflect (x = y) (feqb x y).
  Proof.
    destruct (feqb x y) eqn:E; constructor.
    - apply FL_eqb; exact E.
    - apply feqb_false; exact E.
  Qed.

  Lemma f_1_neq_0 : 1 <> 0.
  Proof. exact (F_1_neq_0 FL_field). Qed.

  Lemma fmul_0_l x : 0 * x = 0. Proof. ring. Qed.
  Lemma fmul_0_r x : x * 0 = 0. Proof. ring. Qed.

  Lemma f_integral x y : x * y = 0 -> x = 0 \/ y = 0.
  Proof.
    intros H. destruct (feqb_reflect x 0) as [E|N]; [left; exact E|right].
    assert (y = (/ x) * (x * y))%F as -> by (field; exact N).
    - rewrite H. ring.
  Qed.

  Lemma fmul_neq_0 x y : x <> 0 -> y <> 0 -> x * y <> 0.
  Proof. intros Hx Hy H. destruct (f_integral _ _ H); contradiction. Qed.

  Lemma fsub_eq_0 x y : x - y = 0 <-> x = y.
  Proof.
    split; intros H.
    - assert (x = (x - y) + y) as -> by ring. rewrite H. ring.
    - subst. ring.
  Qed.

  Lemma fmul_cancel_l x y z : x <> 0 -> x * y = x * z -> y = z.
  Proof.
    intros Hx H. apply fsub_eq_0.
    assert (E : x * (y - z) = 0) by (transitivity (x * y - x * z); [ring| rewrite H; ring]).
    destruct (f_integral _ _ E); [contradiction|assumption].
  Qed.
End FieldFacts.
