(* ark-serialize's canonical format as a generic schema-directed codec.
   Primitive values (field elements, curve points in a given compression mode, digests) are
   fixed-length byte blobs; on top of them the crate's artefacts are tuples (struct fields in
   the order the (de)serializers visit them), options (1 tag byte), vectors and byte strings
   (u64 little-endian length prefix); a usize-keyed map is a vector of (u64 key, value) tuples. *)
From Coq Require Import List NArith Arith Bool Lia.
Import ListNotations.

Definition bytes := list N.

Fixpoint le_bytes (k : nat) (n : N) : bytes :=
  match k with O => [] | S k' => (n mod 256)%N :: le_bytes k' (n / 256)%N end.
Fixpoint le_value (b : bytes) : N :=
  match b with [] => 0%N | x :: t => (x + 256 * le_value t)%N end.

Inductive schema :=
| SPrim (k : nat)
| SU64
| SBool
| SOption (s : schema)
| SVec (s : schema)
| STuple (l : list schema)
| SBytes.

Inductive value :=
| VPrim (b : bytes)
| VU64 (n : N)
| VBool (b : bool)
| VOption (o : option value)
| VVec (l : list value)
| VTuple (l : list value)
| VBytes (b : bytes).

Definition u64_max : N := 18446744073709551616%N.   (* 2^64 *)

Definition opt_app (a b : option bytes) : option bytes :=
  match a, b with Some x, Some y => Some (x ++ y) | _, _ => None end.

Definition enc_u64 (n : N) : option bytes := if (n <? u64_max)%N then Some (le_bytes 8 n) else None.

(* element-wise helpers (the recursion of enc/dec goes through them) *)
Definition enc_list (f : value -> option bytes) : list value -> option bytes :=
  fix go l := match l with [] => Some [] | x :: t => opt_app (f x) (go t) end.
Definition enc_tuple : list (value -> option bytes) -> list value -> option bytes :=
  fix go fs vs := match fs, vs with
                  | [], [] => Some []
                  | f :: fs', v :: vs' => opt_app (f v) (go fs' vs')
                  | _, _ => None
                  end.

(* serialization; None = the value does not have the shape of the schema *)
Fixpoint enc (s : schema) (v : value) {struct s} : option bytes :=
  match s, v with
  | SPrim k, VPrim b => if Nat.eqb (length b) k then Some b else None
  | SU64, VU64 n => enc_u64 n
  | SBool, VBool b => Some [if b then 1%N else 0%N]
  | SOption s', VOption None => Some [0%N]
  | SOption s', VOption (Some x) => opt_app (Some [1%N]) (enc s' x)
  | SVec s', VVec l => opt_app (enc_u64 (N.of_nat (length l))) (enc_list (enc s') l)
  | STuple ss, VTuple vs => enc_tuple (map enc ss) vs
  | SBytes, VBytes b => opt_app (enc_u64 (N.of_nat (length b))) (Some b)
  | _, _ => None
  end.

Definition dec_u64 (bs : bytes) : option (N * bytes) :=
  if (length bs <? 8)%nat then None else Some (le_value (firstn 8 bs), skipn 8 bs).

Definition dec_n (f : bytes -> option (value * bytes)) : nat -> bytes -> option (list value * bytes) :=
  fix go k bs := match k with
                 | O => Some ([], bs)
                 | S k' => match f bs with
                           | None => None
                           | Some (x, r1) => match go k' r1 with
                                             | None => None
                                             | Some (xs, r2) => Some (x :: xs, r2)
                                             end
                           end
                 end.
Definition dec_tuple : list (bytes -> option (value * bytes)) -> bytes -> option (list value * bytes) :=
  fix go fs bs := match fs with
                  | [] => Some ([], bs)
                  | f :: fs' => match f bs with
                                | None => None
                                | Some (x, r1) => match go fs' r1 with
                                                  | None => None
                                                  | Some (xs, r2) => Some (x :: xs, r2)
                                                  end
                                end
                  end.

(* deserialization: value and unread rest; None = Err (truncated or malformed) *)
Fixpoint dec (s : schema) (bs : bytes) {struct s} : option (value * bytes) :=
  match s with
  | SPrim k => if (length bs <? k)%nat then None else Some (VPrim (firstn k bs), skipn k bs)
  | SU64 => match dec_u64 bs with Some (n, r) => Some (VU64 n, r) | None => None end
  | SBool => match bs with
             | b :: r => if (b =? 0)%N then Some (VBool false, r) else if (b =? 1)%N then Some (VBool true, r) else None
             | [] => None
             end
  | SOption s' =>
    match bs with
    | b :: r => if (b =? 0)%N then Some (VOption None, r)
                else if (b =? 1)%N then
                  match dec s' r with Some (x, r') => Some (VOption (Some x), r') | None => None end
                else None
    | [] => None
    end
  | SVec s' =>
    match dec_u64 bs with
    | None => None
    | Some (n, r) =>
      if (N.of_nat (length r) <? n)%N then None else
      match dec_n (dec s') (N.to_nat n) r with
      | Some (xs, r') => Some (VVec xs, r')
      | None => None
      end
    end
  | STuple ss =>
    match dec_tuple (map dec ss) bs with
    | Some (xs, r) => Some (VTuple xs, r)
    | None => None
    end
  | SBytes =>
    match dec_u64 bs with
    | None => None
    | Some (n, r) => if (N.of_nat (length r) <? n)%N then None
                     else Some (VBytes (firstn (N.to_nat n) r), skipn (N.to_nat n) r)
    end
  end.

(* full deserialization of exactly these bytes (CanonicalDeserialize on a complete buffer) *)
Definition dec_all (s : schema) (bs : bytes) : option value :=
  match dec s bs with Some (v, []) => Some v | _ => None end.

(* serialized_size *)
Definition size (s : schema) (v : value) : option nat := option_map (@length N) (enc s v).

(* every element of a vector / map occupies at least one byte (true of all artefact schemas) *)
Fixpoint nonempty (s : schema) : bool :=
  match s with
  | SPrim k => negb (Nat.eqb k 0)
  | STuple l => existsb nonempty l
  | _ => true
  end.
Fixpoint wf (s : schema) : bool :=
  match s with
  | SOption s' => wf s'
  | SVec s' => wf s' && nonempty s'
  | STuple l => forallb wf l
  | _ => true
  end.

(* ---------------- an implementation of dec without repeated length computations ----------------
   (proved equal to dec in Proofs/CodecFacts.v; this is the one that is extracted and run) *)
Fixpoint take (k : nat) (bs : bytes) : option (bytes * bytes) :=
  match k with
  | O => Some ([], bs)
  | S k' => match bs with
            | [] => None
            | b :: r => match take k' r with Some (a, r') => Some (b :: a, r') | None => None end
            end
  end.

(* n <= length bs, walking at most n cells *)
Fixpoint at_least (bs : bytes) (n : N) : bool :=
  match bs with
  | [] => (n =? 0)%N
  | _ :: t => if (n =? 0)%N then true else at_least t (N.pred n)
  end.

Definition dec_u64_fast (bs : bytes) : option (N * bytes) :=
  match take 8 bs with Some (a, r) => Some (le_value a, r) | None => None end.

Fixpoint dec_fast (s : schema) (bs : bytes) {struct s} : option (value * bytes) :=
  match s with
  | SPrim k => match take k bs with Some (a, r) => Some (VPrim a, r) | None => None end
  | SU64 => match dec_u64_fast bs with Some (n, r) => Some (VU64 n, r) | None => None end
  | SBool => match bs with
             | b :: r => if (b =? 0)%N then Some (VBool false, r) else if (b =? 1)%N then Some (VBool true, r) else None
             | [] => None
             end
  | SOption s' =>
    match bs with
    | b :: r => if (b =? 0)%N then Some (VOption None, r)
                else if (b =? 1)%N then
                  match dec_fast s' r with Some (x, r') => Some (VOption (Some x), r') | None => None end
                else None
    | [] => None
    end
  | SVec s' =>
    match dec_u64_fast bs with
    | None => None
    | Some (n, r) =>
      if negb (at_least r n) then None else
      match dec_n (dec_fast s') (N.to_nat n) r with
      | Some (xs, r') => Some (VVec xs, r')
      | None => None
      end
    end
  | STuple ss =>
    match dec_tuple (map dec_fast ss) bs with
    | Some (xs, r) => Some (VTuple xs, r)
    | None => None
    end
  | SBytes =>
    match dec_u64_fast bs with
    | None => None
    | Some (n, r) => if negb (at_least r n) then None
                     else match take (N.to_nat n) r with Some (a, r') => Some (VBytes a, r') | None => None end
    end
  end.

Definition dec_all_fast (s : schema) (bs : bytes) : option value :=
  match dec_fast s bs with Some (v, []) => Some v | _ => None end.
