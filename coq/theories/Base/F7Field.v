(* A concrete instance of FieldOps + FieldLaws: the prime field with seven elements, as an enumerated type with table-free
   arithmetic through nat (every law is checked by exhaustive case analysis, 7^3 cases at most).  Used only by
   Examples/NonVacuity.v, to show that the premises of the main theorems are met by concrete, non-trivial inputs; the theorems
   themselves are proved for every field. *)
From Coq Require Import Arith Bool Field Ring.
From PC Require Import Base.Field.

Inductive f7 : Set := A0 | A1 | A2 | A3 | A4 | A5 | A6.

Definition f7_to_nat (x : f7) : nat :=
  match x with A0 => 0 | A1 => 1 | A2 => 2 | A3 => 3 | A4 => 4 | A5 => 5 | A6 => 6 end.
Definition f7_of_nat (n : nat) : f7 :=
  match n mod 7 with 0 => A0 | 1 => A1 | 2 => A2 | 3 => A3 | 4 => A4 | 5 => A5 | _ => A6 end.

Definition f7_add (x y : f7) : f7 := f7_of_nat (f7_to_nat x + f7_to_nat y).
Definition f7_mul (x y : f7) : f7 := f7_of_nat (f7_to_nat x * f7_to_nat y).
Definition f7_opp (x : f7) : f7 := f7_of_nat (7 - f7_to_nat x).
Definition f7_sub (x y : f7) : f7 := f7_add x (f7_opp y).
Definition f7_inv (x : f7) : f7 :=
  match x with A0 => A0 | A1 => A1 | A2 => A4 | A3 => A5 | A4 => A2 | A5 => A3 | A6 => A6 end.
Definition f7_div (x y : f7) : f7 := f7_mul x (f7_inv y).
Definition f7_eqb (x y : f7) : bool := Nat.eqb (f7_to_nat x) (f7_to_nat y).
Definition f7_cmp (x y : f7) : comparison := Nat.compare (f7_to_nat x) (f7_to_nat y).

Definition F7Ops : FieldOps :=
  {| F := f7; f0 := A0; f1 := A1; fadd := f7_add; fmul := f7_mul; fsub := f7_sub; fopp := f7_opp;
     fdiv := f7_div; finv := f7_inv; feqb := f7_eqb; fcmp := f7_cmp |}.

Lemma F7_ring : ring_theory A0 A1 f7_add f7_mul f7_sub f7_opp (@eq f7).
Proof.
  constructor.
  - intros []; reflexivity.
  - intros [] []; reflexivity.
  - intros [] [] []; reflexivity.
  - intros []; reflexivity.
  - intros [] []; reflexivity.
  - intros [] [] []; reflexivity.
  - intros [] [] []; reflexivity.
  - intros [] []; reflexivity.
  - intros []; reflexivity.
Qed.

Lemma F7_ft : field_theory (@f0 F7Ops) (@f1 F7Ops) (@fadd F7Ops) (@fmul F7Ops) (@fsub F7Ops) (@fopp F7Ops) (@fdiv F7Ops) (@finv F7Ops)
                           (@eq (@F F7Ops)).
Proof.
  cbn. constructor.
  - exact F7_ring.
  - discriminate.
  - intros [] []; reflexivity.
  - intros [] H; try reflexivity. exfalso. apply H. reflexivity.
Qed.

Lemma F7_eqb_iff (x y : f7) : f7_eqb x y = true <-> x = y.
Proof. destruct x, y; split; intros H; try reflexivity; discriminate H. Qed.
Lemma F7_cmp_iff (x y : f7) : f7_cmp x y = Eq <-> x = y.
Proof. destruct x, y; split; intros H; try reflexivity; discriminate H. Qed.

Definition F7Laws : FieldLaws F7Ops := {| FL_field := F7_ft; FL_eqb := F7_eqb_iff; FL_cmp := F7_cmp_iff |}.

(* small integers as field elements *)
Definition q7 (n : nat) : @F F7Ops := f7_of_nat n.
