(* Model of the trait-level flow of poly-commit/src/marlin/marlin_pst13_pc (commit with hiding, open of several
   polynomials at one point, check), in the free-module view: a G1 element is its coefficient vector over
   (g, gamma_g, G) - the two published generators and the curve's standard generator (which only mutated proofs
   contain).  G2 elements are multiples of h with known factors (beta_i, recovered by replaying the setup RNG), so the
   pairing equation  e(C - v g - rv gamma_g, h) = prod_j e(w_j, beta_j h - z_j h)  is the G1 equation
   C - v g - rv gamma_g = sum_j (beta_j - z_j) w_j.  The blinding polynomial of a hiding commitment is read from the
   library's commitment state (its sampling is ark-poly's). *)
From Coq Require Import List Arith NArith Bool.
From PC Require Import Base.Field Base.Result Base.Poly Schemes.PST13 Schemes.IPA.
Import ListNotations.
Local Open Scope nat_scope.

Section PST13H.
  Context {FO : FieldOps}.
  Local Open Scope F_scope.

  Definition term_deg (t : term) : nat := fold_right (fun vp a => (snd vp + a)%nat) O t.
  Definition mdeg (p : mpoly) : nat := fold_right (fun ct acc => Nat.max (term_deg (snd ct)) acc) O p.
  Definition vars_ok (nv : nat) (p : mpoly) : bool := forallb (fun ct => forallb (fun vp => (fst vp <? nv)%nat) (snd ct)) p.

  Fixpoint term_eqb (a b : term) : bool :=
    match a, b with
    | [], [] => true
    | (v, e) :: a', (w, f) :: b' => (v =? w)%nat && (e =? f)%nat && term_eqb a' b'
    | _, _ => false
    end.
  (* acc += (c, t) *)
  Fixpoint add_term (acc : mpoly) (c : F) (t : term) : mpoly :=
    match acc with
    | [] => [(c, t)]
    | (c0, t0) :: r => if term_eqb t0 t then (c0 + c, t0) :: r else (c0, t0) :: add_term r c t
    end.
  Definition madd_scaled (acc : mpoly) (c : F) (q : mpoly) : mpoly :=
    fold_left (fun a ct => add_term a (c * fst ct) (snd ct)) q acc.
  Definition mzero (p : mpoly) : bool := forallb (fun ct => feqb (fst ct) 0) p.

  (* group elements over (g, gamma_g, G) *)
  Definition el (a b : F) : gv := [a; b].

  (* SparsePolynomial::rand(d, nv): the constant term, then for each variable the powers 1..d, one RNG draw each, in
     this order *)
  Definition rand_poly (nv d : nat) (tape : list F) : mpoly :=
    (nth 0 tape 0, []) ::
    flat_map (fun var => map (fun deg => (nth (1 + var * d + (deg - 1)) tape 0, [(var, deg)])) (seq 1 d)) (seq 0 nv).
  Definition rand_draws (nv d : nat) : nat := 1 + nv * d.

  (* commit of one polynomial: degree check, key lookups, sampling (needs the RNG) of a polynomial of degree
     hiding bound + 1, hiding bound check.  Returns commitment, blinding polynomial, number of draws *)
  Definition ph_commit1 (nv s : nat) (betas : list F) (p : mpoly) (hiding : option nat) (rng : option (list F))
    : res (gv * option mpoly * nat) :=
    if (s <? mdeg p)%nat then Err EPolynomialDegreeTooLarge else
    if negb (vars_ok nv p) then Panic else
    match hiding with
    | None => Ok (el (eval_mpoly betas p) 0, None, O)
    | Some hb =>
      match rng with
      | None => Panic
      | Some tape =>
        if (length tape <? rand_draws nv (hb + 1))%nat then Err EOther else
        let blind := rand_poly nv (hb + 1) tape in
        if (hb =? 0)%nat then Err EHidingBoundIsZero else
        if (s + 1 <=? hb)%nat then Err EHidingBoundTooLarge else
        Ok (el (eval_mpoly betas p) (eval_mpoly betas blind), Some blind, rand_draws nv (hb + 1))
      end
    end.

  (* open: one challenge per polynomial *)
  Fixpoint ph_open_loop (s : nat) (items : list (mpoly * option mpoly)) (chal : list F) (pacc racc : mpoly)
    : res (mpoly * mpoly * list F) :=
    match items with
    | [] => Ok (pacc, racc, chal)
    | (p, blind) :: t =>
      if (s <? mdeg p)%nat then Err EPolynomialDegreeTooLarge else
      match chal with
      | [] => Err EOther
      | ch :: chal' =>
        ph_open_loop s t chal' (madd_scaled pacc ch p)
                     (match blind with Some r => madd_scaled racc ch r | None => racc end)
      end
    end.

  Record PProof := mkPP { pp_w : list gv; pp_rv : option F }.

  Definition ph_open (nv s : nat) (betas : list F) (items : list (mpoly * option mpoly)) (z : list F) (chal : list F)
    : res (PProof * list F) :=
    do a <- ph_open_loop s items chal [] [];
    let '(p, r, rest) := a in
    (* p.num_vars(): 0 for an empty selection *)
    let nvp := match items with [] => O | _ => nv end in
    let ws := divide_at_point nvp p z in
    let hiding := negb (mzero r) in
    let hws := if hiding then divide_at_point nv r z else [] in
    let w := map (fun i => el (eval_mpoly betas (nth i ws [])) (eval_mpoly betas (nth i hws []))) (seq 0 (length ws)) in
    Ok ({| pp_w := w; pp_rv := if hiding then Some (eval_mpoly z r) else None |}, rest).

  (* accumulate_commitments_and_values: zip *)
  Fixpoint ph_acc (cs : list gv) (vs : list F) (chal : list F) (cc : gv) (cv : F) : res (gv * F * list F) :=
    match cs, vs with
    | c :: cs', v :: vs' =>
      match chal with
      | [] => Err EOther
      | ch :: chal' => ph_acc cs' vs' chal' (gvadd cc (gvscale ch c)) (cv + ch * v)
      end
    | _, _ => Ok (cc, cv, chal)
    end.

  Fixpoint ph_rhs (betas z : list F) (k : nat) (ws : list gv) : gv :=
    match ws with
    | [] => []
    | w :: t => gvadd (gvscale (nth k betas 0 - nth k z 0) w) (ph_rhs betas z (S k) t)
    end.

  Definition ph_check (nv : nat) (betas : list F) (cs : list gv) (z : list F) (vs : list F) (pf : PProof) (chal : list F)
    : res (bool * list F) :=
    do a <- ph_acc cs vs chal [] 0;
    let '(cc, cv, rest) := a in
    let inner := gvsub (gvsub cc (el cv 0)) (el 0 (match pp_rv pf with Some rv => rv | None => 0 end)) in
    (* vk.beta_h[j], point[j] *)
    if (nv <? length (pp_w pf))%nat || (length z <? length (pp_w pf))%nat then Panic else
    Ok (gvzero (gvsub inner (ph_rhs betas z 0 (pp_w pf))), rest).
End PST13H.
