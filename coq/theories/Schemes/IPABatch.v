(* IPA batch flows: batch_open is the trait's default (one open per group of the query set), batch_check is IPA's own
   (per group: shape check and succinct check on the shared transcripts, then ONE final key check on the random
   combination of the check polynomials and final keys; randomizer 1, then 128-bit values from the verifier's RNG). *)
From Coq Require Import List Arith NArith Bool.
From PC Require Import Base.Field Base.Result Base.Poly Schemes.LC Schemes.Marlin Schemes.IPA Schemes.DefaultBatch.
Import ListNotations.
Local Open Scope nat_scope.

Section IPABatch.
  Context {FO : FieldOps}.
  Local Open Scope F_scope.

  Definition IItem := (LPoly * option nat * IComm * IRand)%type.
  (* transcript state of the prover: sponge challenges, hash-derived challenges, RNG tape *)
  Definition ISt := (list F * list F * option (list F))%type.

  Definition ib_open (d : nat) (its : list IItem) (pt : point) (st : ISt) : res (IProof * ISt) :=
    match pt with
    | [z] =>
      let '(chal, hchal, rng) := st in
      do r <- i_open d its z chal hchal rng;
      let '(pf, rest, hrest, nd) := r in
      Ok (pf, (rest, hrest, option_map (skipn nd) rng))
    | _ => Panic
    end.

  Definition i_batch_open (d : nat) (items : list (N * IItem)) (qs : list query) (st : ISt) : res (list IProof * ISt) :=
    default_batch_open IItem IProof ISt (ib_open d) items qs st.

  (* the loop of batch_check: None = a succinct check failed (Ok(false)); draws counts the randomizers drawn *)
  Fixpoint ibc_loop (d : nat) (cm : list (N * (IComm * option nat))) (ev : list (N * point * F))
           (gs : list (N * (point * list N))) (proofs : list IProof) (chal hchal vtape : list F)
           (rnd : F) (cpoly : poly) (ckey : gv) (draws : nat)
    : res (option (poly * gv) * list F * list F * nat) :=
    match gs, proofs with
    | (_, (pt, labels)) :: gs', pf :: proofs' =>
      do cv <- gather_v (IComm * option nat) cm ev pt labels;
      match pt with
      | [z] =>
        let log_d := Nat.log2_up (d + 1)%nat in
        if negb (length (ip_l pf) =? length (ip_r pf))%nat || negb (length (ip_l pf) =? log_d)%nat then Err EIncorrectInputLength else
        do r <- i_succinct_check d (fst cv) z (snd cv) pf chal hchal;
        let '(o, rest, hrest) := r in
        match o with
        | None => Ok (None, rest, hrest, draws)
        | Some chs =>
          let cp := padd_scaled cpoly rnd (trim (compute_coeffs chs)) in
          let ck := gvadd ckey (gvscale rnd (ip_key pf)) in
          match vtape with
          | [] => Err EOther
          | x :: vt' => ibc_loop d cm ev gs' proofs' rest hrest vt' x cp ck (S draws)
          end
        end
      | _ => Panic
      end
    | _, _ => Ok (Some (cpoly, ckey), chal, hchal, draws)
    end.

  Definition i_batch_check (d : nat) (cs : list (N * (IComm * option nat))) (qs : list query) (ev : list (N * point * F))
             (proofs : list IProof) (chal hchal vtape : list F) : res (bool * list F * list F * nat) :=
    let gs := groups qs in
    if negb (length proofs =? length gs)%nat then Panic else
    do r <- ibc_loop d (label_map cs) ev gs proofs chal hchal vtape 1 [] [] O;
    let '(o, rest, hrest, draws) := r in
    match o with
    | None => Ok (false, rest, hrest, draws)
    | Some (cp, ck) => Ok (gvzero (gvsub (gmsm (key_of d) cp) ck), rest, hrest, draws)
    end.
End IPABatch.
