(* IPA batch flows: batch_open is the trait's default (one open per group of the query set), batch_check is IPA's own
   (per group: shape check and succinct check on the shared transcripts, then ONE final key check on the random
   combination of the check polynomials and final keys; randomizer 1, then 128-bit values from the verifier's RNG). *)
From Coq Require Import List Arith NArith Bool.
From PC Require Import Base.Field Base.Result Base.Poly Base.OrdMap Schemes.LC Schemes.Marlin Schemes.MarlinLC Schemes.IPA Schemes.DefaultBatch.
Import ListNotations.
Local Open Scope nat_scope.

Section IPABatch.
  Context {FO : FieldOps}.
  Local Open Scope F_scope.

  Definition IItem := (LPoly * option nat * IComm * IRand)%type.
  (* transcript state of the prover: sponge challenges, hash-derived challenges, RNG tape *)
  Definition ISt := (list F * list F * option (list F))%type.

  Definition ib_open (d : nat) (its : list IItem) (pt : point) (st : ISt) : res (IProof * ISt) :=
    match pt with
    | [z] =>
      let '(chal, hchal, rng) := st in
      do r <- i_open d its z chal hchal rng;
      let '(pf, rest, hrest, nd) := r in
      Ok (pf, (rest, hrest, option_map (skipn nd) rng))
    | _ => Panic
    end.

  Definition i_batch_open (d : nat) (items : list (N * IItem)) (qs : list query) (st : ISt) : res (list IProof * ISt) :=
    default_batch_open IItem IProof ISt (ib_open d) items qs st.

  (* the loop of batch_check: None = a succinct check failed (Ok(false)); draws counts the randomizers drawn *)
  Fixpoint ibc_loop (d : nat) (cm : list (N * (IComm * option nat))) (ev : list (N * point * F))
           (gs : list (N * (point * list N))) (proofs : list IProof) (chal hchal vtape : list F)
           (rnd : F) (cpoly : poly) (ckey : gv) (draws : nat)
    : res (option (poly * gv) * list F * list F * nat) :=
    match gs, proofs with
    | (_, (pt, labels)) :: gs', pf :: proofs' =>
      do cv <- gather_v (IComm * option nat) cm ev pt labels;
      match pt with
      | [z] =>
        let log_d := Nat.log2_up (d + 1)%nat in
        if negb (length (ip_l pf) =? length (ip_r pf))%nat || negb (length (ip_l pf) =? log_d)%nat then Err EIncorrectInputLength else
        do r <- i_succinct_check d (fst cv) z (snd cv) pf chal hchal;
        let '(o, rest, hrest) := r in
        match o with
        | None => Ok (None, rest, hrest, draws)
        | Some chs =>
          let cp := padd_scaled cpoly rnd (trim (compute_coeffs chs)) in
          let ck := gvadd ckey (gvscale rnd (ip_key pf)) in
          match vtape with
          | [] => Err EOther
          | x :: vt' => ibc_loop d cm ev gs' proofs' rest hrest vt' x cp ck (S draws)
          end
        end
      | _ => Panic
      end
    | _, _ => Ok (Some (cpoly, ckey), chal, hchal, draws)
    end.

  Definition i_batch_check (d : nat) (cs : list (N * (IComm * option nat))) (qs : list query) (ev : list (N * point * F))
             (proofs : list IProof) (chal hchal vtape : list F) : res (bool * list F * list F * nat) :=
    let gs := groups qs in
    if negb (length proofs =? length gs)%nat then Panic else
    do r <- ibc_loop d (label_map cs) ev gs proofs chal hchal vtape 1 [] [] O;
    let '(o, rest, hrest, draws) := r in
    match o with
    | None => Ok (false, rest, hrest, draws)
    | Some (cp, ck) => Ok (gvzero (gvsub (gmsm (key_of d) cp) ck), rest, hrest, draws)
    end.
End IPABatch.

(* ---------------- IPA open_combinations / check_combinations (the scheme's own) ---------------- *)
Section IPALC.
  Context {FO : FieldOps}.
  Local Open Scope F_scope.

  Definition comb_opt_f (cur new : option F) (coeff : F) : option F :=
    match new with Some x => Some (match cur with Some r => r + x * coeff | None => x * coeff end) | None => cur end.
  Definition comb_opt_g (cur new : option gv) (coeff : F) : option gv :=
    match new with Some x => Some (match cur with Some c => gvadd c (gvscale coeff x) | None => gvscale coeff x end) | None => cur end.

  Record ilc_acc := mkIA { ia_poly : poly; ia_bound : option nat; ia_hiding : option nat; ia_rand : F; ia_srand : option F;
                           ia_cc : gv; ia_cs : option gv }.

  Fixpoint ilc_prover_loop (lm : list (N * (LPoly * IRand * (IComm * option nat)))) (num : nat) (terms : lc) (a : ilc_acc) : res ilc_acc :=
    match terms with
    | [] => Ok a
    | (_, TOne) :: t => ilc_prover_loop lm num t a
    | (coeff, TPoly l) :: t =>
      match OrdMap.lookup N.compare l lm with
      | None => Err EMissingPolynomial
      | Some (lp, st, cm) =>
        do b <- bound_policy num coeff (lp_bound lp) (ia_bound a);
        ilc_prover_loop lm num t
          {| ia_poly := padd_scaled (ia_poly a) coeff (lp_poly lp); ia_bound := b; ia_hiding := opt_max (ia_hiding a) (lp_hiding lp);
             ia_rand := ia_rand a + ir_rand st * coeff; ia_srand := comb_opt_f (ia_srand a) (ir_shifted st) coeff;
             ia_cc := gvadd (ia_cc a) (gvscale coeff (ic_comm (fst cm))); ia_cs := comb_opt_g (ia_cs a) (ic_shifted (fst cm)) coeff |}
      end
    end.

  (* construct_labeled_commitments: walk the flat element list; a degree bound takes two elements *)
  Fixpoint construct_lcomms (info : list (N * option nat)) (flat : list gv) : res (list (N * (IComm * option nat))) :=
    match info with
    | [] => Ok []
    | (lab, bound) :: t =>
      match bound, flat with
      | Some b, c :: sc :: flat' => do r <- construct_lcomms t flat'; Ok ((lab, ({| ic_comm := c; ic_shifted := Some sc |}, Some b)) :: r)
      | None, c :: flat' => do r <- construct_lcomms t flat'; Ok ((lab, ({| ic_comm := c; ic_shifted := None |}, None)) :: r)
      | _, _ => Panic                                 (* comms[i] / comms[i + 1] out of range *)
      end
    end.

  Definition flat_of (cc : gv) (cs : option gv) : list gv := cc :: match cs with Some x => [x] | None => [] end.

  Fixpoint ilc_prover_all (lm : list (N * (LPoly * IRand * (IComm * option nat)))) (lcs : list (N * lc))
    : res (list (LPoly * IRand) * list (N * option nat) * list gv) :=
    match lcs with
    | [] => Ok ([], [], [])
    | (lab, terms) :: t =>
      do a <- ilc_prover_loop lm (length terms) terms
                {| ia_poly := []; ia_bound := None; ia_hiding := None; ia_rand := 0; ia_srand := None; ia_cc := []; ia_cs := None |};
      do r <- ilc_prover_all lm t;
      let '(ps, info, flat) := r in
      Ok (({| lp_label := lab; lp_poly := ia_poly a; lp_bound := ia_bound a; lp_hiding := ia_hiding a |},
           {| ir_rand := ia_rand a; ir_shifted := ia_srand a |}) :: ps,
          (lab, ia_bound a) :: info, flat_of (ia_cc a) (ia_cs a) ++ flat)
    end.

  Definition i_open_combinations (d : nat) (lcs : list (N * lc)) (items : list (LPoly * IRand * (IComm * option nat)))
             (qs : list query) (st : ISt) : res (list IProof * ISt) :=
    let lm := of_list N.compare (map (fun it => (lp_label (fst (fst it)), it)) items) in
    do r <- ilc_prover_all lm lcs;
    let '(ps, info, flat) := r in
    do lcm <- construct_lcomms info flat;
    let bitems := map (fun pc => (lp_label (fst (fst pc)),
                                  (fst (fst pc), snd (snd (snd pc)), fst (snd (snd pc)), snd (fst pc))))
                      (combine ps lcm) in
    i_batch_open d bitems qs st.

  (* verifier: constants move into the claimed values of their own combination *)
  Fixpoint ilc_verifier_loop (cm : list (N * (IComm * option nat))) (lc_label : N) (num : nat) (terms : lc)
           (ev : list (N * point * F)) (bound : option nat) (cc : gv) (cs : option gv)
    : res (list (N * point * F) * option nat * gv * option gv) :=
    match terms with
    | [] => Ok (ev, bound, cc, cs)
    | (coeff, TOne) :: t =>
      ilc_verifier_loop cm lc_label num t
        (map (fun kv => if N.eqb (fst (fst kv)) lc_label then (fst kv, snd kv - coeff) else kv) ev) bound cc cs
    | (coeff, TPoly l) :: t =>
      match OrdMap.lookup N.compare l cm with
      | None => Err EMissingPolynomial
      | Some c =>
        (* the shifted part is present exactly when the commitment is labelled with a degree bound (assert_eq!) *)
        if negb (Bool.eqb (match snd c with Some _ => true | None => false end)
                          (match ic_shifted (fst c) with Some _ => true | None => false end)) then Panic else
        do b <- bound_policy num coeff (snd c) bound;
        ilc_verifier_loop cm lc_label num t ev b (gvadd cc (gvscale coeff (ic_comm (fst c)))) (comb_opt_g cs (ic_shifted (fst c)) coeff)
      end
    end.

  Fixpoint ilc_verifier_all (cm : list (N * (IComm * option nat))) (lcs : list (N * lc)) (ev : list (N * point * F))
    : res (list (N * option nat) * list gv * list (N * point * F)) :=
    match lcs with
    | [] => Ok ([], [], ev)
    | (lab, terms) :: t =>
      do r <- ilc_verifier_loop cm lab (length terms) terms ev None [] None;
      let '(ev1, b, cc, cs) := r in
      do rest <- ilc_verifier_all cm t ev1;
      let '(info, flat, ev2) := rest in
      Ok ((lab, b) :: info, flat_of cc cs ++ flat, ev2)
    end.

  Definition i_check_combinations (d : nat) (lcs : list (N * lc)) (cs : list (N * (IComm * option nat))) (qs : list query)
             (ev : list (N * point * F)) (proofs : list IProof) (chal hchal vtape : list F) : res (bool * list F * list F * nat) :=
    do r <- ilc_verifier_all (of_list N.compare cs) lcs ev;
    let '(info, flat, ev') := r in
    do lcm <- construct_lcomms info flat;
    i_batch_check d lcm qs ev' proofs chal hchal vtape.
End IPALC.
