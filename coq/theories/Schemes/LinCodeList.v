(* The trait-level open / check of LinearCodePCS (linear_codes/mod.rs) over a list of polynomials, threading the squeezes of
   the shared transcript: per polynomial one field squeeze (the well-formedness challenges, when enabled) and t byte
   squeezes (the queried positions).  The tape is the list of squeezes the library's sponge answered, in order; what is
   left of it is returned, so that the default batch functions of the trait (DefaultBatch.v) can be instantiated with these
   functions: a verifier run that ends early with Ok(false) leaves the remaining squeezes to the next group, as the code
   does.  Commitments are the ideal vector commitments of Ligero.v together with their metadata, the encoder (Reed-Solomon
   or a generator matrix) and the number of queries calculate_t yields for their codeword length. *)
From Coq Require Import List Arith NArith Bool.
From PC Require Import Base.Field Base.Result Base.Poly Schemes.CalcT Schemes.Ligero.
Import ListNotations.
Local Open Scope nat_scope.

Section LinCodeList.
  Context {FO : FieldOps}.

  Inductive sq_ev := SqF (l : list F) | SqB (l : list N).

  Record LCm := mkLCm { cm_enc : list F -> list F; cm_n_rows : nat; cm_n_cols : nat; cm_n_ext : nat;
                        cm_cext : list (list F); cm_t : res nat }.

  (* L::tensor(point, n_cols, n_rows) = (a, b) *)
  Variable tensor : list F -> nat -> nat -> res (list F * list F).
  Variable wf : bool.

  Definition pop_field (tape : list sq_ev) : res (list F * list sq_ev) :=
    match tape with SqF r :: rest => Ok (r, rest) | _ => Err EOther end.
  Fixpoint pop_bytes (t : nat) (tape : list sq_ev) : res (list (list N) * list sq_ev) :=
    match t with
    | O => Ok ([], tape)
    | S k => match tape with
             | SqB b :: rest => do r <- pop_bytes k rest; Ok (b :: fst r, snd r)
             | _ => Err EOther
             end
    end.
  Definition pop_indices (n_ext t : nat) (tape : list sq_ev) : res (list nat * list sq_ev) :=
    do r <- pop_bytes t tape;
    do idx <- indices_of (N.of_nat n_ext) (fst r);
    Ok (map N.to_nat idx, snd r).

  (* ---- verifier: one polynomial ---- *)
  Definition lc_check_one (cm : LCm) (pt : list F) (value : F) (pf : LProof) (tape : list sq_ev) : res (bool * list sq_ev) :=
    do t <- cm_t cm;                                            (* calculate_t(...)? *)
    if negb (length (lf_v pf) =? cm_n_cols cm) then Err EInvalidCommitment else
    do rr <- (if wf then
                match lf_wf pf with
                | None => Err EInvalidCommitment
                | Some w => if negb (length w =? cm_n_cols cm) then Err EInvalidCommitment else pop_field tape
                end
              else Ok ([], tape));
    do ix <- pop_indices (cm_n_ext cm) t (snd rr);
    do b <- l_check_item wf {| li_enc := cm_enc cm; li_n_cols := cm_n_cols cm; li_cext := cm_cext cm;
                               li_ab := tensor pt (cm_n_cols cm) (cm_n_rows cm); li_value := value; li_pf := pf;
                               li_r := fst rr; li_idx := fst ix |};
    Ok (b, snd ix).

  (* for (i, (commitment, value)) in commitments.zip(values).enumerate() { let proof = &proof_array[i]; .. } *)
  Fixpoint lc_check_list (cms : list LCm) (pt : list F) (vals : list F) (pfs : list LProof) (tape : list sq_ev)
    : res (bool * list sq_ev) :=
    match cms, vals with
    | cm :: cms', v :: vals' =>
      match pfs with
      | [] => Panic
      | pf :: pfs' =>
        do r <- lc_check_one cm pt v pf tape;
        if fst r then lc_check_list cms' pt vals' pfs' (snd r) else Ok (false, snd r)
      end
    | _, _ => Ok (true, tape)
    end.

  (* ---- prover: one polynomial (rows = the coefficient matrix of the commitment state) ---- *)
  Definition lc_open_one (cm : LCm) (rows : list (list F)) (pt : list F) (tape : list sq_ev) : res (LProof * list sq_ev) :=
    do ab <- tensor pt (cm_n_cols cm) (cm_n_rows cm);
    do rr <- (if wf then pop_field tape else Ok ([], tape));
    do _ <- (if wf then do v <- row_mul rows (cm_n_cols cm) (fst rr); Ok tt else Ok tt);
    do t <- cm_t cm;
    do _ <- row_mul rows (cm_n_cols cm) (snd ab);
    do ix <- pop_indices (cm_n_ext cm) t (snd rr);
    do pf <- l_open_e (cm_enc cm) wf (cm_n_cols cm) (cm_n_ext cm) rows (snd ab) (fst rr) (fst ix);
    Ok (pf, snd ix).

  Fixpoint lc_open_list (items : list (LCm * list (list F))) (pt : list F) (tape : list sq_ev) : res (list LProof * list sq_ev) :=
    match items with
    | [] => Ok ([], tape)
    | (cm, rows) :: t =>
      do r <- lc_open_one cm rows pt tape;
      do rest <- lc_open_list t pt (snd r);
      Ok (fst r :: fst rest, snd rest)
    end.
End LinCodeList.
