(* Model of poly-commit/src/ipa_pc (InnerProductArgPC): trim, commit, open (the halving rounds), succinct_check
   and check.  Group elements are formal combinations over the key (comm_key[0..d], h, s): coefficient vectors of
   length d+3 (generic-group view of the hash-derived generators).  Sponge challenges and the hash-derived
   round challenges are read from two tapes. *)
From Coq Require Import List Arith NArith Bool.
From PC Require Import Base.Field Base.Result Base.Poly Schemes.LC Schemes.Marlin.
Import ListNotations.
Local Open Scope nat_scope.

Section IPA.
  Context {FO : FieldOps}.
  Local Open Scope F_scope.

  Definition gv := list F.
  Fixpoint gvadd (a b : gv) : gv :=
    match a, b with
    | x :: a', y :: b' => (x + y) :: gvadd a' b'
    | [], b' => b'
    | a', [] => a'
    end.
  Definition gvscale (c : F) (a : gv) : gv := map (fun x => x * c) a.
  Definition gvsub (a b : gv) : gv := gvadd a (gvscale (- (1)) b).
  Fixpoint gvzero (a : gv) : bool := match a with [] => true | x :: t => feqb x 0 && gvzero t end.
  Definition unit_at (i : nat) : gv := repeat 0 i ++ [1].
  (* msm over a list of group vectors: zip *)
  Fixpoint gmsm (key : list gv) (scalars : list F) : gv :=
    match key, scalars with
    | k :: key', x :: scalars' => gvadd (gvscale x k) (gmsm key' scalars')
    | _, _ => []
    end.
  Fixpoint dot (a b : list F) : F :=
    match a, b with x :: a', y :: b' => x * y + dot a' b' | _, _ => 0 end.

  (* keys: supported degree d (d + 1 a power of two after trim) *)
  Definition key_of (d : nat) : list gv := map unit_at (seq 0 (d + 1)%nat).
  Definition gh (d : nat) : gv := unit_at (d + 1)%nat.
  Definition gs (d : nat) : gv := unit_at (d + 2)%nat.

  (* trim: supported degree rounded up to 2^k - 1 *)
  Definition itrim (max_degree supported : nat) : res nat :=
    let s := (2 ^ Nat.log2_up (supported + 1) - 1)%nat in
    if max_degree <? s then Err ETrimmingDegreeTooLarge else Ok s.

  Definition i_check_dab (d : nat) (p : poly) (bound : option nat) : res unit :=
    if d <? degree p then Err ETooManyCoefficients
    else match bound with
         | Some b => if (b <? degree p) || (d <? b) then Err EIncorrectDegreeBound else Ok tt
         | None => Ok tt
         end.

  Record IComm := mkIC { ic_comm : gv; ic_shifted : option gv }.
  Record IRand := mkIR { ir_rand : F; ir_shifted : option F }.

  (* cm_commit over the key slice starting at `off` (zip with the scalars), plus s * r *)
  Definition cm_at (d off : nat) (scalars : list F) (r : option F) : gv :=
    let body := gmsm (skipn off (key_of d)) scalars in
    match r with Some x => gvadd body (gvscale x (gs d)) | None => body end.

  Definition i_commit1 (d : nat) (lp : LPoly) (rng : option (list F)) : res (IComm * IRand * nat) :=
    do _ <- i_check_dab d (lp_poly lp) (lp_bound lp);
    let p := trim (lp_poly lp) in
    do st <- match lp_hiding lp with
             | None => Ok ({| ir_rand := 0; ir_shifted := None |}, O)
             | Some _ =>
               match rng with
               | None => Panic
               | Some tape =>
                 match lp_bound lp with
                 | Some _ => if (length tape <? 2)%nat then Err EOther
                             else Ok ({| ir_rand := nth 0 tape 0; ir_shifted := Some (nth 1 tape 0) |}, 2%nat)
                 | None => if (length tape <? 1)%nat then Err EOther
                           else Ok ({| ir_rand := nth 0 tape 0; ir_shifted := None |}, 1%nat)
                 end
               end
             end;
    let '(r, nd) := st in
    (* key slice [..degree+1] zipped with the coefficients *)
    let comm := gvadd (gmsm (firstn (degree (lp_poly lp) + 1)%nat (key_of d)) p) (gvscale (ir_rand r) (gs d)) in
    let shifted := match lp_bound lp with
                   | Some b => Some (cm_at d (d - b)%nat p (ir_shifted r))
                   | None => None
                   end in
    Ok ({| ic_comm := comm; ic_shifted := shifted |}, r, nd).

  Fixpoint i_commit_all (d : nat) (lps : list LPoly) (rng : option (list F)) : res (list (IComm * IRand) * nat) :=
    match lps with
    | [] => Ok ([], O)
    | lp :: t =>
      do r <- i_commit1 d lp rng;
      let '(c, st, n) := r in
      do rest <- i_commit_all d t (option_map (skipn n) rng);
      Ok ((c, st) :: fst rest, (n + snd rest)%nat)
    end.

  Definition i_shift_poly (d : nat) (p : poly) (bound : nat) : poly :=
    if is_zero_poly p then [] else repeat 0 (d - bound)%nat ++ trim p.

  (* the accumulation loop shared in shape by open and succinct_check: two sponge challenges per item *)
  Record oacc := mkOA { oa_p : poly; oa_r : F; oa_c : gv; oa_hid : bool }.
  Fixpoint i_open_loop (d : nat) (items : list (LPoly * option nat * IComm * IRand)) (cur : F) (chal : list F) (a : oacc)
    : res (oacc * F * list F) :=
    match items with
    | [] => Ok (a, cur, chal)
    | (lp, cbound, cm, st) :: t =>
      do _ <- i_check_dab d (lp_poly lp) (lp_bound lp);
      match chal with
      | nxt :: chal1 =>
        let hid := match lp_hiding lp with Some _ => true | None => false end in
        let a1 := {| oa_p := padd_scaled (oa_p a) cur (lp_poly lp); oa_c := gvadd (oa_c a) (gvscale cur (ic_comm cm));
                     oa_r := if hid then oa_r a + cur * ir_rand st else oa_r a; oa_hid := oa_hid a || hid |} in
        let hb := match lp_bound lp with Some _ => true | None => false end in
        if negb (Bool.eqb hb (match ic_shifted cm with Some _ => true | None => false end)) then Panic else
        if negb (match lp_bound lp, cbound with Some x, Some y => (x =? y)%nat | None, None => true | _, _ => false end) then Panic else
        match chal1 with
        | nxt2 :: chal2 =>
          match lp_bound lp, ic_shifted cm with
          | Some b, Some sc =>
            if hid && (match ir_shifted st with Some _ => false | None => true end) then Panic else
            let a2 := {| oa_p := padd_scaled (oa_p a1) nxt (i_shift_poly d (lp_poly lp) b);
                         oa_c := gvadd (oa_c a1) (gvscale nxt sc);
                         oa_r := if hid then match ir_shifted st with Some sr => oa_r a1 + nxt * sr | None => oa_r a1 end else oa_r a1;
                         oa_hid := oa_hid a1 |} in
            i_open_loop d t nxt2 chal2 a2
          | _, _ => i_open_loop d t nxt2 chal2 a1
          end
        | [] => Err EOther
        end
      | [] => Err EOther
      end
    end.

  Record IProof := mkIP { ip_l : list gv; ip_r : list gv; ip_key : gv; ip_c : F; ip_hcomm : option gv; ip_rand : option F }.

  Fixpoint vadd_scaled (a : list F) (c : F) (b : list F) : list F :=      (* a_i += c * b_i over the zip; a keeps its length *)
    match a, b with
    | x :: a', y :: b' => (x + c * y) :: vadd_scaled a' c b'
    | _, _ => a
    end.
  Fixpoint kadd_scaled (a : list gv) (c : F) (b : list gv) : list gv :=
    match a, b with
    | x :: a', y :: b' => gvadd x (gvscale c y) :: kadd_scaled a' c b'
    | _, _ => a
    end.

  (* the halving rounds: n = 2^rounds *)
  Fixpoint i_rounds (rounds : nat) (hp : gv) (coeffs zs : list F) (key : list gv) (hchal : list F)
    : res (list gv * list gv * gv * F * list F) :=
    match rounds with
    | O => Ok ([], [], hd [] key, hd 0 coeffs, hchal)
    | S k =>
      let half := (2 ^ k)%nat in
      let cl := firstn half coeffs in let cr := skipn half coeffs in
      let zl := firstn half zs in let zr := skipn half zs in
      let kl := firstn half key in let kr := skipn half key in
      let l := gvadd (gmsm kl cr) (gvscale (dot cr zl) hp) in
      let r := gvadd (gmsm kr cl) (gvscale (dot cl zr) hp) in
      match hchal with
      | [] => Err EOther
      | rc :: hchal' =>
        let rci := finv rc in
        do rest <- i_rounds k hp (vadd_scaled cl rci cr) (vadd_scaled zl rc zr) (kadd_scaled kl rc kr) hchal';
        let '(ls, rs, fk, c, hrest) := rest in
        Ok (l :: ls, r :: rs, fk, c, hrest)
      end
    end.

  Definition i_open (d : nat) (items : list (LPoly * option nat * IComm * IRand)) (z : F)
             (chal hchal : list F) (rng : option (list F)) : res (IProof * list F * list F * nat) :=
    match chal with
    | [] => Err EOther
    | c0 :: chal0 =>
      do a <- i_open_loop d items c0 chal0 {| oa_p := []; oa_r := 0; oa_c := []; oa_hid := false |};
      let '(acc, _, rest) := a in
      let v := eval (oa_p acc) z in
      do hidden <- (if oa_hid acc then
                      match rng with
                      | None => Panic
                      | Some tape =>
                        if (length tape <? d + 2)%nat then Err EOther else
                        let hp0 := trim (firstn (d + 1)%nat tape) in
                        let hpoly := trim (psub hp0 [eval hp0 z]) in
                        let hrand := nth (d + 1)%nat tape 0 in
                        let hcomm := gvadd (gmsm (key_of d) hpoly) (gvscale hrand (gs d)) in
                        match hchal with
                        | [] => Err EOther
                        | hc :: hchal' =>
                          let p' := padd_scaled (oa_p acc) hc hpoly in
                          let r' := oa_r acc + hc * hrand in
                          let c' := gvadd (oa_c acc) (gvsub (gvscale hc hcomm) (gvscale r' (gs d))) in
                          Ok (p', c', Some hcomm, Some r', hchal', (d + 2)%nat)
                        end
                      end
                    else Ok (oa_p acc, oa_c acc, None, None, hchal, O));
      let '(p, cc, hcomm, rnd, hchal1, nd) := hidden in
      match hchal1 with
      | [] => Err EOther
      | rc0 :: hchal2 =>
        let hp := gvscale rc0 (gh d) in
        let coeffs := let t := trim p in t ++ repeat 0 (d + 1 - length t)%nat in
        let zs := powers z (d + 1)%nat in
        do rr <- i_rounds (Nat.log2_up (d + 1)%nat) hp coeffs zs (key_of d) hchal2;
        let '(ls, rs, fk, c, hrest) := rr in
        Ok ({| ip_l := ls; ip_r := rs; ip_key := fk; ip_c := c; ip_hcomm := hcomm; ip_rand := rnd |}, rest, hrest, nd)
      end
    end.

  (* succinct_check: cs = (commitment, degree bound) *)
  Fixpoint i_sc_loop (d : nat) (z : F) (cs : list (IComm * option nat)) (vs : list F) (cur : F) (chal : list F) (cc : gv) (cv : F)
    : res (gv * F * list F) :=
    match cs, vs with
    | (cm, bound) :: cs', v :: vs' =>
      match chal with
      | nxt :: chal1 =>
        let cv1 := cv + cur * v in
        let cc1 := gvadd cc (gvscale cur (ic_comm cm)) in
        if negb (Bool.eqb (match bound with Some _ => true | None => false end) (match ic_shifted cm with Some _ => true | None => false end)) then Panic else
        match chal1 with
        | nxt2 :: chal2 =>
          match bound, ic_shifted cm with
          | Some b, Some sc =>
            if (d <? b)%nat then Panic else        (* usize subtraction supported_degree - degree_bound *)
            i_sc_loop d z cs' vs' nxt2 chal2 (gvadd cc1 (gvscale nxt sc)) (cv1 + nxt * v * fpow z (d - b)%nat)
          | _, _ => i_sc_loop d z cs' vs' nxt2 chal2 cc1 cv1
          end
        | [] => Err EOther
        end
      | [] => Err EOther
      end
    | _, _ => Ok (cc, cv, chal)
    end.

  Fixpoint i_fold_lr (ls rs : list gv) (hchal : list F) (acc : gv) (chs : list F) : res (gv * list F * list F) :=
    match ls, rs with
    | l :: ls', r :: rs' =>
      match hchal with
      | [] => Err EOther
      | rc :: hchal' => i_fold_lr ls' rs' hchal' (gvadd acc (gvadd (gvscale (finv rc) l) (gvscale rc r))) (chs ++ [rc])
      end
    | _, _ => Ok (acc, chs, hchal)
    end.

  Definition i_succinct_check (d : nat) (cs : list (IComm * option nat)) (z : F) (vs : list F) (pf : IProof)
             (chal hchal : list F) : res (option (list F) * list F * list F) :=
    match chal with
    | [] => Err EOther
    | c0 :: chal0 =>
      do a <- i_sc_loop d z cs vs c0 chal0 [] 0;
      let '(cc, cv, rest) := a in
      if negb (Bool.eqb (match ip_hcomm pf with Some _ => true | None => false end) (match ip_rand pf with Some _ => true | None => false end)) then Panic else
      do hh <- match ip_hcomm pf, ip_rand pf with
               | Some hcomm, Some rnd =>
                 match hchal with
                 | [] => Err EOther
                 | hc :: hchal' => Ok (gvadd cc (gvsub (gvscale hc hcomm) (gvscale rnd (gs d))), hchal')
                 end
               | _, _ => Ok (cc, hchal)
               end;
      let '(cc1, hchal1) := hh in
      match hchal1 with
      | [] => Err EOther
      | rc0 :: hchal2 =>
        let hp := gvscale rc0 (gh d) in
        do f <- i_fold_lr (ip_l pf) (ip_r pf) hchal2 (gvadd cc1 (gvscale cv hp)) [];
        let '(rcomm, chs, hrest) := f in
        let vprime := sc_evaluate chs z * ip_c pf in
        let check_elem := gvadd (gvscale (ip_c pf) (ip_key pf)) (gvscale vprime hp) in
        Ok (if gvzero (gvsub rcomm check_elem) then Some chs else None, rest, hrest)
      end
    end.

  Definition i_check (d : nat) (cs : list (IComm * option nat)) (z : F) (vs : list F) (pf : IProof) (chal hchal : list F)
    : res (bool * list F * list F) :=
    let log_d := Nat.log2_up (d + 1)%nat in
    if negb (length (ip_l pf) =? length (ip_r pf))%nat || negb (length (ip_l pf) =? log_d)%nat then Err EIncorrectInputLength else
    do r <- i_succinct_check d cs z vs pf chal hchal;
    let '(o, rest, hrest) := r in
    match o with
    | None => Ok (false, rest, hrest)
    | Some chs =>
      let final_key := gmsm (key_of d) (compute_coeffs chs) in
      Ok (gvzero (gvsub final_key (ip_key pf)), rest, hrest)
    end.
End IPA.
