(* The serializable artefacts of the crate as schemas: struct fields in the order the derived or
   hand-written (de)serializers visit them (source file and type named at each definition).
   Parameters: byte sizes of a G1 / G2 / scalar element in the chosen compression mode
   (for the Pedersen schemes over a single curve g1 is that curve's point size). *)
From Coq Require Import List NArith Arith Bool.
From PC Require Import Base.Codec.
Import ListNotations.

Section Artefacts.
  Variables (g1 g2 f : nat).
  Let G1 := SPrim g1. Let G2 := SPrim g2. Let Fe := SPrim f.
  Definition usize_map (s : schema) : schema := SVec (STuple [SU64; s]).     (* BTreeMap<usize, T> *)
  Definition dense_poly : schema := STuple [SVec Fe].                        (* ark-poly DensePolynomial { coeffs } *)

  (* kzg10/data_structures.rs *)
  Definition kzg_universal_params := STuple [SVec G1; usize_map G1; G2; G2; usize_map G2].  (* manual impl; prepared_* rebuilt *)
  Definition kzg_powers := STuple [SVec G1; SVec G1].                                      (* manual impl *)
  Definition kzg_vk := STuple [G1; G1; G2; G2].                                            (* manual impl; prepared_* rebuilt *)
  Definition kzg_commitment := STuple [G1].
  Definition kzg_randomness := STuple [dense_poly].                                        (* + PhantomData *)
  Definition kzg_proof := STuple [G1; SOption Fe].

  (* marlin/marlin_pc/data_structures.rs (derived) *)
  Definition marlin_ck := STuple [SVec G1; SOption (SVec G1); SVec G1; SOption (SVec SU64); SU64].
  Definition marlin_vk := STuple [kzg_vk; SOption (SVec (STuple [SU64; G1])); SU64; SU64].
  Definition marlin_commitment := STuple [kzg_commitment; SOption kzg_commitment].
  Definition marlin_randomness := STuple [kzg_randomness; SOption kzg_randomness].
  Definition kzg_proof_list := SVec kzg_proof.                                             (* Vec<Proof> / sonic BatchProof *)

  (* sonic_pc/data_structures.rs *)
  Definition sonic_ck := STuple [SVec G1; SVec G1; SOption (SVec G1); SOption (usize_map (SVec G1)); SOption (SVec SU64); SU64].
  Definition sonic_vk := STuple [G1; G1; G2; G2; SOption (SVec (STuple [SU64; G2])); SU64; SU64].   (* manual impl *)

  (* ipa_pc/data_structures.rs (derived; one curve: points have size g1) *)
  Definition ipa_params := STuple [SVec G1; G1; G1].
  Definition ipa_key := STuple [SVec G1; G1; G1; SU64].
  Definition ipa_commitment := STuple [G1; SOption G1].
  Definition ipa_randomness := STuple [Fe; SOption Fe].
  Definition ipa_proof := STuple [SVec G1; SVec G1; G1; Fe; SOption G1; SOption Fe].
  Definition ipa_proof_list := SVec ipa_proof.

  (* marlin/marlin_pst13_pc/data_structures.rs *)
  Definition sparse_term := STuple [SVec (STuple [SU64; SU64])].                           (* SparseTerm(Vec<(usize, usize)>) *)
  Definition pst13_params := STuple [SVec (STuple [sparse_term; G1]); G1; SVec (SVec G1); G2; SVec G2; SU64; SU64].  (* manual *)
  Definition pst13_ck := STuple [SVec (STuple [sparse_term; G1]); G1; SVec (SVec G1); SU64; SU64; SU64].
  Definition pst13_vk := STuple [G1; G1; G2; SVec G2; SU64; SU64; SU64].                    (* manual *)
  Definition sparse_poly := STuple [SU64; SVec (STuple [Fe; sparse_term])].
  Definition pst13_randomness := STuple [sparse_poly].
  Definition pst13_proof := STuple [SVec G1; SOption Fe].
  Definition pst13_proof_list := SVec pst13_proof.

  (* hyrax/data_structures.rs *)
  Definition matrix := STuple [SU64; SU64; SVec (SVec Fe)].                                (* utils.rs Matrix { n, m, entries } *)
  Definition hyrax_params := STuple [SVec G1; G1].
  Definition hyrax_commitment := STuple [SVec G1].
  Definition hyrax_state := STuple [SVec Fe; matrix].
  Definition hyrax_proof := STuple [G1; G1; G1; SVec Fe; Fe; Fe; Fe].
  Definition hyrax_proof_list := SVec hyrax_proof.
  Definition hyrax_batch_proof := SVec hyrax_proof_list.

  (* linear_codes/data_structures.rs; digests are Vec<u8> *)
  Definition merkle_path := STuple [SBytes; SVec SBytes; SU64].                            (* ark-crypto-primitives Path *)
  Definition lincode_commitment := STuple [STuple [SU64; SU64; SU64]; SBytes].
  Definition lincode_state := STuple [matrix; matrix; SVec SBytes].
  Definition lincode_proof := STuple [STuple [SVec merkle_path; SVec Fe; SVec (SVec Fe)]; SOption (SVec Fe)].
  Definition lincode_proof_list := SVec lincode_proof.
  Definition lincode_batch_proof := SVec lincode_proof_list.
  Definition ligero_params := STuple [SU64; SU64; SBool].                                  (* + PhantomData and unit hash parameters *)
  Definition sprs_mat := STuple [SU64; SU64; SU64; SVec SU64; SVec SU64; SVec Fe].
  Definition pair_usize := STuple [SU64; SU64].
  Definition brakedown_params :=
    STuple [SU64; pair_usize; pair_usize; pair_usize; SU64; SU64; SU64; SU64;
            SVec (STuple [SU64; SU64; SU64]); SVec (STuple [SU64; SU64; SU64]); SVec SU64; SVec SU64;
            SVec sprs_mat; SVec sprs_mat; SBool].

  (* data_structures.rs *)
  Definition batch_lc_proof (bp : schema) := STuple [bp; SOption (SVec Fe)].

  (* multilinear_pc/data_structures.rs *)
  Definition mlpc_commitment := STuple [SU64; G1].
  Definition mlpc_proof := STuple [SVec G2].
  Definition mlpc_params := STuple [SU64; SVec (SVec G1); SVec (SVec G2); G1; G2; SVec G1].
  Definition mlpc_ck := STuple [SU64; SVec (SVec G1); SVec (SVec G2); G1; G2].
  Definition mlpc_vk := STuple [SU64; G1; G2; SVec G1].

  Definition all_schemas : list schema :=
    [kzg_universal_params; kzg_powers; kzg_vk; kzg_commitment; kzg_randomness; kzg_proof;
     marlin_ck; marlin_vk; marlin_commitment; marlin_randomness; kzg_proof_list;
     sonic_ck; sonic_vk; ipa_params; ipa_key; ipa_commitment; ipa_randomness; ipa_proof; ipa_proof_list;
     pst13_params; pst13_ck; pst13_vk; pst13_randomness; pst13_proof; pst13_proof_list;
     hyrax_params; hyrax_commitment; hyrax_state; hyrax_proof; hyrax_proof_list; hyrax_batch_proof;
     lincode_commitment; lincode_state; lincode_proof; lincode_proof_list; lincode_batch_proof;
     ligero_params; brakedown_params;
     batch_lc_proof kzg_proof_list; batch_lc_proof ipa_proof_list; batch_lc_proof pst13_proof_list;
     batch_lc_proof hyrax_batch_proof; batch_lc_proof lincode_batch_proof;
     mlpc_commitment; mlpc_proof; mlpc_params; mlpc_ck; mlpc_vk].
End Artefacts.

(* the four instantiations used by the harness: BLS12-381 (G1 48/96, G2 96/192, Fr 32) and
   ed-on-BLS12-381 (point 32/64, Fr 32), compressed / uncompressed *)
Lemma all_schemas_wf :
  forallb wf (all_schemas 48 96 32) = true /\ forallb wf (all_schemas 96 192 32) = true /\
  forallb wf (all_schemas 32 32 32) = true /\ forallb wf (all_schemas 64 64 32) = true.
Proof. repeat split; vm_compute; reflexivity. Qed.
