(* Model of poly-commit/src/sonic_pc (SonicKZG10): trim with shifted powers / negative powers of h per
   enforced bound, commit (shifted key for degree-bounded polynomials), open (one KZG10 proof for the
   challenge-weighted combination), check (accumulate_elems + check_elems); discrete-log view. *)
From Coq Require Import List Arith NArith Bool.
From PC Require Import Base.Field Base.Result Base.Poly Base.OrdMap Schemes.KZG10 Schemes.LC Schemes.Marlin.
Import ListNotations.
Local Open Scope nat_scope.

Section Sonic.
  Context {FO : FieldOps}.

  Record SCKey := mkSCK {
    sck_g : list F; sck_gamma : list F;
    sck_shifted : option (list F);                    (* powers_of_g[D - max_bound ..] *)
    sck_shifted_gamma : option (list (nat * list F)); (* per bound: gamma powers from D - bound *)
    sck_bounds : option (list nat); sck_max : nat; sck_supported : nat }.
  Record SVKey := mkSVK { svk_vk : VKey; svk_neg : option (list (nat * F)); svk_supported : nat; svk_max : nat }.

  Fixpoint assoc_nat {A} (k : nat) (l : list (nat * A)) : option A :=
    match l with [] => None | (k', a) :: t => if k =? k' then Some a else assoc_nat k t end.

  Definition strim (up : UParams) (supported hiding : nat) (bounds : option (list nat)) : res (SCKey * SVKey) :=
    let D := max_degree up in
    if D <? supported then Err ETrimmingDegreeTooLarge else
    let eb := option_map sort_dedup bounds in
    do parts <- match eb with
                | Some (b0 :: bs) =>
                  let l := b0 :: bs in
                  let hi := last l O in
                  if supported <? hi then Err EUnsupportedDegreeBound else
                  do sg <- mapM (fun d => do g <- index_all (up_powers_of_gamma_g up)
                                                    (filter (fun j => j <? D + 2) (map (fun i => D - d + i) (seq 0 (hiding + 2))));
                                          Ok (d, g)) l;
                  do ng <- mapM (fun d => match nth_error (up_neg_powers_of_h up) (D - d) with
                                          | Some x => Ok (d, x) | None => Panic end) l;
                  Ok (Some (skipn (D - hi) (up_powers_of_g up)), Some sg, Some ng)
                | _ => Ok (None, None, None)
                end;
    let '(sp, sg, ng) := parts in
    do gam <- index_all (up_powers_of_gamma_g up) (seq 0 (hiding + 2));
    Ok ({| sck_g := firstn (supported + 1) (up_powers_of_g up); sck_gamma := gam; sck_shifted := sp;
           sck_shifted_gamma := sg; sck_bounds := eb; sck_max := D; sck_supported := supported |},
        {| svk_vk := vk_of up; svk_neg := ng; svk_supported := supported; svk_max := D |}).

  (* CommitterKey::shifted_powers(bound) *)
  Definition s_shifted_powers (ck : SCKey) (d : nat) : res Powers :=
    match sck_shifted ck, sck_shifted_gamma ck, sck_bounds ck with
    | Some sp, Some sg, Some bs =>
      if negb (nat_mem d bs) then Panic else
      let hi := last bs O in
      if length sp <? hi - d then Panic else
      match assoc_nat d sg with
      | Some g => Ok {| pw_g := skipn (hi - d) sp; pw_gamma_g := g |}
      | None => Panic
      end
    | _, _, _ => Panic      (* .unwrap() of None *)
    end.

  Definition s_commit1 (ck : SCKey) (lp : LPoly) (rng : option (list F)) : res (F * Rand * nat) :=
    do _ <- check_degrees_and_bounds (sck_max ck) (sck_bounds ck) (lp_poly lp) (lp_bound lp);
    do pw <- match lp_bound lp with
             | Some d => s_shifted_powers ck d
             | None => Ok {| pw_g := sck_g ck; pw_gamma_g := sck_gamma ck |}
             end;
    kzg_commit_opt pw (lp_poly lp) (lp_hiding lp) rng.

  Fixpoint s_commit_all (ck : SCKey) (lps : list LPoly) (rng : option (list F)) : res (list (F * Rand) * nat) :=
    match lps with
    | [] => Ok ([], O)
    | lp :: t =>
      do r <- s_commit1 ck lp rng;
      let '(c, st, n) := r in
      do rest <- s_commit_all ck t (option_map (skipn n) rng);
      Ok ((c, st) :: fst rest, n + snd rest)
    end.

  (* open: challenges from the tape: one before the loop, one after every polynomial *)
  Fixpoint s_open_loop (ck : SCKey) (items : list (LPoly * Rand)) (cur : F) (chal : list F) (p r : poly)
    : res (poly * poly * list F) :=
    match items with
    | [] => Ok (p, r, chal)
    | (lp, st) :: t =>
      do _ <- check_degrees_and_bounds (sck_max ck) (sck_bounds ck) (lp_poly lp) (lp_bound lp);
      match chal with
      | [] => Err EOther
      | nxt :: chal1 => s_open_loop ck t nxt chal1 (padd_scaled p cur (lp_poly lp)) (padd_scaled r cur st)
      end
    end.
  Definition s_open (ck : SCKey) (items : list (LPoly * Rand)) (z : F) (chal : list F) : res (Proof * list F) :=
    match chal with
    | [] => Err EOther
    | c0 :: chal0 =>
      do a <- s_open_loop ck items c0 chal0 [] [];
      let '(p, r, rest) := a in
      do pf <- KZG10.open {| pw_g := sck_g ck; pw_gamma_g := sck_gamma ck |} p z r;
      Ok (pf, rest)
    end.

  (* check: accumulate_elems + check_elems.  cs: (commitment, degree bound) *)
  Definition shift_power (vk : SVKey) (bound : option nat) : res F :=
    match bound with
    | None => Ok (vk_h (svk_vk vk))
    | Some d => match svk_neg vk with
                | Some l => match assoc_nat d l with Some x => Ok x | None => Err EUnsupportedDegreeBound end
                | None => Err EUnsupportedDegreeBound
                end
    end.
  Fixpoint s_acc (vk : SVKey) (cs : list (F * option nat)) (vs : list F) (cur : F) (chal : list F) (lhs val : F)
    : res (res F * F * list F) :=          (* (sum of comm*shift or the first lookup error, combined value, rest) *)
    match cs, vs with
    | (c, b) :: cs', v :: vs' =>
      match chal with
      | [] => Err EOther
      | nxt :: chal1 =>
        do r <- s_acc vk cs' vs' nxt chal1 lhs val;
        let '(l, va, rest) := r in
        let term := match shift_power vk b with Ok sp => Ok (fmul (fmul c cur) sp) | Err e => Err e | Panic => Panic end in
        Ok (match term, l with
            | Ok x, Ok y => Ok (fadd x y)
            | Err e, _ => Err e
            | Panic, _ => Panic
            | _, other => other
            end, fadd (fmul v cur) va, rest)
      end
    | _, _ => Ok (Ok lhs, val, chal)
    end.
  Definition s_check (vk : SVKey) (cs : list (F * option nat)) (z : F) (vs : list F) (pf : Proof) (chal : list F)
    : res (bool * list F) :=
    match chal with
    | [] => Err EOther
    | c0 :: chal0 =>
      do a <- s_acc vk cs vs c0 chal0 f0 f0;
      let '(l, va, rest) := a in
      do lhs <- l;
      let k := svk_vk vk in
      let adj := fsub (fmul (vk_g k) va) (fmul (pf_w pf) z) in
      let adj := match pf_random_v pf with Some rv => fadd adj (fmul (vk_gamma_g k) rv) | None => adj end in
      Ok (feqb (fsub (fsub lhs (fmul adj (vk_h k))) (fmul (pf_w pf) (vk_beta_h k))) f0, rest)
    end.
  (* ---------------- batch paths: trait-default batch_open, SonicKZG10::batch_check ---------------- *)
  Definition s_poly_map (items : list (LPoly * Rand)) : list (N * (LPoly * Rand)) :=
    of_list N.compare (map (fun it => (lp_label (fst it), it)) items).
  Fixpoint s_open_groups (ck : SCKey) (pm : list (N * (LPoly * Rand))) (groups : list (N * (F * list N))) (chal : list F)
    : res (list Proof * list F) :=
    match groups with
    | [] => Ok ([], chal)
    | (_, (pt, labels)) :: t =>
      do items <- lookup_all pm labels;
      do r <- s_open ck items pt chal;
      do rest <- s_open_groups ck pm t (snd r);
      Ok (fst r :: fst rest, snd rest)
    end.
  Definition s_batch_open (ck : SCKey) (items : list (LPoly * Rand)) (qs : list query) (chal : list F) : res (list Proof * list F) :=
    s_open_groups ck (s_poly_map items) (group_queries qs) chal.

  (* commitments by label: (commitment, degree bound) *)
  Definition s_comm_map (cs : list (N * (F * option nat))) : list (N * (F * option nat)) := of_list N.compare cs.
  Fixpoint s_gather (cm : list (N * (F * option nat))) (ev : evals) (pt : F) (labels : list N)
    : res (list (F * option nat) * list F) :=
    match labels with
    | [] => Ok ([], [])
    | l :: t =>
      match lookup N.compare l cm with
      | None => Err EMissingPolynomial
      | Some c =>
        match lookup qkey_cmp (l, pt) ev with
        | None => Err EMissingEvaluation
        | Some v => do r <- s_gather cm ev pt t; Ok (c :: fst r, v :: snd r)
        end
      end
    end.
  (* one accumulate_elems call with randomizer rho: adds rho * (sum, adjusted witness, witness) *)
  Record sbacc := mkSB { sb_lhs : res F; sb_adj : F; sb_wit : F }.
  Definition s_accumulate (vk : SVKey) (cs : list (F * option nat)) (z : F) (vs : list F) (pf : Proof) (chal : list F)
             (rho : F) (a : sbacc) : res (sbacc * list F) :=
    match chal with
    | [] => Err EOther
    | c0 :: chal0 =>
      do r <- s_acc vk cs vs c0 chal0 f0 f0;
      let '(l, va, rest) := r in
      let k := svk_vk vk in
      let adj := fsub (fmul (vk_g k) va) (fmul (pf_w pf) z) in
      let adj := match pf_random_v pf with Some rv => fadd adj (fmul (vk_gamma_g k) rv) | None => adj end in
      Ok ({| sb_lhs := match sb_lhs a, l with
                       | Ok x, Ok y => Ok (fadd x (fmul rho y))
                       | Ok _, other => other
                       | other, _ => other
                       end;
             sb_adj := fadd (sb_adj a) (fmul rho adj); sb_wit := fadd (sb_wit a) (fmul rho (pf_w pf)) |}, rest)
    end.
  Fixpoint s_batch_groups (vk : SVKey) (cm : list (N * (F * option nat))) (ev : evals) (groups : list (N * (F * list N)))
           (pfs : list Proof) (chal : list F) (rho : F) (vtape : list F) (a : sbacc) (draws : nat)
    : res (sbacc * list F * nat) :=
    match groups, pfs with
    | (_, (pt, labels)) :: t, pf :: pfs' =>
      do cv <- s_gather cm ev pt labels;
      do r <- s_accumulate vk (fst cv) pt (snd cv) pf chal rho a;
      match vtape with
      | [] => Err EOther
      | rho' :: vtape' => s_batch_groups vk cm ev t pfs' (snd r) rho' vtape' (fst r) (S draws)
      end
    | _, _ => Ok (a, chal, draws)
    end.
  (* evm: the evaluations as the BTreeMap the function is handed *)
  Definition s_batch_check_m (vk : SVKey) (cs : list (N * (F * option nat))) (qs : list query) (evm : evals)
             (pfs : list Proof) (chal vtape : list F) : res (bool * list F * nat) :=
    let groups := group_queries qs in
    if negb (Nat.eqb (length pfs) (length groups)) then Panic else
    do r <- s_batch_groups vk (s_comm_map cs) evm groups pfs chal f1 vtape
                           {| sb_lhs := Ok f0; sb_adj := f0; sb_wit := f0 |} O;
    let '(a, rest, draws) := r in
    do lhs <- sb_lhs a;
    let k := svk_vk vk in
    Ok (feqb (fsub (fsub lhs (fmul (sb_adj a) (vk_h k))) (fmul (sb_wit a) (vk_beta_h k))) f0, rest, draws).
  Definition s_batch_check (vk : SVKey) (cs : list (N * (F * option nat))) (qs : list query) (ev : evals)
             (pfs : list Proof) (chal vtape : list F) : res (bool * list F * nat) :=
    s_batch_check_m vk cs qs (evals_map ev) pfs chal vtape.
End Sonic.
