(* linear_codes/utils.rs: number of column openings (calculate_t), index derivation
   (get_num_bytes, get_indices_from_sponge), Reed-Solomon encoding as evaluation on a
   multiplicative domain.  Exact integer arithmetic: the soundness bound
        2 * (1 - d/2)^t + n/|F| <= 2^-lambda        with d = d0/d1
   is, after clearing denominators (a = 2*d1 - d0, b = 2*d1, L = 2^lambda),
        2 * a^t * L * |F| + n * b^t * L <= b^t * |F|. *)
From Coq Require Import NArith List Bool.
From PC Require Import Base.Field Base.Result Base.Poly.
Import ListNotations.
Local Open Scope N_scope.

Section CalcT.
  Variables (lam d0 d1 n fsize : N).

  Definition ca : N := 2 * d1 - d0.
  Definition cb : N := 2 * d1.
  Definition cL : N := 2 ^ lam.

  (* the bound with the powers a^t, b^t supplied *)
  Definition holds_at (pa pb : N) : bool := 2 * pa * cL * fsize + n * pb * cL <=? pb * fsize.
  Definition bound_holds (t : N) : bool := holds_at (ca ^ t) (cb ^ t).

  (* linear search carrying the powers; fuel bounds the number of steps *)
  Fixpoint find_t (fuel : nat) (t pa pb : N) : option N :=
    match fuel with
    | O => None
    | S f => if holds_at pa pb then Some t else find_t f (N.succ t) (pa * ca) (pb * cb)
    end.

  Definition t_min (fuel : nat) : option N := find_t fuel 0 1 1.

  (* no t can satisfy the bound: n/|F| >= 2^-lambda *)
  Definition infeasible : bool := fsize <=? n * cL.
  (* distance outside (0, 2): the closed form of the code has no meaning *)
  Definition bad_distance : bool := (d0 =? 0) || (cb <=? d0) || (d1 =? 0).

  (* calculate_t: Err on unusable parameters, else min(t, n).  None = fuel exhausted
     (excluded by the theorems' statements; the driver reports it as such) *)
  Definition calc_t (fuel : nat) : option (res N) :=
    if infeasible then Some (Err EInvalidParameters)
    else if bad_distance then Some (Err EInvalidParameters)
    else match t_min fuel with
         | None => None
         | Some t => Some (Ok (N.min t n))
         end.
End CalcT.

(* get_num_bytes: ceil(bit length / 8) *)
Definition num_bits (n : N) : N := match n with N0 => 0 | Npos p => Npos (Pos.size p) end.
Definition get_num_bytes (n : N) : N := (num_bits n + 7) / 8.

(* bytes.iter().fold(0, |acc, x| (acc << 8) + x) % n   (n > 0; n = 0 aborts in the code) *)
Definition bytes_to_int (bytes : list N) : N := fold_left (fun acc x => acc * 256 + x) bytes 0.
Definition index_of_bytes (n : N) (bytes : list N) : res N :=
  if n =? 0 then Panic else Ok (bytes_to_int bytes mod n).
Definition indices_of (n : N) (squeezes : list (list N)) : res (list N) := mapM (index_of_bytes n) squeezes.

(* Reed-Solomon: the message is a coefficient vector, the codeword its evaluations on
   the domain <omega> of size m *)
Section RS.
  Context {FO : FieldOps}.
  Fixpoint domain_from (cur omega : F) (m : nat) : list F :=
    match m with O => [] | S k => cur :: domain_from (fmul cur omega) omega k end.
  Definition rs_encode (omega : F) (m : nat) (msg : poly) : list F :=
    map (eval msg) (domain_from f1 omega m).
End RS.
