(* Model of poly-commit/src/multilinear_pc (multilinear PST): setup with the eq-tables of the
   trapdoor point, trim, commit, open (one quotient per variable), check; discrete-log view. *)
From Coq Require Import List Arith NArith Bool.
From PC Require Import Base.Field Base.Result Base.Poly.
Import ListNotations.
Local Open Scope nat_scope.

Section MLPC.
  Context {FO : FieldOps}.
  Local Open Scope F_scope.

  (* tables over the boolean hypercube, index x = x_0 + 2 x_1 + ... (variable 0 is the lowest bit) *)
  Fixpoint fold_var (r : list F) (z : F) : list F :=      (* fix the lowest variable to z *)
    match r with
    | a :: b :: t => (a * (1 - z) + b * z) :: fold_var t z
    | _ => []
    end.
  Fixpoint diff_var (r : list F) : list F :=              (* slope in the lowest variable *)
    match r with
    | a :: b :: t => (b - a) :: diff_var t
    | _ => []
    end.
  Fixpoint mle_eval (f : list F) (t : list F) : F :=
    match t with
    | [] => hd 0 f
    | t0 :: ts => mle_eval (fold_var f t0) ts
    end.
  (* eq_extension + the running products of setup: eq(t, x) = prod_i (t_i x_i + (1 - t_i)(1 - x_i)) *)
  Fixpoint eq_table (t : list F) : list F :=
    match t with
    | [] => [1]
    | t0 :: ts => flat_map (fun e => [e * (1 - t0); e * t0]) (eq_table ts)
    end.
  Definition dup (q : list F) : list F := flat_map (fun x => [x; x]) q.

  Record MLParams := mkMLP { mp_nv : nat; mp_g : F; mp_h : F; mp_pg : list (list F); mp_ph : list (list F); mp_mask : list F }.
  Definition ml_setup (nv : nat) (g h : F) (t : list F) : res MLParams :=
    if (nv =? 0)%nat then Panic      (* assert!(num_vars > 0) *)
    else Ok {| mp_nv := nv; mp_g := g; mp_h := h;
               mp_pg := map (fun i => map (fun e => g * e) (eq_table (skipn i t))) (seq 0 nv);
               mp_ph := map (fun i => map (fun e => h * e) (eq_table (skipn i t))) (seq 0 nv);
               mp_mask := map (fun ti => g * ti) t |}.
  (* trim to fewer variables: drop the leading tables (and mask elements) *)
  Definition ml_trim (pp : MLParams) (snv : nat) : res MLParams :=
    if (mp_nv pp <? snv)%nat then Panic
    else let d := (mp_nv pp - snv)%nat in
         Ok {| mp_nv := snv; mp_g := mp_g pp; mp_h := mp_h pp;
               mp_pg := skipn d (mp_pg pp); mp_ph := skipn d (mp_ph pp); mp_mask := skipn d (mp_mask pp) |}.

  Definition ml_commit (ck : MLParams) (nvp : nat) (f : list F) : res F :=
    if negb (nvp =? mp_nv ck)%nat then Panic      (* assert_eq!(polynomial.num_vars(), ck.nv) *)
    else match mp_pg ck with
         | [] => Panic                              (* ck.powers_of_g[0] *)
         | tbl :: _ => Ok (msm tbl f)
         end.

  Fixpoint open_loop (ph : list (list F)) (r : list F) (point : list F) : res (list F) :=
    match ph with
    | [] => Ok []
    | tbl :: ph' =>
      match point with
      | [] => Panic                                        (* point[i] out of range *)
      | z :: point' => do rest <- open_loop ph' (fold_var r z) point';
                       Ok (msm tbl (dup (diff_var r)) :: rest)
      end
    end.
  Definition ml_open (ck : MLParams) (nvp : nat) (f : list F) (point : list F) : res (list F) :=
    if negb (nvp =? mp_nv ck)%nat then Panic else open_loop (mp_ph ck) f point.

  Fixpoint pair_sum (mask point proofs : list F) (g : F) : F :=
    match mask, point, proofs with
    | m :: ms, z :: zs, p :: ps => (m - g * z) * p + pair_sum ms zs ps g
    | _, _, _ => 0
    end.
  (* multi_pairing zips its two lists; g_mul[i] needs nv coordinates *)
  Definition ml_check (vk : MLParams) (c : F) (point : list F) (v : F) (proofs : list F) : res bool :=
    if (length point <? mp_nv vk)%nat then Panic
    else if negb (length proofs =? mp_nv vk)%nat then Panic     (* multi_pairing aborts on lists of different lengths *)
    else Ok (feqb ((c - mp_g vk * v) * mp_h vk) (pair_sum (firstn (mp_nv vk) (mp_mask vk)) point proofs (mp_g vk))).
End MLPC.
