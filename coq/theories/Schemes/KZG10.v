(* Model of poly-commit/src/kzg10/mod.rs in the discrete-log representation:
   G1, G2, GT elements are their logs w.r.t. fixed generators, e(a,b) = a*b. *)
From Coq Require Import List Arith Bool.
From PC Require Import Base.Field Base.Result Base.Poly.
Import ListNotations.
Open Scope F_scope.

Section KZG10.
  Context {FO : FieldOps}.

  Record UParams := mkUP {
    up_powers_of_g : list F;        (* beta^i g, i = 0..D *)
    up_powers_of_gamma_g : list F;  (* beta^i gamma_g, i = 0..D+1 (BTreeMap keyed 0..) *)
    up_h : F;
    up_beta_h : F;
    up_neg_powers_of_h : list F     (* beta^-i h, i = 0..D, or empty *)
  }.
  Record Powers := mkPw { pw_g : list F; pw_gamma_g : list F }.
  Record VKey := mkVK { vk_g : F; vk_gamma_g : F; vk_h : F; vk_beta_h : F }.
  Record Proof := mkPf { pf_w : F; pf_random_v : option F }.
  Definition Rand := poly.  (* blinding polynomial; [] = Randomness::empty() *)

  Fixpoint npowers_from (cur b : F) (n : nat) : list F :=
    match n with O => [] | S k => cur :: npowers_from (cur / b) b k end.

  (* KZG10::setup; the four random draws (beta, g, gamma_g, h) are inputs. *)
  Definition setup (D : nat) (produce_g2 : bool) (beta g gamma_g h : F) : res UParams :=
    if D <? 1 then Err EDegreeIsZero else
    let pb := powers beta (D + 2) in
    Ok {| up_powers_of_g := map (fun s => g * s) (firstn (D + 1) pb);
          up_powers_of_gamma_g := map (fun s => gamma_g * s) pb;
          up_h := h;
          up_beta_h := h * beta;
          up_neg_powers_of_h :=
            if produce_g2
            then map (fun s => h * s) (1 :: npowers_from (1 / beta) beta D)
            else [] |}.

  Definition max_degree (up : UParams) : nat := pred (length (up_powers_of_g up)).

  (* the slicing every wrapper's trim performs (and the kzg10 tests' helper) *)
  Definition powers_of (up : UParams) (supported : nat) : Powers :=
    {| pw_g := firstn (supported + 1) (up_powers_of_g up);
       pw_gamma_g := firstn (supported + 1) (up_powers_of_gamma_g up) |}.
  Definition vk_of (up : UParams) : VKey :=
    {| vk_g := nth 0 (up_powers_of_g up) 0;
       vk_gamma_g := nth 0 (up_powers_of_gamma_g up) 0;
       vk_h := up_h up; vk_beta_h := up_beta_h up |}.

  Definition check_degree_is_too_large (deg num_powers : nat) : res unit :=
    if num_powers <? deg + 1 then Err ETooManyCoefficients else Ok tt.

  Definition check_hiding_bound (hdeg num_powers : nat) : res unit :=
    if hdeg =? 0 then Err EHidingBoundIsZero
    else if num_powers <=? hdeg then Err EHidingBoundTooLarge
    else Ok tt.

  Definition is_hiding (r : Rand) : bool := negb (is_zero_poly r).

  (* Randomness::rand(h): DensePolynomial::rand(h+1) draws h+2 coefficients *)
  Definition rand_draws (h : nat) : nat := h + 2.
  Definition take_tape (n : nat) (tape : list F) : res (list F) :=
    if length tape <? n then Err EOther (* harness tape too short: never a library outcome *)
    else Ok (firstn n tape).

  (* commitment to the coefficient list under a key slice, as commit and
     open_with_witness_polynomial do: skip low-order zeros, MSM over the rest *)
  Definition commit_coeffs (bases : list F) (p : poly) : F :=
    let '(nlz, cs) := skip_leading_zeros (trim p) in msm (skipn nlz bases) cs.

  (* KZG10::commit: returns commitment, randomness, number of field draws *)
  Definition commit (pw : Powers) (p : poly) (hiding_bound : option nat)
             (rng : option (list F)) : res (F * Rand * nat) :=
    do _ <- check_degree_is_too_large (degree p) (length (pw_g pw));
    let c := commit_coeffs (pw_g pw) p in
    do rd <- match hiding_bound with
             | None => Ok ([], O)
             | Some h =>
               match rng with
               | None => Err EMissingRng
               | Some tape =>
                 do cs <- take_tape (rand_draws h) tape;
                 let r := trim cs in
                 do _ <- check_hiding_bound (degree r) (length (pw_gamma_g pw));
                 Ok (r, rand_draws h)
               end
             end;
    let '(r, draws) := rd in
    Ok (c + msm (pw_gamma_g pw) r, r, draws).

  Definition witness_poly (p : poly) (z : F) : poly := trim (quot_lin (trim p) z).

  Definition open_with_witness (pw : Powers) (z : F) (r : Rand) (wp : poly)
             (hwp : option poly) : res Proof :=
    do _ <- check_degree_is_too_large (degree wp) (length (pw_g pw));
    let w := commit_coeffs (pw_g pw) wp in
    match hwp with
    | Some hw => Ok {| pf_w := w + msm (pw_gamma_g pw) (trim hw); pf_random_v := Some (eval r z) |}
    | None => Ok {| pf_w := w; pf_random_v := None |}
    end.

  Definition open (pw : Powers) (p : poly) (z : F) (r : Rand) : res Proof :=
    do _ <- check_degree_is_too_large (degree p) (length (pw_g pw));
    let wp := witness_poly p z in
    let hwp := if is_hiding r then Some (witness_poly r z) else None in
    open_with_witness pw z r wp hwp.

  (* residual lhs - rhs of the pairing equation, in GT logs *)
  Definition check_residual (vk : VKey) (c z v : F) (pf : Proof) : F :=
    let inner := c - vk_g vk * v in
    let inner := match pf_random_v pf with Some rv => inner - vk_gamma_g vk * rv | None => inner end in
    inner * vk_h vk - pf_w pf * (vk_beta_h vk - vk_h vk * z).

  Definition check (vk : VKey) (c z v : F) (pf : Proof) : res bool :=
    let inner := c - vk_g vk * v in
    let inner := match pf_random_v pf with Some rv => inner - vk_gamma_g vk * rv | None => inner end in
    let lhs := inner * vk_h vk in
    let rhs := pf_w pf * (vk_beta_h vk - vk_h vk * z) in
    Ok (feqb lhs rhs).

  (* KZG10::batch_check: refuses slices of different lengths, then loops over the
     four slices drawing one 128-bit randomizer per iteration from the verifier's RNG. *)
  Record bacc := mkBacc { b_total_c : F; b_total_w : F; b_gm : F; b_ggm : F; b_rand : F; b_draws : nat }.

  Fixpoint batch_loop (cs zs vs : list F) (pfs : list Proof) (tape : list F) (a : bacc) : res bacc :=
    match cs, zs, vs, pfs with
    | c :: cs', z :: zs', v :: vs', pf :: pfs' =>
      match tape with
      | [] => Err EOther
      | nxt :: tape' =>
        let w := pf_w pf in
        let cc := w * z + c in
        let rz := b_rand a in
        let gm := b_gm a + rz * v in
        let ggm := match pf_random_v pf with Some rv => b_ggm a + rz * rv | None => b_ggm a end in
        batch_loop cs' zs' vs' pfs' tape'
          {| b_total_c := b_total_c a + cc * rz; b_total_w := b_total_w a + w * rz;
             b_gm := gm; b_ggm := ggm; b_rand := nxt; b_draws := S (b_draws a) |}
      end
    | _, _, _, _ => Ok a
    end.

  Definition batch_residual (vk : VKey) (a : bacc) : F :=
    let total_c := b_total_c a - vk_g vk * b_gm a - vk_gamma_g vk * b_ggm a in
    (- b_total_w a) * vk_beta_h vk + total_c * vk_h vk.

  Definition batch_check (vk : VKey) (cs zs vs : list F) (pfs : list Proof) (tape : list F)
    : res (bool * nat) :=
    if negb (Nat.eqb (length zs) (length cs) && Nat.eqb (length vs) (length cs)
             && Nat.eqb (length pfs) (length cs))
    then Err EIncorrectInputLength else
    do a <- batch_loop cs zs vs pfs tape
              {| b_total_c := 0; b_total_w := 0; b_gm := 0; b_ggm := 0; b_rand := 1; b_draws := O |};
    Ok (feqb (batch_residual vk a) 0, b_draws a).
End KZG10.
