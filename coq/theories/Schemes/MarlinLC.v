(* Model of marlin/mod.rs Marlin::{combine_commitments, open_combinations, check_combinations}
   (used by MarlinKZG10 and MarlinPST13) and of the trait-default
   lc_query_set_to_poly_query_set / check_combinations of lib.rs. *)
From Coq Require Import List Arith NArith Bool.
From PC Require Import Base.Field Base.Result Base.Poly Base.OrdMap Schemes.KZG10 Schemes.LC Schemes.Marlin.
Import ListNotations.
Local Open Scope nat_scope.

Section MarlinLC.
  Context {FO : FieldOps}.

  Definition lcomb := (N * lc)%type.      (* (label, terms) *)

  (* Randomness += (f, other) *)
  Definition mrand_add_scaled (a : MRand) (f : F) (o : MRand) : MRand :=
    {| mr_rand := padd_scaled (mr_rand a) f (mr_rand o);
       mr_shifted := match mr_shifted a with
                     | Some r1 => Some (padd_scaled r1 f (match mr_shifted o with Some r => r | None => [] end))
                     | None => option_map (fun r => padd_scaled [] f r) (mr_shifted o)
                     end |}.

  (* Marlin::combine_commitments *)
  Fixpoint combine_commitments (l : list (F * MComm)) (cc : F) (cs : option F) : F * option F :=
    match l with
    | [] => (cc, cs)
    | (coeff, c) :: t =>
      let cc' := (cc + mc_comm c * coeff)%F in
      let cs' := match mc_shifted c with
                 | Some sc => Some (match cs with Some x => (x + sc * coeff)%F | None => (sc * coeff)%F end)
                 | None => cs
                 end in
      combine_commitments t cc' cs'
    end.

  Definition opt_max (a b : option nat) : option nat :=
    match a, b with None, x => x | x, None => x | Some x, Some y => Some (Nat.max x y) end.

  (* the degree-bound policy shared by prover and verifier: a degree-bounded polynomial may
     only appear alone (the combination has exactly one term) with coefficient one *)
  Definition bound_policy (num : nat) (coeff : F) (pb : option nat) (cur : option nat) : res (option nat) :=
    match pb with
    | Some d => if Nat.eqb num 1 then (if feqb coeff f1 then Ok (Some d) else Panic)
                else Err EEquationHasDegreeBounds
    | None => Ok cur
    end.

  Record plc_acc := mkPA { pa_poly : poly; pa_bound : option nat; pa_hiding : option nat;
                           pa_rand : MRand; pa_cc : list (F * MComm) }.

  Fixpoint lc_prover_loop (lm : list (N * (LPoly * MRand * LComm))) (num : nat) (terms : lc) (a : plc_acc)
    : res plc_acc :=
    match terms with
    | [] => Ok a
    | (_, TOne) :: t => lc_prover_loop lm num t a
    | (coeff, TPoly l) :: t =>
      match lookup N.compare l lm with
      | None => Err EMissingPolynomial
      | Some (lp, st, c) =>
        do b <- bound_policy num coeff (lp_bound lp) (pa_bound a);
        lc_prover_loop lm num t
          {| pa_poly := padd_scaled (pa_poly a) coeff (lp_poly lp); pa_bound := b;
             pa_hiding := opt_max (pa_hiding a) (lp_hiding lp);
             pa_rand := mrand_add_scaled (pa_rand a) coeff st;
             pa_cc := pa_cc a ++ [(coeff, lc_comm c)] |}
      end
    end.

  Definition lc_prover_one (lm : list (N * (LPoly * MRand * LComm))) (l : lcomb) : res (LPoly * MRand * LComm) :=
    do a <- lc_prover_loop lm (length (snd l)) (snd l)
              {| pa_poly := []; pa_bound := None; pa_hiding := None;
                 pa_rand := {| mr_rand := []; mr_shifted := None |}; pa_cc := [] |};
    let '(cc, cs) := combine_commitments (pa_cc a) f0 None in
    Ok ({| lp_label := fst l; lp_poly := pa_poly a; lp_bound := pa_bound a; lp_hiding := pa_hiding a |},
        pa_rand a,
        {| lc_label := fst l; lc_comm := {| mc_comm := cc; mc_shifted := cs |}; lc_bound := pa_bound a |}).

  Definition label_map (items : list (LPoly * MRand * LComm)) : list (N * (LPoly * MRand * LComm)) :=
    of_list N.compare (map (fun it => (lp_label (fst (fst it)), it)) items).

  (* Marlin::open_combinations: the combined polynomials are batch-opened *)
  Definition mopen_combinations (ck : CKey) (lcs : list lcomb) (items : list (LPoly * MRand * LComm))
             (qs : list query) (chal : list F) : res (list Proof * list F) :=
    do trip <- mapM (lc_prover_one (label_map items)) lcs;
    mbatch_open ck (map (fun x => (fst (fst x), snd (fst x))) trip) qs chal.

  (* verifier side *)
  Fixpoint lc_verifier_loop (cm : list (N * LComm)) (lc_label : N) (num : nat) (terms : lc)
           (ev : evals) (bound : option nat) (ccs : list (F * MComm)) : res (evals * option nat * list (F * MComm)) :=
    match terms with
    | [] => Ok (ev, bound, ccs)
    | (coeff, TOne) :: t =>
      lc_verifier_loop cm lc_label num t
        (map (fun kv => if N.eqb (fst (fst kv)) lc_label then (fst kv, (snd kv - coeff)%F) else kv) ev) bound ccs
    | (coeff, TPoly l) :: t =>
      match lookup N.compare l cm with
      | None => Err EMissingPolynomial
      | Some c =>
        do b <- bound_policy num coeff (lc_bound c) bound;
        lc_verifier_loop cm lc_label num t ev b (ccs ++ [(coeff, lc_comm c)])
      end
    end.

  Fixpoint lc_verifier_all (cm : list (N * LComm)) (lcs : list lcomb) (ev : evals) : res (list LComm * evals) :=
    match lcs with
    | [] => Ok ([], ev)
    | l :: t =>
      do r <- lc_verifier_loop cm (fst l) (length (snd l)) (snd l) ev None [];
      let '(ev1, b, ccs) := r in
      let '(cc, cs) := combine_commitments ccs f0 None in
      do rest <- lc_verifier_all cm t ev1;
      Ok ({| lc_label := fst l; lc_comm := {| mc_comm := cc; mc_shifted := cs |}; lc_bound := b |} :: fst rest, snd rest)
    end.

  Definition mcheck_combinations (vk : MVKey) (lcs : list lcomb) (cs : list LComm) (qs : list query)
             (ev : evals) (pfs : list Proof) (chal vtape : list F) : res (bool * list F * nat) :=
    do r <- lc_verifier_all (comm_map cs) lcs (evals_map ev);
    mbatch_check_m vk (fst r) qs (snd r) pfs chal vtape.      (* the adjusted BTreeMap is handed over as it is *)

  (* ---------------- trait defaults (lib.rs) ---------------- *)
  Definition lcs_map (lcs : list lcomb) : list (N * lc) := of_list N.compare lcs.

  Fixpoint poly_labels (terms : lc) : list N :=
    match terms with [] => [] | (_, TOne) :: t => poly_labels t | (_, TPoly l) :: t => l :: poly_labels t end.

  (* lc_query_set_to_poly_query_set *)
  Definition lc_query_set_to_poly_query_set (lcs : list lcomb) (qs : list query) : list query :=
    let lm := lcs_map lcs in
    fold_left (fun acc q =>
                 match lookup N.compare (fst q) lm with
                 | None => acc
                 | Some terms => fold_left (fun a l => set_insert query_cmp (l, snd q) a) (poly_labels terms) acc
                 end) (set_of_list query_cmp qs) [].

  (* keys (polynomial label, point) in map order; the prover transmits one evaluation per key *)
  Definition poly_point_keys (pqs : list query) : list (N * F) :=
    set_of_list qkey_cmp (map (fun q => (fst q, snd (snd q))) pqs).

  Definition lc_rhs (pev : evals) (point : F) (terms : lc) : res F :=
    fold_left (fun acc ct =>
                 do a <- acc;
                 match snd ct with
                 | TOne => Ok (a + fst ct * f1)%F
                 | TPoly l => match lookup qkey_cmp (l, point) pev with
                              | None => Err EMissingEvaluation
                              | Some e => Ok (a + fst ct * e)%F
                              end
                 end) terms (Ok f0).

  (* the evaluation part of the default check_combinations: None = all claimed values match,
     Some r = early return r *)
  Fixpoint default_lc_values (lm : list (N * lc)) (pev eqn_ev : evals) (qs : list query) : option (res bool) :=
    match qs with
    | [] => None
    | (lc_label, (_, point)) :: t =>
      match lookup N.compare lc_label lm with
      | None => default_lc_values lm pev eqn_ev t
      | Some terms =>
        match lookup qkey_cmp (lc_label, point) eqn_ev with
        | None => Some (Err EMissingEvaluation)
        | Some claimed =>
          match lc_rhs pev point terms with
          | Ok actual => if feqb claimed actual then default_lc_values lm pev eqn_ev t else Some (Ok false)
          | Err e => Some (Err e)
          | Panic => Some Panic
          end
        end
      end
    end.

  (* default check_combinations with the scheme's batch_check as a parameter *)
  Definition default_check_combinations
             (batch_check : list query -> evals -> res bool)
             (lcs : list lcomb) (eqn_qs : list query) (eqn_ev : evals) (transmitted : option (list F)) : res bool :=
    let lm := lcs_map lcs in
    let pqs := lc_query_set_to_poly_query_set lcs eqn_qs in
    match transmitted with
    | None => Panic                                  (* evals.clone().unwrap() *)
    | Some tv =>
      let pev := of_list qkey_cmp (combine (poly_point_keys pqs) tv) in
      match default_lc_values lm pev (evals_map eqn_ev) (set_of_list query_cmp eqn_qs) with
      | Some r => r
      | None => do b <- batch_check pqs pev; Ok b
      end
    end.
End MarlinLC.
