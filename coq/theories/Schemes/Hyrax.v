(* Model of poly-commit/src/hyrax: commit (one Pedersen commitment per matrix row), open (dot-product argument with
   the row combination), check.  Group elements are formal combinations over the key (com_key[0..dim-1], h): a
   coefficient vector and an h-coefficient (generic-group view: the hash-derived generators are independent). *)
From Coq Require Import List Arith NArith Bool.
From PC Require Import Base.Field Base.Result Base.Poly.
Import ListNotations.
Local Open Scope nat_scope.

Section Hyrax.
  Context {FO : FieldOps}.
  Local Open Scope F_scope.

  Definition gel := (list F * F)%type.
  Fixpoint vadd (a b : list F) : list F :=       (* vector_sum: zip *)
    match a, b with x :: a', y :: b' => (x + y) :: vadd a' b' | _, _ => [] end.
  Definition vscale (c : F) (a : list F) : list F := map (fun x => x * c) a.   (* scalar_by_vector *)
  Fixpoint vdot (a b : list F) : F :=            (* inner_product: zip *)
    match a, b with x :: a', y :: b' => x * y + vdot a' b' | _, _ => 0 end.
  (* group operations on formal combinations of equal dimension *)
  Fixpoint vadd_pad (a b : list F) : list F :=
    match a, b with
    | x :: a', y :: b' => (x + y) :: vadd_pad a' b'
    | [], b' => b'
    | a', [] => a'
    end.
  Definition gadd (p q : gel) : gel := (vadd_pad (fst p) (fst q), snd p + snd q).
  Definition gscale (c : F) (p : gel) : gel := (map (fun x => x * c) (fst p), snd p * c).
  Fixpoint veqb (a b : list F) : bool :=
    match a, b with
    | [], [] => true
    | x :: a', y :: b' => feqb x y && veqb a' b'
    | _, _ => false
    end.
  Definition geqb (p q : gel) : bool := veqb (fst p) (fst q) && feqb (snd p) (snd q).

  (* pedersen_commit(key, scalars) + h * r, key of length dim: aborts on another number of scalars *)
  Definition ped (dim : nat) (scalars : list F) (r : F) : res gel :=
    if (length scalars =? dim)%nat then Ok (scalars, r) else Panic.
  (* com_key[0] * x + h * r *)
  Definition g0 (dim : nat) (x r : F) : gel := (x :: repeat 0 (dim - 1), r).

  (* hyrax/utils.rs *)
  Fixpoint tensor_prime (values : list F) : list F :=
    match values with
    | [] => [1]
    | v :: t => let tail := tensor_prime t in map (fun x => x * (1 - v)) tail ++ map (fun x => x * v) tail
    end.
  (* flat_to_matrix_column_major(flat, n, m): row i = [flat[col * n + i]] *)
  Definition to_matrix (flat : list F) (n m : nat) : list (list F) :=
    map (fun row => map (fun col => nth (col * n + row) flat 0) (seq 0 m)) (seq 0 n).
  (* Matrix::row_mul: v * M *)
  Definition row_mul (mat : list (list F)) (m : nat) (v : list F) : list F :=
    map (fun col => vdot v (map (fun row => nth col row 0) mat)) (seq 0 m).

  Record HState := mkHS { hs_rand : list F; hs_mat : list (list F) }.

  (* commit one polynomial: dim draws (one blinder per row) *)
  Definition h_commit1 (keylen : nat) (nv : nat) (evals : list F) (tape : list F) : res (list gel * HState * nat) :=
    let dim := 2 ^ (nv / 2) in
    if Nat.odd nv then Err EInvalidNumberOfVariables
    else if (keylen <? nv)%nat then Err EInvalidNumberOfVariables
    else if negb (length evals =? dim * dim)%nat then Panic
    else if (length tape <? dim)%nat then Err EOther
    else
      let m := to_matrix evals dim dim in
      let rs := firstn dim tape in
      do rows <- mapM (fun rr => ped keylen (fst rr) (snd rr)) (combine m rs);
      Ok (rows, {| hs_rand := rs; hs_mat := m |}, dim).

  Record HProof := mkHP { hp_com_eval : gel; hp_com_d : gel; hp_com_b : gel; hp_z : list F; hp_zd : F; hp_zb : F; hp_reval : F }.

  (* the two halves of the point: reversed, lower = second half, upper = first half *)
  Definition h_lr (point : list F) : list F * list F :=
    let n := length point in
    let pr := rev point in
    (tensor_prime (skipn (n / 2) pr), tensor_prime (firstn (n / 2) pr)).

  (* one polynomial of open: RNG tape (r_eval, d[dim], r_d, r_b), challenge c *)
  Definition h_open1 (keylen : nat) (point : list F) (st : HState) (tape : list F) (c : F) : res (HProof * nat) :=
    let n := length point in
    let dim := 2 ^ (n / 2) in
    let '(l, r) := h_lr point in
    if (length tape <? dim + 3)%nat then Err EOther else
    if negb (length l =? length (hs_mat st))%nat then Panic else      (* row_mul's assertion *)
    let lt := row_mul (hs_mat st) dim l in
    let r_lt := vdot l (hs_rand st) in
    let ev := vdot lt r in
    let r_eval := nth 0 tape 0 in
    let d := firstn dim (skipn 1 tape) in
    let r_d := nth (dim + 1) tape 0 in
    let r_b := nth (dim + 2) tape 0 in
    let b := vdot r d in
    do com_d <- ped keylen d r_d;
    Ok ({| hp_com_eval := g0 keylen ev r_eval; hp_com_d := com_d; hp_com_b := g0 keylen b r_b;
           hp_z := vadd d (vscale c lt); hp_zd := c * r_lt + r_d; hp_zb := c * r_eval + r_b; hp_reval := r_eval |},
        (dim + 3)%nat).

  (* msm of the row commitments with l: zip *)
  Fixpoint gmsm (rows : list gel) (l : list F) : gel :=
    match rows, l with
    | p :: rows', x :: l' => gadd (gscale x p) (gmsm rows' l')
    | _, _ => ([], 0)
    end.

  (* one (commitment, value, proof) triple of check *)
  Definition h_check1 (keylen : nat) (point : list F) (rows : list gel) (v : F) (pf : HProof) (c : F) : res bool :=
    let n := length point in
    let dim := 2 ^ (n / 2) in
    let '(l, r) := h_lr point in
    if negb (length rows =? dim)%nat then Err EInvalidCommitment else
    if negb (geqb (hp_com_eval pf) (g0 keylen v (hp_reval pf))) then Ok false else
    if negb (geqb (g0 keylen (vdot r (hp_z pf)) (hp_zb pf)) (gadd (gscale c (hp_com_eval pf)) (hp_com_b pf))) then Ok false else
    do cz <- ped keylen (hp_z pf) (hp_zd pf);
    Ok (geqb cz (gadd (gscale c (gmsm rows l)) (hp_com_d pf))).
  (* ---------------- open / check over a list of polynomials at one point ---------------- *)
  (* open: the point must have an even number of coordinates; one challenge and dim + 3 RNG draws per polynomial *)
  Fixpoint h_open_loop (keylen : nat) (point : list F) (sts : list HState) (otape chal : list F)
    : res (list HProof * list F * list F) :=
    match sts with
    | [] => Ok ([], otape, chal)
    | st :: sts' =>
      match chal with
      | [] => Err EOther
      | c :: chal' =>
        do r <- h_open1 keylen point st otape c;
        let '(pf, k) := r in
        do rest <- h_open_loop keylen point sts' (skipn k otape) chal';
        let '(pfs, ot, ch) := rest in
        Ok (pf :: pfs, ot, ch)
      end
    end.
  Definition h_open_list (keylen : nat) (point : list F) (sts : list HState) (otape chal : list F)
    : res (list HProof * list F * list F) :=
    if Nat.odd (length point) then Err EInvalidNumberOfVariables else h_open_loop keylen point sts otape chal.

  (* check: shape refusals, then one challenge per triple; the first failing equation ends the loop *)
  Fixpoint h_check_loop (keylen : nat) (point : list F) (rowsl : list (list gel)) (vs : list F) (pfs : list HProof) (chal : list F)
    : res (bool * list F) :=
    match rowsl, vs, pfs with
    | rows :: rl, v :: vl, pf :: pl =>
      match chal with
      | [] => Err EOther
      | c :: chal' =>
        do b <- h_check1 keylen point rows v pf c;
        if b then h_check_loop keylen point rl vl pl chal' else Ok (false, chal')
      end
    | _, _, _ => Ok (true, chal)
    end.
  Definition h_check_list (keylen : nat) (point : list F) (rowsl : list (list gel)) (vs : list F) (pfs : list HProof) (chal : list F)
    : res (bool * list F) :=
    if Nat.odd (length point) then Err EInvalidNumberOfVariables
    else if negb (length rowsl =? length pfs)%nat || negb (length vs =? length pfs)%nat then Err EIncorrectInputLength
    else h_check_loop keylen point rowsl vs pfs chal.
End Hyrax.
