(* Model of marlin_pst13_pc: the Combinations iterator (combinations.rs), the monomial set
   published by setup and kept by trim, and the multivariate division divide_at_point. *)
From Coq Require Import List Arith NArith Bool.
From PC Require Import Base.Field Base.Result Base.Poly.
Import ListNotations.
Local Open Scope nat_scope.

(* ---------------- combinations.rs ---------------- *)
Record cstate := mkCS { c_orig : list nat; c_pos : list nat; c_len : nat; c_started : bool }.

Fixpoint ins_sorted (x : nat) (l : list nat) : list nat :=
  match l with [] => [x] | y :: t => if x <=? y then x :: l else y :: ins_sorted x t end.
Definition sort_nat (l : list nat) : list nat := fold_right ins_sorted [] l.

(* Combinations::new: panics unless 1 <= len < original.len() *)
Definition comb_new (orig : list nat) (len : nat) : res cstate :=
  if (len <? length orig) && (1 <=? len)
  then Ok {| c_orig := sort_nat orig; c_pos := seq 0 len; c_len := len; c_started := false |}
  else Panic.

Definition comb_output (st : cstate) : list nat := map (fun n => nth n (c_orig st) 0) (c_pos st).

Fixpoint set_nth {A} (i : nat) (x : A) (l : list A) : list A :=
  match l, i with
  | [], _ => []
  | _ :: t, O => x :: t
  | y :: t, S k => y :: set_nth k x t
  end.

(* first j in [from, from+count) with pred j *)
Fixpoint find_from (pred : nat -> bool) (from count : nat) : option nat :=
  match count with
  | O => None
  | S c => if pred from then Some from else find_from pred (S from) c
  end.

(* the "locate the number closest behind that needs to be bumped" loop: i = 2..=len *)
Fixpoint bump_search (orig pos : list nat) (len org_len : nat) (i count : nat) : option (list nat) :=
  match count with
  | O => None
  | S c =>
    let lastpos := nth (len - i) pos 0 in
    let val := nth lastpos orig 0 in
    let try_here :=
        if val <? nth (org_len - i) orig 0 then
          match find_from (fun j => val <? nth j orig 0) (S lastpos) (org_len - S lastpos) with
          | Some j => Some (fold_left (fun p k => set_nth (len - i + k) (j + k) p) (seq 0 i) pos)
          | None => None
          end
        else None in
    match try_here with
    | Some p => Some p
    | None => bump_search orig pos len org_len (S i) c
    end
  end.

(* next_combination: None = iterator exhausted *)
Definition comb_next (st : cstate) : option (cstate * list nat) :=
  if negb (c_started st) then
    let st' := {| c_orig := c_orig st; c_pos := c_pos st; c_len := c_len st; c_started := true |} in
    Some (st', comb_output st')
  else
    let orig := c_orig st in
    let len := c_len st in
    let org_len := length orig in
    let lastidx := nth (len - 1) (c_pos st) 0 in
    if nth lastidx orig 0 =? nth (org_len - 1) orig 0 then
      match bump_search orig (c_pos st) len org_len 2 (len - 1) with
      | Some p => let st' := {| c_orig := orig; c_pos := p; c_len := len; c_started := true |} in Some (st', comb_output st')
      | None => None
      end
    else
      match find_from (fun j => negb (nth j orig 0 =? nth lastidx orig 0)) (S lastidx) (org_len - S lastidx) with
      | Some j => let st' := {| c_orig := orig; c_pos := set_nth (len - 1) j (c_pos st); c_len := len; c_started := true |} in
                  Some (st', comb_output st')
      | None => None   (* unreachable: the last element differs *)
      end.

Fixpoint comb_all (fuel : nat) (st : cstate) : list (list nat) :=
  match fuel with
  | O => []
  | S f => match comb_next st with
           | None => []
           | Some (st', out) => out :: comb_all f st'
           end
  end.

(* ---------------- setup: the monomial set ---------------- *)
(* exponent vector of a multiset of variable indices *)
Definition exps_of (nv : nat) (ms : list nat) : list nat :=
  map (fun v => length (filter (Nat.eqb v) ms)) (seq 0 nv).

Definition variable_set (nv D : nat) : list nat := flat_map (fun v => repeat v D) (seq 0 nv).

(* the multisets of size `degree` the setup enumerates *)
Definition setup_terms_of_degree (fuel nv D degree : nat) : res (list (list nat)) :=
  let vs := variable_set nv D in
  if length vs =? degree then Ok [vs]
  else match comb_new vs degree with
       | Ok st => Ok (comb_all fuel st)
       | Err e => Err e
       | Panic => Panic
       end.

(* all published keys (exponent vectors), constant term last, before the BTreeMap collapses duplicates *)
Definition setup_keys (fuel nv D : nat) : res (list (list nat)) :=
  do l <- mapM (fun d => setup_terms_of_degree fuel nv D d) (seq 1 D);
  Ok (map (exps_of nv) (concat l) ++ [repeat 0 nv]).

(* specification: every exponent vector of total degree <= D in nv variables *)
Fixpoint vectors_with_sum_le (nv D : nat) : list (list nat) :=
  match nv with
  | O => [[]]
  | S k => flat_map (fun e => map (cons e) (vectors_with_sum_le k (D - e))) (seq 0 (S D))
  end.

Fixpoint binomial (n k : nat) : nat :=
  match n, k with
  | _, O => 1
  | O, S _ => 0
  | S n', S k' => binomial n' k' + binomial n' (S k')
  end.

Definition vec_eqb (a b : list nat) : bool := (length a =? length b) && forallb (fun p => fst p =? snd p) (combine a b).
Definition mem_vec (v : list nat) (l : list (list nat)) : bool := existsb (vec_eqb v) l.
Fixpoint nodup_vec (l : list (list nat)) : bool :=
  match l with [] => true | v :: t => negb (mem_vec v t) && nodup_vec t end.
Definition same_set (a b : list (list nat)) : bool :=
  forallb (fun v => mem_vec v b) a && forallb (fun v => mem_vec v a) b.

(* trim keeps exactly the monomials of degree <= supported *)
Definition trim_keys (supported : nat) (keys : list (list nat)) : list (list nat) :=
  filter (fun v => fold_right Nat.add 0 v <=? supported) keys.

(* setup publishes exactly one element per monomial of total degree <= D *)
Definition setup_keys_ok (fuel nv D : nat) : bool :=
  match setup_keys fuel nv D with
  | Ok keys => same_set keys (vectors_with_sum_le nv D) && nodup_vec keys
               && (length keys =? binomial (nv + D) D)
  | _ => false
  end.

(* ---------------- divide_at_point ---------------- *)
Section Divide.
  Context {FO : FieldOps}.
  Definition term := list (nat * nat).            (* (variable, power) sorted by variable, powers > 0 *)
  Definition mpoly := list (F * term).

  Definition var_pow (x : list F) (vp : nat * nat) : F := fpow (nth (fst vp) x f0) (snd vp).
  Definition eval_term (x : list F) (t : term) : F := fold_right (fun vp acc => fmul (var_pow x vp) acc) f1 t.
  Definition eval_mpoly (x : list F) (p : mpoly) : F := fold_right (fun ct acc => fadd (fmul (fst ct) (eval_term x (snd ct))) acc) f0 p.

  Fixpoint lookup_var (i : nat) (t : term) : option nat :=
    match t with [] => None | (v, p) :: r => if v =? i then Some p else lookup_var i r end.
  Fixpoint remove_var (i : nat) (t : term) : term :=
    match t with [] => [] | (v, p) :: r => if v =? i then r else (v, p) :: remove_var i r end.
  Fixpoint set_pow (i k : nat) (t : term) : term :=
    match t with [] => [] | (v, p) :: r => if v =? i then (v, k) :: r else (v, p) :: set_pow i k r end.

  (* quotient terms of coeff * m * X_i^k by (X_i - z): powers k-1 down to 0, coefficient multiplied by z each step *)
  Fixpoint quot_terms (coeff z : F) (i k : nat) (t : term) : list (F * term) * F :=
    match k with
    | O => ([], coeff)
    | S O => ([(coeff, remove_var i t)], coeff)
    | S k' => let '(rest, last) := quot_terms (fmul coeff z) z i k' t in
              ((coeff, set_pow i k' t) :: rest, last)
    end.

  (* one pass of the outer loop for variable i: (quotient terms, remainder terms) *)
  Fixpoint div_pass (i : nat) (z : F) (cur : mpoly) : mpoly * mpoly :=
    match cur with
    | [] => ([], [])
    | (coeff, t) :: rest =>
      let '(q, r) := div_pass i z rest in
      match t with
      | [] => (q, r)                                   (* constant terms are dropped *)
      | _ => match lookup_var i t with
             | Some k => let '(qt, last) := quot_terms coeff z i k t in
                         (qt ++ q, (fmul z last, remove_var i t) :: r)
             | None => (q, (coeff, t) :: r)
             end
      end
    end.

  Fixpoint divide_loop (vars : list nat) (z : list F) (cur : mpoly) : list mpoly :=
    match vars with
    | [] => []
    | i :: rest => let '(q, r) := div_pass i (nth i z f0) cur in q :: divide_loop rest z r
    end.
  Definition divide_at_point (nv : nat) (p : mpoly) (z : list F) : list mpoly := divide_loop (seq 0 nv) z p.

  (* ---- setup: the value published for a multiset of variable indices (product of the trapdoors),
          discrete-log view: the group element is g * value ---- *)
  Definition ms_value (betas : list F) (ms : list nat) : F := fold_right (fun e acc => fmul (nth e betas f0) acc) f1 ms.
  (* the monomial of an exponent vector, variables numbered from k *)
  Fixpoint eval_exps_from (x : list F) (k : nat) (v : list nat) : F :=
    match v with [] => f1 | e :: t => fmul (fpow (nth k x f0) e) (eval_exps_from x (S k) t) end.
  Definition eval_exps (x : list F) (v : list nat) : F := eval_exps_from x 0 v.

  (* published pairs (exponent of the group element relative to g, exponent vector) *)
  Definition setup_pairs (fuel nv D : nat) (betas : list F) : res (list (F * list nat)) :=
    do l <- mapM (fun d => setup_terms_of_degree fuel nv D d) (seq 1 D);
    Ok (map (fun ms => (ms_value betas ms, exps_of nv ms)) (concat l) ++ [(f1, repeat 0 nv)]).

  (* powers_of_gamma_g[i][j] = gamma_g * beta_i^(j+1), j = 0..D (relative to gamma_g) *)
  Definition setup_gamma_powers (D : nat) (betas : list F) : list (list F) :=
    map (fun b => map (fun j => fpow b (S j)) (seq 0 (S D))) betas.
  (* trim keeps the first supported+1 of each *)
  Definition trim_gamma_powers (s : nat) (gp : list (list F)) : list (list F) := map (firstn (S s)) gp.

  (* commit/open/check in the discrete-log view (non-hiding): C = g*p(beta), w_i = g*q_i(beta),
     check: (C - g*v) * h = sum_i w_i * (beta_i*h - z_i*h) *)
  Definition pst_commit (g : F) (betas : list F) (p : mpoly) : F := fmul g (eval_mpoly betas p).
  Definition pst_open (g : F) (betas : list F) (nv : nat) (p : mpoly) (z : list F) : list F :=
    map (fun q => fmul g (eval_mpoly betas q)) (divide_at_point nv p z).
  Fixpoint pst_rhs (h : F) (betas z : list F) (k : nat) (ws : list F) : F :=
    match ws with
    | [] => f0
    | w :: t => fadd (fmul w (fsub (fmul (nth k betas f0) h) (fmul (nth k z f0) h))) (pst_rhs h betas z (S k) t)
    end.
  Definition pst_check (g h : F) (betas z : list F) (c v : F) (ws : list F) : bool :=
    feqb (fmul (fsub c (fmul g v)) h) (pst_rhs h betas z 0 ws).
End Divide.
