(* Model of poly-commit/src/linear_codes (LinearCodePCS with the univariate Ligero code): the coefficient matrix, row
   encoding (Reed-Solomon over the FFT domain <omega> of size n_ext), the opening (b^T M, optional well-formedness
   vector r^T M, the queried columns) and the verifier (length checks, path checks, the per-column inner-product
   checks, the value check), one polynomial at a time.
   Modelled, not verified: the column hash and the Merkle tree are an IDEAL vector commitment - a path verifies a
   received column exactly when the path is intact and the column is the committed column at the path's leaf index
   (collision resistance idealised).  The FFT domain (n_ext, omega), the squeezed vector r and the queried indices
   are inputs (read from the library's transcript). *)
From Coq Require Import List Arith NArith Bool.
From PC Require Import Base.Field Base.Result Base.Poly Schemes.CalcT.
Import ListNotations.
Local Open Scope nat_scope.

Section Ligero.
  Context {FO : FieldOps}.
  Local Open Scope F_scope.

  (* utils::inner_product: zip *)
  Fixpoint ip (a b : list F) : F :=
    match a, b with x :: a', y :: b' => x * y + ip a' b' | _, _ => 0 end.

  (* Matrix::new_from_flat: row-major *)
  Fixpoint rows_of (n_rows n_cols : nat) (l : list F) : list (list F) :=
    match n_rows with
    | O => []
    | S k => firstn n_cols l :: rows_of k n_cols (skipn n_cols l)
    end.
  (* compute_matrices: the zero polynomial is the constant 0; resize to n_rows * n_cols *)
  Definition lig_matrix (n_rows n_cols : nat) (coeffs : list F) : list (list F) :=
    let c := match coeffs with [] => [0] | _ => coeffs end in
    rows_of n_rows n_cols (firstn (n_rows * n_cols) (c ++ repeat 0 (n_rows * n_cols - length c))).

  Definition col (j : nat) (rows : list (list F)) : list F := map (fun r => nth j r 0) rows.

  (* Matrix::row_mul: asserts |v| = n_rows *)
  Definition row_mul (rows : list (list F)) (n_cols : nat) (v : list F) : res (list F) :=
    if negb (length v =? length rows)%nat then Panic
    else Ok (map (fun j => ip v (col j rows)) (seq 0 n_cols)).

  Definition encode (omega : F) (n_ext : nat) (msg : list F) : list F := rs_encode omega n_ext msg.

  (* UnivariateLigero::tensor(z, n_cols, n_rows) = ((1, z, .., z^(n_cols-1)), (1, z^n_cols, z^(2 n_cols), ..)) *)
  Definition tensor_uni (z : F) (n_cols n_rows : nat) : list F * list F :=
    (powers z n_cols, powers (fpow z n_cols) n_rows).

  (* MultilinearLigero::tensor: tensor_vec of the two parts of the point, split at log2 (ceiling) of the row length *)
  Definition tensor_vec (values : list F) : list F :=
    fold_left (fun layer v => map (fun e => e * (1 - v)) layer ++ map (fun e => e * v) layer) values [1].
  Definition tensor_ml (point : list F) (n_cols : nat) : res (list F * list F) :=
    let split := Nat.log2_up n_cols in
    if (length point <? split)%nat then Panic                       (* &point[..split] *)
    else Ok (tensor_vec (firstn split point), tensor_vec (skipn split point)).

  Record LPath := mkLPth { lpt_index : nat; lpt_intact : bool }.
  Record LProof := mkLPf { lf_paths : list LPath; lf_v : list F; lf_cols : list (list F); lf_wf : option (list F) }.

  (* open for one committed matrix, b = the left-multiplying vector: r = the squeezed well-formedness challenges (used
     only with wf), idx = the queried column indices *)
  Definition l_open_g (wf : bool) (n_cols n_ext : nat) (omega : F) (rows : list (list F)) (b : list F)
             (r : list F) (idx : list nat) : res LProof :=
    let ext := map (encode omega n_ext) rows in
    do wfv <- (if wf then do v <- row_mul rows n_cols r; Ok (Some v) else Ok None);
    do v <- row_mul rows n_cols b;
    if existsb (fun i => n_ext <=? i)%nat idx then Panic else
    Ok {| lf_paths := map (fun i => mkLPth i true) idx; lf_v := v; lf_cols := map (fun i => col i ext) idx; lf_wf := wfv |}.

  Definition l_open (wf : bool) (n_rows n_cols n_ext : nat) (omega : F) (rows : list (list F)) (z : F)
             (r : list F) (idx : list nat) : res LProof :=
    l_open_g wf n_cols n_ext omega rows (snd (tensor_uni z n_cols n_rows)) r idx.

  Definition l_open_ml (wf : bool) (n_cols n_ext : nat) (omega : F) (rows : list (list F)) (point : list F)
             (r : list F) (idx : list nat) : res LProof :=
    do ab <- tensor_ml point n_cols;
    l_open_g wf n_cols n_ext omega rows (snd ab) r idx.

  Fixpoint list_feqb (a b : list F) : bool :=
    match a, b with
    | [], [] => true
    | x :: a', y :: b' => feqb x y && list_feqb a' b'
    | _, _ => false
    end.

  (* ideal vector commitment: the committed extended matrix stands for the Merkle root *)
  Definition path_verifies (cext : list (list F)) (p : LPath) (c : list F) : bool :=
    lpt_intact p && list_feqb c (col (lpt_index p) cext).

  (* step 4 of check: zip(columns, indices), path j *)
  Fixpoint path_loop (cext : list (list F)) (cols : list (list F)) (idx : list nat) (paths : list LPath) : res unit :=
    match cols, idx with
    | c :: cols', q :: idx' =>
      match paths with
      | [] => Panic                                       (* proof.opening.paths[j] *)
      | p :: paths' =>
        if negb (lpt_index p =? q)%nat then Err EInvalidCommitment
        else if negb (path_verifies cext p c) then Err EInvalidCommitment
        else path_loop cext cols' idx' paths'
      end
    | _, _ => Ok tt
    end.

  (* step 7: for every queried index, columns[transcript_index] against w[matrix_index] *)
  Fixpoint ip_loop (vecs : list (list F * list F)) (cols : list (list F)) (idx : list nat) : res unit :=
    match idx with
    | [] => Ok tt
    | q :: idx' =>
      match cols with
      | [] => Panic                                       (* proof.opening.columns[transcript_index] *)
      | c :: cols' =>
        if forallb (fun lw => feqb (ip (fst lw) c) (nth q (snd lw) 0)) vecs
        then ip_loop vecs cols' idx'
        else Err EInvalidCommitment
      end
    end.

  Definition l_check_g (wf : bool) (n_cols n_ext : nat) (omega : F) (cext : list (list F)) (a b : list F) (value : F)
             (pf : LProof) (r : list F) (idx : list nat) : res bool :=
    if negb (length (lf_v pf) =? n_cols)%nat then Err EInvalidCommitment else
    do out <- (if wf then
                 match lf_wf pf with
                 | None => Err EInvalidCommitment
                 | Some w => if negb (length w =? n_cols)%nat then Err EInvalidCommitment else Ok (Some w)
                 end
               else Ok None);
    do _ <- path_loop cext (lf_cols pf) idx (lf_paths pf);
    let w := encode omega n_ext (lf_v pf) in
    let vecs := match out with
                | Some wfv => [(r, encode omega n_ext wfv); (b, w)]
                | None => [(b, w)]
                end in
    do _ <- ip_loop vecs (lf_cols pf) idx;
    Ok (feqb (ip (lf_v pf) a) value).

  Definition l_check (wf : bool) (n_rows n_cols n_ext : nat) (omega : F) (cext : list (list F)) (z value : F)
             (pf : LProof) (r : list F) (idx : list nat) : res bool :=
    l_check_g wf n_cols n_ext omega cext (fst (tensor_uni z n_cols n_rows)) (snd (tensor_uni z n_cols n_rows)) value pf r idx.

  (* the multilinear verifier computes the tensor after the loops over the paths: a point that is too short aborts there *)
  Definition l_check_ml (wf : bool) (n_cols n_ext : nat) (omega : F) (cext : list (list F)) (point : list F) (value : F)
             (pf : LProof) (r : list F) (idx : list nat) : res bool :=
    if negb (length (lf_v pf) =? n_cols)%nat then Err EInvalidCommitment else
    do out <- (if wf then
                 match lf_wf pf with
                 | None => Err EInvalidCommitment
                 | Some w => if negb (length w =? n_cols)%nat then Err EInvalidCommitment else Ok (Some w)
                 end
               else Ok None);
    do _ <- path_loop cext (lf_cols pf) idx (lf_paths pf);
    do ab <- tensor_ml point n_cols;
    l_check_g wf n_cols n_ext omega cext (fst ab) (snd ab) value pf r idx.
  (* ---------------- any linear code given by its generator matrix (Brakedown) ---------------- *)
  (* the encoder as the matrix of the images of the unit messages: G_i = encode(e_i), one row per message position *)
  Definition mat_enc (G : list (list F)) (n_ext : nat) (msg : list F) : list F :=
    map (fun j => ip msg (col j G)) (seq 0 n_ext).

  Definition l_open_e (enc : list F -> list F) (wf : bool) (n_cols n_ext : nat) (rows : list (list F)) (b : list F)
             (r : list F) (idx : list nat) : res LProof :=
    let ext := map enc rows in
    do wfv <- (if wf then do v <- row_mul rows n_cols r; Ok (Some v) else Ok None);
    do v <- row_mul rows n_cols b;
    if existsb (fun i => n_ext <=? i)%nat idx then Panic else
    Ok {| lf_paths := map (fun i => mkLPth i true) idx; lf_v := v; lf_cols := map (fun i => col i ext) idx; lf_wf := wfv |}.

  Definition l_check_e (enc : list F -> list F) (wf : bool) (n_cols : nat) (cext : list (list F)) (a b : list F) (value : F)
             (pf : LProof) (r : list F) (idx : list nat) : res bool :=
    if negb (length (lf_v pf) =? n_cols)%nat then Err EInvalidCommitment else
    do out <- (if wf then
                 match lf_wf pf with
                 | None => Err EInvalidCommitment
                 | Some w => if negb (length w =? n_cols)%nat then Err EInvalidCommitment else Ok (Some w)
                 end
               else Ok None);
    do _ <- path_loop cext (lf_cols pf) idx (lf_paths pf);
    let w := enc (lf_v pf) in
    let vecs := match out with
                | Some wfv => [(r, enc wfv); (b, w)]
                | None => [(b, w)]
                end in
    do _ <- ip_loop vecs (lf_cols pf) idx;
    Ok (feqb (ip (lf_v pf) a) value).

  (* multilinear Brakedown: tensor as multilinear Ligero, encoder = generator matrix *)
  Definition l_open_bd (G : list (list F)) (wf : bool) (n_cols n_ext : nat) (rows : list (list F)) (point : list F)
             (r : list F) (idx : list nat) : res LProof :=
    do ab <- tensor_ml point n_cols;
    l_open_e (mat_enc G n_ext) wf n_cols n_ext rows (snd ab) r idx.
  Definition l_check_bd (G : list (list F)) (wf : bool) (n_cols n_ext : nat) (cext : list (list F)) (point : list F) (value : F)
             (pf : LProof) (r : list F) (idx : list nat) : res bool :=
    if negb (length (lf_v pf) =? n_cols)%nat then Err EInvalidCommitment else
    do out <- (if wf then
                 match lf_wf pf with
                 | None => Err EInvalidCommitment
                 | Some w => if negb (length w =? n_cols)%nat then Err EInvalidCommitment else Ok (Some w)
                 end
               else Ok None);
    do _ <- path_loop cext (lf_cols pf) idx (lf_paths pf);
    do ab <- tensor_ml point n_cols;
    l_check_e (mat_enc G n_ext) wf n_cols cext (fst ab) (snd ab) value pf r idx.
  (* ---------------- several polynomials in one opening: the verifier's outer loop ---------------- *)
  (* one (commitment, value, proof) triple as the verifier meets it: its own encoder and row length, the ideal
     commitment, the tensor vectors of the point for its dimensions (or the abort of their computation), and the part
     of the transcript squeezed while it is processed *)
  Record LItem := mkLI { li_enc : list F -> list F; li_n_cols : nat; li_cext : list (list F);
                         li_ab : res (list F * list F); li_value : F; li_pf : LProof; li_r : list F; li_idx : list nat }.

  Definition l_check_item (wf : bool) (it : LItem) : res bool :=
    let pf := li_pf it in
    if negb (length (lf_v pf) =? li_n_cols it)%nat then Err EInvalidCommitment else
    do out <- (if wf then
                 match lf_wf pf with
                 | None => Err EInvalidCommitment
                 | Some w => if negb (length w =? li_n_cols it)%nat then Err EInvalidCommitment else Ok (Some w)
                 end
               else Ok None);
    do _ <- path_loop (li_cext it) (lf_cols pf) (li_idx it) (lf_paths pf);
    do ab <- li_ab it;
    l_check_e (li_enc it) wf (li_n_cols it) (li_cext it) (fst ab) (snd ab) (li_value it) pf (li_r it) (li_idx it).

  (* the first error, abort or false value ends the loop *)
  Fixpoint l_check_all (wf : bool) (items : list LItem) : res bool :=
    match items with
    | [] => Ok true
    | it :: t => do ok <- l_check_item wf it; if ok then l_check_all wf t else Ok false
    end.
  (* proof_array[i] with fewer proofs than (commitment, value) pairs: the loop aborts when it reaches the missing one *)
  Definition l_check_array (wf : bool) (items : list LItem) (short : bool) : res bool :=
    do ok <- l_check_all wf items; if ok && short then Panic else Ok ok.
End Ligero.
