(* Model of SonicKZG10::{open_combinations, check_combinations} (sonic_pc/mod.rs): every combination is formed
   homomorphically (polynomial, blinding polynomial, commitment), a degree-bounded polynomial may only stand alone with
   coefficient one (its bound is kept), constant terms are moved into the claimed values of that combination, and the
   result goes to Sonic's own batch_open / batch_check; discrete-log view. *)
From Coq Require Import List Arith NArith Bool.
From PC Require Import Base.Field Base.Result Base.Poly Base.OrdMap Schemes.KZG10 Schemes.LC Schemes.Marlin Schemes.MarlinLC
     Schemes.Sonic.
Import ListNotations.
Local Open Scope nat_scope.

Section SonicLC.
  Context {FO : FieldOps}.

  Record slc_acc := mkSA { sa_poly : poly; sa_bound : option nat; sa_hiding : option nat; sa_rand : poly; sa_comm : F }.

  (* the loop over lc.iter().filter(|(_, l)| !l.is_one()); num = lc.len() counts the constant terms too *)
  Fixpoint slc_prover_loop (lm : list (N * (LPoly * Rand * F))) (num : nat) (terms : lc) (a : slc_acc) : res slc_acc :=
    match terms with
    | [] => Ok a
    | (_, TOne) :: t => slc_prover_loop lm num t a
    | (coeff, TPoly l) :: t =>
      match lookup N.compare l lm with
      | None => Err EMissingPolynomial
      | Some (lp, st, c) =>
        do b <- bound_policy num coeff (lp_bound lp) (sa_bound a);
        slc_prover_loop lm num t
          {| sa_poly := padd_scaled (sa_poly a) coeff (lp_poly lp); sa_bound := b;
             sa_hiding := opt_max (sa_hiding a) (lp_hiding lp);
             sa_rand := padd_scaled (sa_rand a) coeff st;
             sa_comm := (sa_comm a + c * coeff)%F |}
      end
    end.

  Definition slc_prover_one (lm : list (N * (LPoly * Rand * F))) (l : lcomb) : res (LPoly * Rand * (F * option nat)) :=
    do a <- slc_prover_loop lm (length (snd l)) (snd l)
              {| sa_poly := []; sa_bound := None; sa_hiding := None; sa_rand := []; sa_comm := f0 |};
    Ok ({| lp_label := fst l; lp_poly := sa_poly a; lp_bound := sa_bound a; lp_hiding := sa_hiding a |},
        sa_rand a, (sa_comm a, sa_bound a)).

  Definition s_label_map (items : list (LPoly * Rand * F)) : list (N * (LPoly * Rand * F)) :=
    of_list N.compare (map (fun it => (lp_label (fst (fst it)), it)) items).

  Definition s_open_combinations (ck : SCKey) (lcs : list lcomb) (items : list (LPoly * Rand * F))
             (qs : list query) (chal : list F) : res (list Proof * list F) :=
    do trip <- mapM (slc_prover_one (s_label_map items)) lcs;
    s_batch_open ck (map (fun x => (fst (fst x), snd (fst x))) trip) qs chal.

  (* verifier side: cm maps a label to (commitment, degree bound) *)
  Fixpoint slc_verifier_loop (cm : list (N * (F * option nat))) (lc_label : N) (num : nat) (terms : lc)
           (ev : evals) (bound : option nat) (cc : F) : res (evals * option nat * F) :=
    match terms with
    | [] => Ok (ev, bound, cc)
    | (coeff, TOne) :: t =>
      slc_verifier_loop cm lc_label num t
        (map (fun kv => if N.eqb (fst (fst kv)) lc_label then (fst kv, (snd kv - coeff)%F) else kv) ev) bound cc
    | (coeff, TPoly l) :: t =>
      match lookup N.compare l cm with
      | None => Err EMissingPolynomial
      | Some c =>
        do b <- bound_policy num coeff (snd c) bound;
        slc_verifier_loop cm lc_label num t ev b (cc + fst c * coeff)%F
      end
    end.

  Fixpoint slc_verifier_all (cm : list (N * (F * option nat))) (lcs : list lcomb) (ev : evals)
    : res (list (N * (F * option nat)) * evals) :=
    match lcs with
    | [] => Ok ([], ev)
    | l :: t =>
      do r <- slc_verifier_loop cm (fst l) (length (snd l)) (snd l) ev None f0;
      let '(ev1, b, cc) := r in
      do rest <- slc_verifier_all cm t ev1;
      Ok ((fst l, (cc, b)) :: fst rest, snd rest)
    end.

  Definition s_check_combinations (vk : SVKey) (lcs : list lcomb) (cs : list (N * (F * option nat))) (qs : list query)
             (ev : evals) (pfs : list Proof) (chal vtape : list F) : res (bool * list F * nat) :=
    do r <- slc_verifier_all (s_comm_map cs) lcs (evals_map ev);
    s_batch_check_m vk (fst r) qs (snd r) pfs chal vtape.       (* the adjusted BTreeMap is handed over as it is *)
End SonicLC.
