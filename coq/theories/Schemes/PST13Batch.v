(* PST13 batch flows at the trait level: batch_open is the trait's default (one open per group of the query set);
   batch_check is the scheme's own: combine_and_normalize (per group: the commitments and values accumulated with sponge
   challenges), then ONE pairing product on the randomizer-weighted sums (randomizer 1, then 128-bit values from the
   verifier's RNG).  Free-module view as in PST13H. *)
From Coq Require Import List Arith NArith Bool.
From PC Require Import Base.Field Base.Result Base.Poly Base.OrdMap Schemes.LC Schemes.PST13 Schemes.IPA Schemes.PST13H Schemes.DefaultBatch.
Import ListNotations.
Local Open Scope nat_scope.

Section PST13Batch.
  Context {FO : FieldOps}.
  Local Open Scope F_scope.

  Definition PItem := (mpoly * option mpoly)%type.
  Definition pb_open (nv s : nat) (betas : list F) (its : list PItem) (pt : point) (chal : list F) : res (PProof * list F) :=
    ph_open nv s betas its pt chal.
  Definition pst_batch_open (nv s : nat) (betas : list F) (items : list (N * PItem)) (qs : list query) (chal : list F)
    : res (list PProof * list F) :=
    default_batch_open PItem PProof (list F) (pb_open nv s betas) items qs chal.

  (* combine_and_normalize: one (combined commitment, point, combined value) per group *)
  Fixpoint pst_combine (cm : list (N * gv)) (ev : list (N * point * F)) (gs : list (N * (point * list N))) (chal : list F)
    : res (list (gv * point * F) * list F) :=
    match gs with
    | [] => Ok ([], chal)
    | (_, (pt, labels)) :: gs' =>
      do cv <- gather_v gv cm ev pt labels;
      do a <- ph_acc (fst cv) (snd cv) chal [] 0;
      let '(cc, v, rest) := a in
      do r <- pst_combine cm ev gs' rest;
      Ok ((cc, pt, v) :: fst r, snd r)
    end.

  (* sum_j z_j * w_j over the proof's own witness list: point[j] aborts when the point is shorter *)
  Fixpoint zw_sum (z : list F) (k : nat) (ws : list gv) : gv :=
    match ws with [] => [] | w :: t => gvadd (gvscale (nth k z 0) w) (zw_sum z (S k) t) end.

  Record pbacc := mkPB { pb_c : gv; pb_w : list gv; pb_g : F; pb_gam : F }.

  Fixpoint pst_bloop (nv : nat) (trip : list (gv * point * F)) (proofs : list PProof) (vtape : list F) (rnd : F) (a : pbacc) (draws : nat)
    : res (pbacc * nat) :=
    match trip, proofs with
    | (c, z, v) :: trip', pf :: proofs' =>
      let w := pp_w pf in
      if (length z <? length w)%nat then Panic else          (* z[j] for every witness *)
      if (length w <? nv)%nat then Panic else                (* w[i] for i < num_vars *)
      let c' := gvadd (zw_sum z 0 w) c in
      let a' := {| pb_c := gvadd (pb_c a) (gvscale rnd c');
                   pb_w := map (fun iw => gvadd (snd iw) (gvscale rnd (nth (fst iw) w []))) (combine (seq 0 nv) (pb_w a));
                   pb_g := pb_g a + rnd * v;
                   pb_gam := match pp_rv pf with Some rv => pb_gam a + rnd * rv | None => pb_gam a end |} in
      match vtape with
      | [] => Err EOther
      | x :: vt' => pst_bloop nv trip' proofs' vt' x a' (S draws)
      end
    | _, _ => Ok (a, draws)
    end.

  Fixpoint bw_sum (betas : list F) (k : nat) (ws : list gv) : gv :=
    match ws with [] => [] | w :: t => gvadd (gvscale (nth k betas 0) w) (bw_sum betas (S k) t) end.

  Definition pst_batch_check (nv : nat) (betas : list F) (cs : list (N * gv)) (qs : list query) (ev : list (N * point * F))
             (proofs : list PProof) (chal vtape : list F) : res (bool * list F * nat) :=
    do r <- pst_combine (label_map cs) ev (groups qs) chal;
    let '(trip, rest) := r in
    if negb (length proofs =? length trip)%nat then Panic else
    do b <- pst_bloop nv trip proofs vtape 1 {| pb_c := []; pb_w := repeat [] nv; pb_g := 0; pb_gam := 0 |} O;
    let '(a, draws) := b in
    let total_c := gvsub (gvsub (pb_c a) (el (pb_g a) 0)) (el 0 (pb_gam a)) in
    (* prod_j e(-total_w[j], beta_j h) * e(total_c, h) = 1 *)
    Ok (gvzero (gvsub total_c (bw_sum betas 0 (pb_w a))), rest, draws).
End PST13Batch.

(* ---------------- PST13 open_combinations / check_combinations (Marlin's generic ones; no degree bounds) ---------------- *)
Section PST13LC.
  Context {FO : FieldOps}.
  Local Open Scope F_scope.

  (* one combination on the prover's side: polynomial, blinding polynomial, commitment *)
  Fixpoint plc_prover_loop (lm : list (N * (mpoly * option mpoly * gv))) (terms : lc) (p r : mpoly) (c : gv)
    : res (mpoly * mpoly * gv) :=
    match terms with
    | [] => Ok (p, r, c)
    | (_, TOne) :: t => plc_prover_loop lm t p r c
    | (coeff, TPoly l) :: t =>
      match OrdMap.lookup N.compare l lm with
      | None => Err EMissingPolynomial
      | Some (q, blind, cm) =>
        plc_prover_loop lm t (madd_scaled p coeff q)
                        (match blind with Some b => madd_scaled r coeff b | None => r end)
                        (gvadd c (gvscale coeff cm))
      end
    end.

  Fixpoint plc_prover_all (lm : list (N * (mpoly * option mpoly * gv))) (lcs : list (N * lc)) : res (list (N * PItem)) :=
    match lcs with
    | [] => Ok []
    | (lab, terms) :: t =>
      do a <- plc_prover_loop lm terms [] [] [];
      let '(p, r, _) := a in
      do rest <- plc_prover_all lm t;
      Ok ((lab, (p, Some r)) :: rest)
    end.

  Definition pst_open_combinations (nv s : nat) (betas : list F) (lcs : list (N * lc)) (items : list (N * (mpoly * option mpoly * gv)))
             (qs : list query) (chal : list F) : res (list PProof * list F) :=
    do its <- plc_prover_all (of_list N.compare items) lcs;
    pst_batch_open nv s betas its qs chal.

  Fixpoint plc_verifier_loop (cm : list (N * gv)) (lc_label : N) (terms : lc) (ev : list (N * point * F)) (c : gv)
    : res (list (N * point * F) * gv) :=
    match terms with
    | [] => Ok (ev, c)
    | (coeff, TOne) :: t =>
      plc_verifier_loop cm lc_label t
        (map (fun kv => if N.eqb (fst (fst kv)) lc_label then (fst kv, snd kv - coeff) else kv) ev) c
    | (coeff, TPoly l) :: t =>
      match OrdMap.lookup N.compare l cm with
      | None => Err EMissingPolynomial
      | Some x => plc_verifier_loop cm lc_label t ev (gvadd c (gvscale coeff x))
      end
    end.

  Fixpoint plc_verifier_all (cm : list (N * gv)) (lcs : list (N * lc)) (ev : list (N * point * F))
    : res (list (N * gv) * list (N * point * F)) :=
    match lcs with
    | [] => Ok ([], ev)
    | (lab, terms) :: t =>
      do r <- plc_verifier_loop cm lab terms ev [];
      do rest <- plc_verifier_all cm t (fst r);
      Ok ((lab, snd r) :: fst rest, snd rest)
    end.

  Definition pst_check_combinations (nv : nat) (betas : list F) (lcs : list (N * lc)) (cs : list (N * gv)) (qs : list query)
             (ev : list (N * point * F)) (proofs : list PProof) (chal vtape : list F) : res (bool * list F * nat) :=
    do r <- plc_verifier_all (of_list N.compare cs) lcs ev;
    pst_batch_check nv betas (fst r) qs (snd r) proofs chal vtape.
End PST13LC.
