(* Model of poly-commit/src/streaming_kzg: the time-efficient prover (time.rs), the
   space-efficient prover over reversed streams (space.rs), the verifier (mod.rs) and the
   folding of coefficient streams (data_structures.rs), in the discrete-log representation. *)
From Coq Require Import List Arith NArith Bool.
From PC Require Import Base.Field Base.Result Base.Poly.
Import ListNotations.
Local Open Scope nat_scope.

Section StreamKZG.
  Context {FO : FieldOps}.

  (* CommitterKey::new: powers_of_g = [tau^i g], i = 0..max_degree; powers_of_g2 = [tau^i h], i = 0..max_eval_points *)
  Record SKey := mkSK { sk_g : list F; sk_g2 : list F }.
  Definition sk_new (max_degree max_eval_points : nat) (tau g h : F) : SKey :=
    {| sk_g := map (fun s => fmul g s) (powers tau (max_degree + 1));
       sk_g2 := map (fun s => fmul h s) (firstn (max_eval_points + 1) (powers tau (max_degree + 1))) |}.

  (* ---- time.rs ---- *)
  Definition time_commit (ck : SKey) (p : poly) : F := msm (sk_g ck) p.

  (* all Horner partial sums: element i = sum_{j >= i} p_j z^(j-i) *)
  Fixpoint horner_all (p : poly) (z : F) : list F :=
    match p with
    | [] => []
    | c :: t => let r := horner_all t z in fadd c (fmul z (hd f0 r)) :: r
    end.

  (* CommitterKey::open: (evaluation, proof) *)
  Definition time_open (ck : SKey) (p : poly) (z : F) : F * F :=
    match horner_all p z with
    | [] => (f0, msm (sk_g ck) [])
    | e :: q => (e, msm (sk_g ck) q)
    end.

  (* ---- space.rs: CommitterKeyStream::open over the reversed coefficient / power streams ---- *)
  Fixpoint space_loop (alpha : F) (scalars bases : list F) (prev acc : F) : F * F :=
    match scalars, bases with
    | s :: ss, b :: bs => space_loop alpha ss bs (fadd (fmul prev alpha) s) (fadd acc (fmul b prev))
    | _, _ => (prev, acc)
    end.

  Definition space_open (ck : SKey) (p : poly) (alpha : F) : res (F * F) :=
    if length (sk_g ck) <? length p then Panic   (* usize underflow of the skip offset *)
    else Ok (space_loop alpha (rev p) (skipn (length (sk_g ck) - length p) (rev (sk_g ck))) f0 f0).

  (* CommitterKeyStream::commit: msm over the aligned reversed streams (any chunking of the
     Pippenger buffer is a schedule for this commutative sum) *)
  Definition space_commit (ck : SKey) (p : poly) : res F :=
    if length (sk_g ck) <? length p then Panic
    else Ok (msm (skipn (length (sk_g ck) - length p) (rev (sk_g ck))) (rev p)).

  (* ---- mod.rs: VerifierKey::verify; residual of e(C - v*g, h) = e(proof, tau*h - alpha*h) ---- *)
  Definition verify_residual (g0 h0 h1 : F) (c alpha v pi : F) : F :=
    fsub (fmul (fsub c (fmul g0 v)) h0) (fmul pi (fsub h1 (fmul alpha h0))).
  Definition verify (ck : SKey) (c alpha v pi : F) : res bool :=
    match sk_g ck, sk_g2 ck with
    | g0 :: _, h0 :: h1 :: _ => Ok (feqb (verify_residual g0 h0 h1 c alpha v pi) f0)
    | _, _ => Panic
    end.

  (* ---- data_structures.rs: folding of a big-endian coefficient stream ----
     one folding step with challenge ch: consecutive pairs (rhs, lhs) -> rhs*ch + lhs *)
  Fixpoint fold1 (ch : F) (l : list F) : list F :=
    match l with
    | a :: b :: t => fadd (fmul a ch) b :: fold1 ch t
    | _ => []
    end.
  (* zero padding (in front: the stream is big-endian) to a multiple of 2^depth *)
  Definition pad_front (depth : nat) (l : list F) : list F :=
    let chunk := 2 ^ depth in
    let r := length l mod chunk in
    if r =? 0 then l else repeat f0 (chunk - r) ++ l.
  (* the successive foldings: level 1, level 2, ..., level depth *)
  Fixpoint foldings (chs : list F) (l : list F) : list (list F) :=
    match chs with
    | [] => []
    | ch :: rest => let l' := fold1 ch l in l' :: foldings rest l'
    end.
  Definition fold_tree (chs : list F) (coeffs : list F) : list (list F) := foldings chs (pad_front (length chs) coeffs).
  Definition fold_stream (chs : list F) (coeffs : list F) : list F :=
    match chs with
    | [] => coeffs
    | _ => last (fold_tree chs coeffs) []
    end.
End StreamKZG.
