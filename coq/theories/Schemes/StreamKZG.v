(* Model of poly-commit/src/streaming_kzg: the time-efficient prover (time.rs), the
   space-efficient prover over reversed streams (space.rs), the verifier (mod.rs) and the
   folding of coefficient streams (data_structures.rs), in the discrete-log representation. *)
From Coq Require Import List Arith NArith Bool.
From PC Require Import Base.Field Base.Result Base.Poly.
Import ListNotations.
Local Open Scope nat_scope.

Section StreamKZG.
  Context {FO : FieldOps}.

  (* CommitterKey::new: powers_of_g = [tau^i g], i = 0..max_degree; powers_of_g2 = [tau^i h], i = 0..max_eval_points *)
  Record SKey := mkSK { sk_g : list F; sk_g2 : list F }.
  Definition sk_new (max_degree max_eval_points : nat) (tau g h : F) : SKey :=
    {| sk_g := map (fun s => fmul g s) (powers tau (max_degree + 1));
       sk_g2 := map (fun s => fmul h s) (firstn (max_eval_points + 1) (powers tau (max_degree + 1))) |}.

  (* ---- time.rs ---- *)
  Definition time_commit (ck : SKey) (p : poly) : F := msm (sk_g ck) p.

  (* all Horner partial sums: element i = sum_{j >= i} p_j z^(j-i) *)
  Fixpoint horner_all (p : poly) (z : F) : list F :=
    match p with
    | [] => []
    | c :: t => let r := horner_all t z in fadd c (fmul z (hd f0 r)) :: r
    end.

  (* CommitterKey::open: (evaluation, proof) *)
  Definition time_open (ck : SKey) (p : poly) (z : F) : F * F :=
    match horner_all p z with
    | [] => (f0, msm (sk_g ck) [])
    | e :: q => (e, msm (sk_g ck) q)
    end.

  (* ---- space.rs: CommitterKeyStream::open over the reversed coefficient / power streams ---- *)
  Fixpoint space_loop (alpha : F) (scalars bases : list F) (prev acc : F) : F * F :=
    match scalars, bases with
    | s :: ss, b :: bs => space_loop alpha ss bs (fadd (fmul prev alpha) s) (fadd acc (fmul b prev))
    | _, _ => (prev, acc)
    end.

  Definition space_open (ck : SKey) (p : poly) (alpha : F) : res (F * F) :=
    if length (sk_g ck) <? length p then Panic   (* usize underflow of the skip offset *)
    else Ok (space_loop alpha (rev p) (skipn (length (sk_g ck) - length p) (rev (sk_g ck))) f0 f0).

  (* CommitterKeyStream::commit: msm over the aligned reversed streams (any chunking of the
     Pippenger buffer is a schedule for this commutative sum) *)
  Definition space_commit (ck : SKey) (p : poly) : res F :=
    if length (sk_g ck) <? length p then Panic
    else Ok (msm (skipn (length (sk_g ck) - length p) (rev (sk_g ck))) (rev p)).

  (* ---- mod.rs: VerifierKey::verify; residual of e(C - v*g, h) = e(proof, tau*h - alpha*h) ---- *)
  Definition verify_residual (g0 h0 h1 : F) (c alpha v pi : F) : F :=
    fsub (fmul (fsub c (fmul g0 v)) h0) (fmul pi (fsub h1 (fmul alpha h0))).
  Definition verify (ck : SKey) (c alpha v pi : F) : res bool :=
    match sk_g ck, sk_g2 ck with
    | g0 :: _, h0 :: h1 :: _ => Ok (feqb (verify_residual g0 h0 h1 c alpha v pi) f0)
    | _, _ => Panic
    end.

  (* ---- data_structures.rs: folding of a big-endian coefficient stream ----
     one folding step with challenge ch: consecutive pairs (rhs, lhs) -> rhs*ch + lhs *)
  Fixpoint fold1 (ch : F) (l : list F) : list F :=
    match l with
    | a :: b :: t => fadd (fmul a ch) b :: fold1 ch t
    | _ => []
    end.
  (* zero padding (in front: the stream is big-endian) to a multiple of 2^depth *)
  Definition pad_front (depth : nat) (l : list F) : list F :=
    let chunk := 2 ^ depth in
    let r := length l mod chunk in
    if r =? 0 then l else repeat f0 (chunk - r) ++ l.
  (* the successive foldings: level 1, level 2, ..., level depth *)
  Fixpoint foldings (chs : list F) (l : list F) : list (list F) :=
    match chs with
    | [] => []
    | ch :: rest => let l' := fold1 ch l in l' :: foldings rest l'
    end.
  Definition fold_tree (chs : list F) (coeffs : list F) : list (list F) := foldings chs (pad_front (length chs) coeffs).
  Definition fold_stream (chs : list F) (coeffs : list F) : list F :=
    match chs with
    | [] => coeffs
    | _ => last (fold_tree chs coeffs) []
    end.
  (* ================= multi-point openings ================= *)
  (* DensePolynomial::naive_mul *)
  Fixpoint pmul (p q : poly) : poly :=
    match p with
    | [] => []
    | c :: t => padd (pscale c q) (f0 :: pmul t q)
    end.
  (* vanishing_polynomial: prod (X - x) *)
  Definition vanishing (pts : list F) : poly := fold_left (fun acc x => pmul acc [fopp x; f1]) pts [f1].

  (* ---- time.rs: open_multi_points = commitment to the quotient of the long division by Z ----
     little-endian structural division by a monic divisor of degree k given by its k low coefficients:
     p = c + X*t,  t = q'*Z + r'  ==>  X*r' = a*Z + (X*r' - a*Z) with a the top coefficient of r' *)
  Fixpoint sub_scaled (st zt : list F) (qc : F) : list F :=
    match st, zt with
    | s :: st', z :: zt' => fsub s (fmul z qc) :: sub_scaled st' zt' qc
    | _, _ => st
    end.
  Fixpoint ldivmod (p : poly) (zlow : list F) : poly * poly :=
    match p with
    | [] => ([], repeat f0 (length zlow))
    | c :: t => let '(q', r') := ldivmod t zlow in
                let a := last r' f0 in
                (a :: q', sub_scaled (c :: removelast r') zlow a)
    end.
  Definition zlow_of (pts : list F) : list F := removelast (vanishing pts).
  Definition time_open_multi (ck : SKey) (p : poly) (pts : list F) : F :=
    msm (sk_g ck) (fst (ldivmod p (zlow_of pts))).

  (* linear_combination with the powers of the batching challenge *)
  Fixpoint lin_comb (ps : list poly) (etas : list F) : poly :=
    match ps, etas with
    | p :: ps', e :: es' => padd (pscale e p) (lin_comb ps' es')
    | _, _ => []
    end.
  Definition time_batch_open_multi (ck : SKey) (ps : list poly) (pts : list F) (eta : F) : res F :=
    if length pts <? length (sk_g2 ck) then Ok (time_open_multi ck (lin_comb ps (powers eta (length ps))) pts)
    else Panic.    (* assert!(eval_points.len() < self.powers_of_g2.len()) *)

  (* ---- space.rs: open_multi_points, the streaming division over the big-endian stream ----
     state = sliding window of k coefficients; each further coefficient pops one quotient coefficient *)
  Fixpoint smp_loop (zt : list F) (coeffs bases st : list F) (acc : F) : res (list F * F) :=
    match coeffs with
    | [] => Ok (st, acc)
    | c :: cs => match st, bases with
                 | qc :: st', b :: bs => smp_loop zt cs bs (sub_scaled (st' ++ [c]) zt qc) (fadd acc (fmul b qc))
                 | _, _ => Panic
                 end
    end.
  Definition zt_of (pts : list F) : list F := tl (rev (vanishing pts)).   (* Z_{k-1}, ..., Z_0 *)
  Definition space_open_multi (ck : SKey) (p : poly) (pts : list F) : res (list F * F) :=
    let k := length pts in
    if length (sk_g ck) <? length p then Panic else
    let be := rev p in
    let missing := k - length p in
    smp_loop (zt_of pts) (skipn (k - missing) be)
             (skipn (length (sk_g ck) - length p + k) (rev (sk_g ck)))
             (repeat f0 missing ++ firstn (k - missing) be) f0.

  (* ---- mod.rs: verify_multi_points ---- *)
  Fixpoint prod_diff (xj : F) (pts : list F) (j k : nat) : F :=   (* prod_{k <> j} (x_j - x_k) *)
    match pts with
    | [] => f1
    | x :: t => fmul (if k =? j then f1 else fsub xj x) (prod_diff xj t j (S k))
    end.
  Fixpoint lang_poly (pts : list F) (j k : nat) (acc : poly) : poly :=   (* prod_{k <> j} (X - x_k) *)
    match pts with
    | [] => acc
    | x :: t => lang_poly t j (S k) (if k =? j then acc else pmul acc [fopp x; f1])
    end.
  Fixpoint interp_loop (pts all : list F) (evals : list F) (j : nat) : poly :=
    match pts, evals with
    | xj :: t, y :: ys => padd (pscale (fmul (finv (prod_diff xj all j 0)) y) (lang_poly all j 0 [f1]))
                               (interp_loop t all ys (S j))
    | _, _ => []
    end.
  Definition interpolate (pts evals : list F) : poly := interp_loop pts pts evals 0.

  (* verifier keys: From<&CommitterKey> keeps max_eval_points powers of g, From<&CommitterKeyStream> the same (at least g) *)
  Definition vk_of_time (ck : SKey) : res SKey :=
    let me := length (sk_g2 ck) - 1 in
    if length (sk_g ck) <? me then Panic else Ok {| sk_g := firstn me (sk_g ck); sk_g2 := sk_g2 ck |}.
  Definition vk_of_stream (ck : SKey) : res SKey :=
    match sk_g ck with
    | _ :: _ => Ok {| sk_g := firstn (Nat.max (length (sk_g2 ck) - 1) 1) (sk_g ck); sk_g2 := sk_g2 ck |}
    | [] => Panic
    end.
  (* msm / msm_bigint pair bases and scalars up to the shorter of the two *)
  Definition verify_multi_residual (vk : SKey) (cs : list F) (pts : list F) (evals : list (list F)) (pi eta : F) : F :=
    let z := vanishing pts in
    let zh := msm (sk_g2 vk) z in
    let etas := powers eta (length evals) in
    let ipoly := lin_comb (map (interpolate pts) evals) etas in
    let icomm := msm (sk_g vk) ipoly in
    let fcomm := msm cs etas in
    fsub (fmul (fsub fcomm icomm) (hd f0 (sk_g2 vk))) (fmul pi zh).
  Definition verify_multi (vk : SKey) (cs pts : list F) (evals : list (list F)) (pi eta : F) : bool :=
    feqb (verify_multi_residual vk cs pts evals pi eta) f0.

  (* ================= the folding iterators (stack machines of data_structures.rs) ================= *)
  (* init_stack: as if the stream were zero-padded in front up to a multiple of 2^depth; top of the stack = head *)
  Fixpoint init_stack_loop (delta : nat) (i : nat) (st : list (nat * F)) : list (nat * F) :=
    match i with
    | O => st
    | S i' => if 2 ^ i' <=? delta then init_stack_loop (delta - 2 ^ i') i' ((i', f0) :: st)
              else init_stack_loop delta i' st
    end.
  Definition init_stack (n depth : nat) : list (nat * F) :=
    let chunk := 2 ^ depth in
    if n mod chunk =? 0 then [] else init_stack_loop (chunk - n mod chunk) depth [].

  (* FoldedPolynomialTreeIter::next, one inner step: (stack, input) -> (stack', input', item) *)
  Definition tree_step (chs : list F) (st : list (nat * F)) (inp : list F) : option (list (nat * F) * list F * (nat * F)) :=
    let depth := length chs in
    let read := match inp with
                | [] => None
                | c :: inp' => Some (st, inp', (O, c))
                end in
    let r := match st with
             | (l1, lhs) :: (l2, rhs) :: st' =>
               if l1 =? l2 then Some (st', inp, (S l2, fadd (fmul rhs (nth l2 chs f0)) lhs)) else read
             | _ => read
             end in
    match r with
    | None => None
    | Some (st1, inp1, item) => Some ((if fst item =? depth then st1 else item :: st1), inp1, item)
    end.
  Fixpoint tree_run (fuel : nat) (chs : list F) (st : list (nat * F)) (inp : list F) : list (nat * F) :=
    match fuel with
    | O => []
    | S f => match tree_step chs st inp with
             | None => []
             | Some (st', inp', item) =>
               if fst item =? 0 then tree_run f chs st' inp' else item :: tree_run f chs st' inp'
             end
    end.
  Definition tree_iter (chs coeffs : list F) : list (nat * F) :=
    tree_run (2 * (length coeffs + 2 ^ length chs) + 2) chs (init_stack (length coeffs) (length chs)) coeffs.

  (* FoldedPolynomialStreamIter::next, one iteration of its loop *)
  Definition stream_step (chs : list F) (st : list (nat * F)) (inp : list F) : option (list (nat * F) * list F * (nat * F)) :=
    let depth := length chs in
    let read1 := match inp with
                 | [] => None
                 | c :: inp' => Some (st, inp', (O, c))
                 end in
    let read2 := match inp with
                 | rhs :: lhs :: inp' => Some (st, inp', (1, fadd (fmul (nth 0 chs f0) rhs) lhs))
                 | _ => None
                 end in
    let top_nonzero := match st with [] => true | (l, _) :: _ => negb (l =? 0) end in
    match st with
    | (l1, lhs) :: (l2, rhs) :: st' =>
      if l1 =? l2 then Some (st', inp, (S l2, fadd (fmul rhs (nth l2 chs f0)) lhs))
      else if (0 <? depth) && top_nonzero then read2 else read1
    | _ => if (0 <? depth) && top_nonzero then read2 else read1
    end.
  Fixpoint stream_run (fuel : nat) (chs : list F) (st : list (nat * F)) (inp : list F) : list F :=
    match fuel with
    | O => []
    | S f => match stream_step chs st inp with
             | None => []
             | Some (st', inp', (level, x)) =>
               if level =? length chs then x :: stream_run f chs st' inp'
               else stream_run f chs ((level, x) :: st') inp'
             end
    end.
  Definition stream_iter (chs coeffs : list F) : list F :=
    stream_run (2 * (length coeffs + 2 ^ length chs) + 2) chs (init_stack (length coeffs) (length chs)) coeffs.

  Definition by_level (i : nat) (items : list (nat * F)) : list F := map snd (filter (fun it => fst it =? i) items).

  (* commit_folding: level i (1-based) paired in emission order with the reversed powers from offset len - ceil(n / 2^i) *)
  Definition ceil_div (a b : nat) : nat := (a + b - 1) / b.
  Definition commit_folding (ck : SKey) (chs coeffs : list F) : res (list F) :=
    let items := tree_iter chs coeffs in
    mapM (fun i => let m := ceil_div (length coeffs) (2 ^ i) in
                   if length (sk_g ck) <? m then Panic
                   else Ok (msm (skipn (length (sk_g ck) - m) (rev (sk_g ck))) (by_level i items)))
         (seq 1 (length chs)).
  (* open_folding: per level the streaming division started from k zeros; proof = sum_i eta_i * quotient_i(tau) g *)
  Definition open_folding (ck : SKey) (chs coeffs pts etas : list F) : res (list (list F) * F) :=
    let items := tree_iter chs coeffs in
    do l <- mapM (fun i => let m := ceil_div (length coeffs) (2 ^ i) in
                           if length (sk_g ck) <? m then Panic
                           else smp_loop (zt_of pts) (by_level i items) (skipn (length (sk_g ck) - m) (rev (sk_g ck)))
                                         (repeat f0 (length pts)) f0)
               (seq 1 (length chs));
    Ok (map fst l, msm (map snd l) etas).
End StreamKZG.
