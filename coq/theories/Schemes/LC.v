(* Model of data_structures.rs LinearCombination (terms as an ordered list, operators
   as the AddAssign/SubAssign/MulAssign impls), lib.rs evaluate_query_set, and
   ipa_pc SuccinctCheckPolynomial. *)
From Coq Require Import List Arith NArith Bool.
From PC Require Import Base.Field Base.Result Base.Poly Base.OrdMap.
Import ListNotations.
Open Scope F_scope.

Section LC.
  Context {FO : FieldOps}.

  Inductive lcterm := TOne | TPoly (label : N).
  Definition lc := list (F * lcterm).

  (* value of a combination under an assignment of polynomial evaluations *)
  Definition term_value (ev : N -> F) (t : lcterm) : F :=
    match t with TOne => 1 | TPoly l => ev l end.
  Fixpoint lc_value (ev : N -> F) (l : lc) : F :=
    match l with [] => 0 | (c, t) :: r => c * term_value ev t + lc_value ev r end.

  (* self += (coeff, other) *)
  Definition lc_add_scaled (l : lc) (coeff : F) (o : lc) : lc :=
    l ++ map (fun ct => (coeff * fst ct, snd ct)) o.
  (* self -= (coeff, other) *)
  Definition lc_sub_scaled (l : lc) (coeff : F) (o : lc) : lc :=
    l ++ map (fun ct => ((- coeff) * fst ct, snd ct)) o.
  (* self += other / self -= other *)
  Definition lc_add (l o : lc) : lc := l ++ o.
  Definition lc_sub (l o : lc) : lc := l ++ map (fun ct => (- fst ct, snd ct)) o.
  (* self += c / self -= c *)
  Definition lc_add_const (l : lc) (c : F) : lc := l ++ [(c, TOne)].
  Definition lc_sub_const (l : lc) (c : F) : lc := l ++ [(- c, TOne)].
  (* self *= c *)
  Definition lc_mul (l : lc) (c : F) : lc := map (fun ct => (fst ct * c, snd ct)) l.

  Inductive lcop :=
  | OpAddScaled (c : F) (o : lc) | OpSubScaled (c : F) (o : lc)
  | OpAdd (o : lc) | OpSub (o : lc) | OpAddConst (c : F) | OpSubConst (c : F) | OpMul (c : F).

  Definition apply_op (l : lc) (op : lcop) : lc :=
    match op with
    | OpAddScaled c o => lc_add_scaled l c o | OpSubScaled c o => lc_sub_scaled l c o
    | OpAdd o => lc_add l o | OpSub o => lc_sub l o
    | OpAddConst c => lc_add_const l c | OpSubConst c => lc_sub_const l c
    | OpMul c => lc_mul l c
    end.

  (* the same operation on values *)
  Definition apply_op_value (ev : N -> F) (v : F) (op : lcop) : F :=
    match op with
    | OpAddScaled c o => v + c * lc_value ev o | OpSubScaled c o => v - c * lc_value ev o
    | OpAdd o => v + lc_value ev o | OpSub o => v - lc_value ev o
    | OpAddConst c => v + c | OpSubConst c => v - c
    | OpMul c => v * c
    end.

  (* ---------- evaluate_query_set ---------- *)
  Definition qkey := (N * F)%type.              (* (polynomial label, point) *)
  Definition qkey_cmp : qkey -> qkey -> comparison := cmp_pair N.compare fcmp.
  Definition query := (N * (N * F))%type.       (* (label, (point label, point)) *)

  (* BTreeMap::from_iter over (label, polynomial): later entries overwrite *)
  Definition poly_map (polys : list (N * poly)) : list (N * poly) :=
    of_list N.compare polys.

  (* None = the `expect("polynomial in evaluated lc is not found")` panic *)
  Fixpoint evaluate_query_set (pm : list (N * poly)) (qs : list query) (acc : list (qkey * F))
    : res (list (qkey * F)) :=
    match qs with
    | [] => Ok acc
    | (label, (_, point)) :: t =>
      match lookup N.compare label pm with
      | None => Panic
      | Some p => evaluate_query_set pm t (insert qkey_cmp (label, point) (eval p point) acc)
      end
    end.

  (* ---------- SuccinctCheckPolynomial ---------- *)
  (* one pass of the inner loops of compute_coeffs: for start in (ed..len).step_by(2*ed),
     for offset in 0..ed: coeffs[start+offset] *= ch.  Rendered block-wise: keep ed
     entries, scale the next ed, continue after 2*ed.  fuel = number of blocks. *)
  Fixpoint scale_blocks (fuel ed : nat) (ch : F) (l : list F) : list F :=
    match fuel with
    | O => l
    | S f => firstn ed l ++ map (fun c => c * ch) (firstn ed (skipn ed l))
                    ++ scale_blocks f ed ch (skipn (2 * ed) l)
    end.

  (* outer loop: challenge i (1-based) uses elem_degree 2^(log_d - i) *)
  Fixpoint cc_loop (chs : list F) (coeffs : list F) : list F :=
    match chs with
    | [] => coeffs
    | ch :: rest => cc_loop rest (scale_blocks (length coeffs) (2 ^ length rest) ch coeffs)
    end.

  Definition compute_coeffs (chs : list F) : list F :=
    cc_loop chs (repeat 1 (2 ^ length chs)).

  (* evaluate: product *= 1 + point^(2^(log_d - i)) * challenge_i, left to right *)
  Fixpoint sc_eval_loop (chs : list F) (z : F) (product : F) : F :=
    match chs with
    | [] => product
    | ch :: rest => sc_eval_loop rest z (product * (1 + fpow z (2 ^ length rest) * ch))
    end.
  Definition sc_evaluate (chs : list F) (z : F) : F := sc_eval_loop chs z 1.
End LC.
