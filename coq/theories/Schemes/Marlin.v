(* Model of poly-commit/src/marlin/marlin_pc/mod.rs (MarlinKZG10) and the shared
   helpers of poly-commit/src/marlin/mod.rs, on top of the KZG10 model, in the
   discrete-log representation.  Labels are numbers (the harness prints them as
   fixed-width strings, so byte order = numeric order).  Sponge challenges and RNG
   draws are tapes consumed in order; every function returns the rest of the tape so
   that the number of squeezes / draws is an observable. *)
From Coq Require Import List Arith NArith Bool.
From PC Require Import Base.Field Base.Result Base.Poly Base.OrdMap Schemes.KZG10 Schemes.LC.
Import ListNotations.
Local Open Scope nat_scope.

Section Marlin.
  Context {FO : FieldOps}.

  Record LPoly := mkLP { lp_label : N; lp_poly : poly; lp_bound : option nat; lp_hiding : option nat }.
  Record MComm := mkMC { mc_comm : F; mc_shifted : option F }.
  Record LComm := mkLC { lc_label : N; lc_comm : MComm; lc_bound : option nat }.
  Record MRand := mkMR { mr_rand : Rand; mr_shifted : option Rand }.

  Record CKey := mkCK {
    ck_powers : list F;                   (* beta^i g, i = 0..supported *)
    ck_shifted_powers : option (list F);  (* beta^i g, i = max - highest bound .. max *)
    ck_gamma : list F;                    (* beta^i gamma_g, i = 0..supported_hiding+1 *)
    ck_bounds : option (list nat);        (* sorted, duplicate free *)
    ck_max_degree : nat }.
  Record MVKey := mkMVK {
    mvk_vk : VKey;
    mvk_shifts : option (list (nat * F)); (* (bound, beta^(max-bound) g), sorted by bound *)
    mvk_supported : nat; mvk_max : nat }.

  (* v.sort(); v.dedup() *)
  Fixpoint nat_insert (x : nat) (l : list nat) : list nat :=
    match l with
    | [] => [x]
    | y :: t => match Nat.compare x y with Lt => x :: l | Eq => l | Gt => y :: nat_insert x t end
    end.
  Definition sort_dedup (l : list nat) : list nat := fold_left (fun acc x => nat_insert x acc) l [].

  Definition nat_mem (x : nat) (l : list nat) : bool := existsb (Nat.eqb x) l.

  (* BTreeMap index `pp.powers_of_gamma_g[&i]`: aborts when the key is absent *)
  Fixpoint index_all {A} (l : list A) (idx : list nat) : res (list A) :=
    match idx with
    | [] => Ok []
    | i :: t => match nth_error l i with
                | None => Panic
                | Some a => do r <- index_all l t; Ok (a :: r)
                end
    end.

  Definition mtrim (up : UParams) (supported hiding : nat) (bounds : option (list nat)) : res (CKey * MVKey) :=
    let D := max_degree up in
    if D <? supported then Err ETrimmingDegreeTooLarge else
    let powers := firstn (supported + 1) (up_powers_of_g up) in
    do gam <- index_all (up_powers_of_gamma_g up) (seq 0 (hiding + 2));
    let vk := vk_of up in
    let bounds' := option_map sort_dedup bounds in
    do sh <- match bounds' with
             | None => Ok (None, None)
             | Some [] => Ok (None, None)
             | Some bs =>
               let hi := last bs O in
               if supported <? hi then Err EUnsupportedDegreeBound else
               Ok (Some (skipn (D - hi) (up_powers_of_g up)),
                   Some (map (fun d => (d, nth (D - d) (up_powers_of_g up) 0%F)) bs))
             end;
    Ok ({| ck_powers := powers; ck_shifted_powers := fst sh; ck_gamma := gam;
           ck_bounds := bounds'; ck_max_degree := D |},
        {| mvk_vk := vk; mvk_shifts := snd sh; mvk_supported := supported; mvk_max := D |}).

  Definition ck_supported (ck : CKey) : nat := pred (length (ck_powers ck)).
  Definition ck_pw (ck : CKey) : Powers := {| pw_g := ck_powers ck; pw_gamma_g := ck_gamma ck |}.

  (* CommitterKey::shifted_powers(bound): None when the key has no shifted powers;
     the `assert!(contains)` and slice-range aborts are explicit *)
  Definition shifted_pw (ck : CKey) (bound : option nat) : option (res Powers) :=
    match ck_shifted_powers ck with
    | None => None
    | Some sp =>
      Some (match bound with
            | None => Ok {| pw_g := sp; pw_gamma_g := ck_gamma ck |}
            | Some d =>
              match ck_bounds ck with
              | None => Panic
              | Some bs =>
                if negb (nat_mem d bs) then Panic else
                let hi := last bs O in
                if length sp <? hi - d then Panic else
                Ok {| pw_g := skipn (hi - d) sp; pw_gamma_g := ck_gamma ck |}
              end
            end)
    end.

  (* kzg10::KZG10::check_degrees_and_bounds *)
  Definition check_degrees_and_bounds (max_deg : nat) (bounds : option (list nat)) (p : poly) (bound : option nat)
    : res unit :=
    match bound with
    | None => Ok tt
    | Some b =>
      match bounds with
      | None => Err EUnsupportedDegreeBound
      | Some bs =>
        if negb (nat_mem b bs) then Err EUnsupportedDegreeBound
        else if (b <? degree p) || (max_deg <? b) then Err EIncorrectDegreeBound
        else Ok tt
      end
    end.

  (* One iteration of MarlinKZG10::commit.  rng = None models OptionalRng(None): any
     draw aborts. *)
  Definition kzg_commit_opt (pw : Powers) (p : poly) (hb : option nat) (rng : option (list F))
    : res (F * Rand * nat) :=
    match hb, rng with
    | Some _, None =>
      (* KZG10::commit is handed Some(OptionalRng(None)); the admission check runs first, then the draw aborts *)
      do _ <- check_degree_is_too_large (degree p) (length (pw_g pw)); Panic
    | _, _ => commit pw p hb rng
    end.

  Definition commit1 (ck : CKey) (lp : LPoly) (rng : option (list F)) : res (MComm * MRand * nat) :=
    do _ <- check_degrees_and_bounds (ck_max_degree ck) (ck_bounds ck) (lp_poly lp) (lp_bound lp);
    do r1 <- kzg_commit_opt (ck_pw ck) (lp_poly lp) (lp_hiding lp) rng;
    let '(c, r, n1) := r1 in
    match lp_bound lp with
    | None => Ok ({| mc_comm := c; mc_shifted := None |}, {| mr_rand := r; mr_shifted := None |}, n1)
    | Some d =>
      match shifted_pw ck (Some d) with
      | None => Err EUnsupportedDegreeBound
      | Some rpw =>
        do spw <- rpw;
        do r2 <- kzg_commit_opt spw (lp_poly lp) (lp_hiding lp) (option_map (skipn n1) rng);
        let '(sc, sr, n2) := r2 in
        Ok ({| mc_comm := c; mc_shifted := Some sc |}, {| mr_rand := r; mr_shifted := Some sr |}, n1 + n2)
      end
    end.

  Fixpoint commit_all (ck : CKey) (lps : list LPoly) (rng : option (list F)) : res (list (MComm * MRand) * nat) :=
    match lps with
    | [] => Ok ([], O)
    | lp :: t =>
      do r <- commit1 ck lp rng;
      let '(c, st, n) := r in
      do rest <- commit_all ck t (option_map (skipn n) rng);
      Ok ((c, st) :: fst rest, n + snd rest)
    end.

  (* shift_polynomial *)
  Definition shift_polynomial (ck : CKey) (w : poly) (bound : nat) : res poly :=
    if is_zero_poly w then Ok [] else
    match ck_bounds ck with
    | None => Panic
    | Some bs => let hi := last bs O in
                 if hi <? bound then Panic else Ok (repeat 0%F (hi - bound) ++ w)
    end.

  Record oacc := mkOA { oa_p : poly; oa_r : poly; oa_sw : poly; oa_sr : poly; oa_srw : poly; oa_enf : bool }.

  (* the loop of MarlinKZG10::open over (polynomial, state) pairs; challenges from the tape *)
  Fixpoint open_loop (ck : CKey) (z : F) (items : list (LPoly * MRand)) (chal : list F) (a : oacc)
    : res (oacc * list F) :=
    match items with
    | [] => Ok (a, chal)
    | (lp, st) :: t =>
      if negb (Bool.eqb (match lp_bound lp with Some _ => true | None => false end)
                        (match mr_shifted st with Some _ => true | None => false end)) then Panic else
      do _ <- check_degrees_and_bounds (ck_max_degree ck) (ck_bounds ck) (lp_poly lp) (lp_bound lp);
      match chal with
      | [] => Err EOther
      | cj :: chal1 =>
        let a1 := {| oa_p := padd_scaled (oa_p a) cj (lp_poly lp); oa_r := padd_scaled (oa_r a) cj (mr_rand st);
                     oa_sw := oa_sw a; oa_sr := oa_sr a; oa_srw := oa_srw a; oa_enf := oa_enf a |} in
        match lp_bound lp, mr_shifted st with
        | Some d, Some srand =>
          let w := witness_poly (lp_poly lp) z in
          let srw := if is_hiding srand then Some (witness_poly srand z) else None in
          match chal1 with
          | [] => Err EOther
          | cj1 :: chal2 =>
            do sw <- shift_polynomial ck w d;
            open_loop ck z t chal2
              {| oa_p := oa_p a1; oa_r := oa_r a1;
                 oa_sw := padd_scaled (oa_sw a) cj1 sw; oa_sr := padd_scaled (oa_sr a) cj1 srand;
                 oa_srw := match srw with Some x => padd_scaled (oa_srw a) cj1 x | None => oa_srw a end;
                 oa_enf := true |}
          end
        | _, _ => open_loop ck z t chal1 a1
        end
      end
    end.

  Definition mopen (ck : CKey) (items : list (LPoly * MRand)) (z : F) (chal : list F) : res (Proof * list F) :=
    do r <- open_loop ck z items chal
              {| oa_p := []; oa_r := []; oa_sw := []; oa_sr := []; oa_srw := []; oa_enf := false |};
    let '(a, rest) := r in
    do pf <- KZG10.open (ck_pw ck) (oa_p a) z (trim (oa_r a));
    if oa_enf a then
      match shifted_pw ck None with
      | None => Panic
      | Some rpw =>
        do spw <- rpw;
        do spf <- open_with_witness spw z (trim (oa_sr a)) (trim (oa_sw a)) (Some (oa_srw a));
        Ok ({| pf_w := (pf_w pf + pf_w spf)%F;
               pf_random_v := match pf_random_v pf, pf_random_v spf with
                              | Some v, Some sv => Some (v + sv)%F
                              | rv, _ => rv
                              end |}, rest)
      end
    else Ok (pf, rest).

  (* VerifierKey::get_shift_power *)
  Fixpoint assoc_nat (d : nat) (l : list (nat * F)) : option F :=
    match l with [] => None | (k, v) :: t => if Nat.eqb k d then Some v else assoc_nat d t end.
  Definition get_shift_power (vk : MVKey) (d : nat) : option F :=
    match mvk_shifts vk with None => None | Some l => assoc_nat d l end.

  (* Marlin::accumulate_commitments_and_values: zips commitments with values *)
  Fixpoint accumulate (vk : MVKey) (cs : list LComm) (vs : list F) (chal : list F) (cc cv : F)
    : res (F * F * list F) :=
    match cs, vs with
    | c :: cs', v :: vs' =>
      if negb (Bool.eqb (match lc_bound c with Some _ => true | None => false end)
                        (match mc_shifted (lc_comm c) with Some _ => true | None => false end)) then Panic else
      match chal with
      | [] => Err EOther
      | ci :: chal1 =>
        let cc1 := (cc + mc_comm (lc_comm c) * ci)%F in
        let cv1 := (cv + v * ci)%F in
        match lc_bound c, mc_shifted (lc_comm c) with
        | Some d, Some sc =>
          match chal1 with
          | [] => Err EOther
          | ci1 :: chal2 =>
            match get_shift_power vk d with
            | None => Err EUnsupportedDegreeBound
            | Some sp => accumulate vk cs' vs' chal2 (cc1 + (sc - sp * v) * ci1)%F cv1
            end
          end
        | _, _ => accumulate vk cs' vs' chal1 cc1 cv1
        end
      end
    | _, _ => Ok (cc, cv, chal)
    end.

  Definition mcheck (vk : MVKey) (cs : list LComm) (z : F) (vs : list F) (pf : Proof) (chal : list F)
    : res (bool * list F) :=
    do r <- accumulate vk cs vs chal 0%F 0%F;
    let '(cc, cv, rest) := r in
    do b <- KZG10.check (mvk_vk vk) cc z cv pf;
    Ok (b, rest).

  (* ---------------- query sets (lib.rs / marlin): grouping by point label ---------------- *)
  Definition query := (N * (N * F))%type.                  (* (label, (point label, point)) *)
  Definition query_cmp : query -> query -> comparison := cmp_pair N.compare (cmp_pair N.compare fcmp).

  Fixpoint set_insert {A} (cmp : A -> A -> comparison) (x : A) (l : list A) : list A :=
    match l with
    | [] => [x]
    | y :: t => match cmp x y with Lt => x :: l | Eq => l | Gt => y :: set_insert cmp x t end
    end.
  Definition set_of_list {A} (cmp : A -> A -> comparison) (l : list A) : list A :=
    fold_left (fun acc x => set_insert cmp x acc) l [].

  (* query_to_labels_map: point label -> (first point seen, set of labels), in point-label order *)
  Fixpoint group_add (pl : N) (pt : F) (label : N) (m : list (N * (F * list N))) : list (N * (F * list N)) :=
    match m with
    | [] => [(pl, (pt, [label]))]
    | (k, (p0, ls)) :: t =>
      match N.compare pl k with
      | Lt => (pl, (pt, [label])) :: m
      | Eq => (k, (p0, set_insert N.compare label ls)) :: t
      | Gt => (k, (p0, ls)) :: group_add pl pt label t
      end
    end.
  Definition group_queries (qs : list query) : list (N * (F * list N)) :=
    fold_left (fun m q => group_add (fst (snd q)) (snd (snd q)) (fst q) m) (set_of_list query_cmp qs) [].

  Definition evals := list ((N * F) * F).

  (* Marlin::combine_and_normalize *)
  Fixpoint lookup_all {A} (m : list (N * A)) (labels : list N) : res (list A) :=
    match labels with
    | [] => Ok []
    | l :: t => match lookup N.compare l m with
                | None => Err EMissingPolynomial
                | Some a => do r <- lookup_all m t; Ok (a :: r)
                end
    end.

  Fixpoint gather (cm : list (N * LComm)) (ev : evals) (pt : F) (labels : list N) : res (list LComm * list F) :=
    match labels with
    | [] => Ok ([], [])
    | l :: t =>
      match lookup N.compare l cm with
      | None => Err EMissingPolynomial
      | Some c =>
        if negb (Bool.eqb (match lc_bound c with Some _ => true | None => false end)
                          (match mc_shifted (lc_comm c) with Some _ => true | None => false end)) then Panic else
        match lookup qkey_cmp (l, pt) ev with
        | None => Err EMissingEvaluation
        | Some v => do r <- gather cm ev pt t; Ok (c :: fst r, v :: snd r)
        end
      end
    end.

  Fixpoint combine_groups (vk : MVKey) (cm : list (N * LComm)) (ev : evals)
           (groups : list (N * (F * list N))) (chal : list F)
    : res (list F * list F * list F * list F) :=
    match groups with
    | [] => Ok ([], [], [], chal)
    | (_, (pt, labels)) :: t =>
      do cv <- gather cm ev pt labels;
      do a <- accumulate vk (fst cv) (snd cv) chal 0%F 0%F;
      let '(c, v, chal1) := a in
      do r <- combine_groups vk cm ev t chal1;
      let '(cs, zs, vs, rest) := r in
      Ok (c :: cs, pt :: zs, v :: vs, rest)
    end.

  Definition comm_map (cs : list LComm) : list (N * LComm) :=
    of_list N.compare (map (fun c => (lc_label c, c)) cs).
  Definition evals_map (ev : evals) : evals := of_list qkey_cmp ev.

  (* MarlinKZG10::batch_check: returns decision, remaining challenge tape, verifier draws *)
  Definition mbatch_check_m (vk : MVKey) (cs : list LComm) (qs : list query) (evm : evals)
             (pfs : list Proof) (chal vtape : list F) : res (bool * list F * nat) :=
    do r <- combine_groups vk (comm_map cs) evm (group_queries qs) chal;
    let '(ccs, zs, vs, rest) := r in
    if negb (Nat.eqb (length pfs) (length zs)) then Panic else
    do b <- KZG10.batch_check (mvk_vk vk) ccs zs vs pfs vtape;
    Ok (fst b, rest, snd b).
  (* ev: the evaluations as a list; the function is handed the BTreeMap *)
  Definition mbatch_check (vk : MVKey) (cs : list LComm) (qs : list query) (ev : evals)
             (pfs : list Proof) (chal vtape : list F) : res (bool * list F * nat) :=
    mbatch_check_m vk cs qs (evals_map ev) pfs chal vtape.

  (* MarlinKZG10::batch_open *)
  Fixpoint open_groups (ck : CKey) (pm : list (N * (LPoly * MRand))) (groups : list (N * (F * list N)))
           (chal : list F) : res (list Proof * list F) :=
    match groups with
    | [] => Ok ([], chal)
    | (_, (pt, labels)) :: t =>
      do items <- lookup_all pm labels;
      do r <- mopen ck items pt chal;
      do rest <- open_groups ck pm t (snd r);
      Ok (fst r :: fst rest, snd rest)
    end.

  Definition poly_state_map (items : list (LPoly * MRand)) : list (N * (LPoly * MRand)) :=
    of_list N.compare (map (fun it => (lp_label (fst it), it)) items).

  Definition mbatch_open (ck : CKey) (items : list (LPoly * MRand)) (qs : list query) (chal : list F)
    : res (list Proof * list F) :=
    open_groups ck (poly_state_map items) (group_queries qs) chal.
End Marlin.
