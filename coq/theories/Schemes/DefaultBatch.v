(* Model of the default batch_open / batch_check of the PolynomialCommitment trait (poly-commit/src/lib.rs), used by
   Hyrax and the linear-code schemes: the queries are grouped by point label (a BTreeMap: ascending point labels, the
   labels of each group an ascending set), every group is opened / checked with one call of the scheme's own open /
   check on the shared transcript, the verdict is the conjunction, an error ends the loop.  Generic in the scheme:
   commitments, prover items, proofs and the transcript state are parameters. *)
From Coq Require Import List Arith NArith Bool.
From PC Require Import Base.Field Base.Result Base.Poly.
Import ListNotations.
Local Open Scope nat_scope.

Section DefaultBatch.
  Context {FO : FieldOps}.
  Variables (Comm Item Proof St : Type).
  Definition point := list F.

  Fixpoint pt_eqb (a b : point) : bool :=
    match a, b with
    | [], [] => true
    | x :: a', y :: b' => feqb x y && pt_eqb a' b'
    | _, _ => false
    end.

  (* one query: (polynomial label, (point label, point)), in the order of the QuerySet (a BTreeSet) *)
  Definition query := (N * (N * point))%type.

  Fixpoint insert_label (l : N) (ls : list N) : list N :=
    match ls with
    | [] => [l]
    | x :: t => match N.compare l x with Lt => l :: ls | Eq => ls | Gt => x :: insert_label l t end
    end.
  (* query_to_labels_map.entry(point_label).or_insert((point, set)).1.insert(label) *)
  Fixpoint insert_group (pl : N) (pt : point) (l : N) (m : list (N * (point * list N))) : list (N * (point * list N)) :=
    match m with
    | [] => [(pl, (pt, [l]))]
    | (k, (p0, ls)) :: t =>
      match N.compare pl k with
      | Lt => (pl, (pt, [l])) :: m
      | Eq => (k, (p0, insert_label l ls)) :: t
      | Gt => (k, (p0, ls)) :: insert_group pl pt l t
      end
    end.
  Definition groups (qs : list query) : list (N * (point * list N)) :=
    fold_left (fun m q => insert_group (fst (snd q)) (snd (snd q)) (fst q) m) qs [].

  Fixpoint lookup {A} (l : N) (m : list (N * A)) : option A :=
    match m with [] => None | (k, a) :: t => if N.eqb k l then Some a else lookup l t end.
  (* the map built by collect(): a later entry with the same label replaces an earlier one *)
  Definition label_map {A} (l : list (N * A)) : list (N * A) := rev l.

  Fixpoint lookup_eval (l : N) (pt : point) (ev : list (N * point * F)) : option F :=
    match ev with
    | [] => None
    | (k, p0, v) :: t => if N.eqb k l && pt_eqb p0 pt then Some v else lookup_eval l pt t
    end.

  (* ---- batch_check ---- *)
  Variable check : list Comm -> point -> list F -> Proof -> St -> res (bool * St).

  Fixpoint gather_v (cm : list (N * Comm)) (ev : list (N * point * F)) (pt : point) (labels : list N)
    : res (list Comm * list F) :=
    match labels with
    | [] => Ok ([], [])
    | l :: t =>
      match lookup l cm with
      | None => Err EMissingPolynomial
      | Some c =>
        match lookup_eval l pt ev with
        | None => Err EMissingEvaluation
        | Some v => do r <- gather_v cm ev pt t; Ok (c :: fst r, v :: snd r)
        end
      end
    end.

  Fixpoint bcheck_loop (cm : list (N * Comm)) (ev : list (N * point * F)) (gs : list (N * (point * list N)))
           (proofs : list Proof) (st : St) (result : bool) : res (bool * St) :=
    match gs, proofs with
    | (_, (pt, labels)) :: gs', pf :: proofs' =>
      do cv <- gather_v cm ev pt labels;
      do r <- check (fst cv) pt (snd cv) pf st;
      bcheck_loop cm ev gs' proofs' (snd r) (result && fst r)
    | _, _ => Ok (result, st)
    end.

  Definition default_batch_check (cs : list (N * Comm)) (qs : list query) (ev : list (N * point * F)) (proofs : list Proof) (st : St)
    : res (bool * St) :=
    let gs := groups qs in
    if negb (length proofs =? length gs)%nat then Panic          (* assert_eq!(proofs.len(), query_to_labels_map.len()) *)
    else bcheck_loop (label_map cs) ev gs proofs st true.

  (* ---- batch_open ---- *)
  Variable open : list Item -> point -> St -> res (Proof * St).

  Fixpoint gather_p (im : list (N * Item)) (labels : list N) : res (list Item) :=
    match labels with
    | [] => Ok []
    | l :: t => match lookup l im with
                | None => Err EMissingPolynomial
                | Some it => do r <- gather_p im t; Ok (it :: r)
                end
    end.
  Fixpoint bopen_loop (im : list (N * Item)) (gs : list (N * (point * list N))) (st : St) : res (list Proof * St) :=
    match gs with
    | [] => Ok ([], st)
    | (_, (pt, labels)) :: gs' =>
      do its <- gather_p im labels;
      do r <- open its pt st;
      do rest <- bopen_loop im gs' (snd r);
      Ok (fst r :: fst rest, snd rest)
    end.
  Definition default_batch_open (items : list (N * Item)) (qs : list query) (st : St) : res (list Proof * St) :=
    bopen_loop (label_map items) (groups qs) st.
End DefaultBatch.
