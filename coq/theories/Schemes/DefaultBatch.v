(* Model of the default batch_open / batch_check of the PolynomialCommitment trait (poly-commit/src/lib.rs), used by
   Hyrax and the linear-code schemes: the queries are grouped by point label (a BTreeMap: ascending point labels, the
   labels of each group an ascending set), every group is opened / checked with one call of the scheme's own open /
   check on the shared transcript, the verdict is the conjunction, an error ends the loop.  Generic in the scheme:
   commitments, prover items, proofs and the transcript state are parameters. *)
From Coq Require Import List Arith NArith Bool.
From PC Require Import Base.Field Base.Result Base.Poly Base.OrdMap Schemes.LC.
Import ListNotations.
Local Open Scope nat_scope.

Section DefaultBatch.
  Context {FO : FieldOps}.
  Variables (Comm Item Proof St : Type).
  Definition point := list F.

  Fixpoint pt_eqb (a b : point) : bool :=
    match a, b with
    | [], [] => true
    | x :: a', y :: b' => feqb x y && pt_eqb a' b'
    | _, _ => false
    end.

  (* one query: (polynomial label, (point label, point)), in the order of the QuerySet (a BTreeSet) *)
  Definition query := (N * (N * point))%type.

  Fixpoint insert_label (l : N) (ls : list N) : list N :=
    match ls with
    | [] => [l]
    | x :: t => match N.compare l x with Lt => l :: ls | Eq => ls | Gt => x :: insert_label l t end
    end.
  (* query_to_labels_map.entry(point_label).or_insert((point, set)).1.insert(label) *)
  Fixpoint insert_group (pl : N) (pt : point) (l : N) (m : list (N * (point * list N))) : list (N * (point * list N)) :=
    match m with
    | [] => [(pl, (pt, [l]))]
    | (k, (p0, ls)) :: t =>
      match N.compare pl k with
      | Lt => (pl, (pt, [l])) :: m
      | Eq => (k, (p0, insert_label l ls)) :: t
      | Gt => (k, (p0, ls)) :: insert_group pl pt l t
      end
    end.
  Definition groups (qs : list query) : list (N * (point * list N)) :=
    fold_left (fun m q => insert_group (fst (snd q)) (snd (snd q)) (fst q) m) qs [].

  Fixpoint lookup_lab {A} (l : N) (m : list (N * A)) : option A :=
    match m with [] => None | (k, a) :: t => if N.eqb k l then Some a else lookup_lab l t end.
  (* the map built by collect(): a later entry with the same label replaces an earlier one *)
  Definition label_map {A} (l : list (N * A)) : list (N * A) := rev l.

  Fixpoint lookup_eval (l : N) (pt : point) (ev : list (N * point * F)) : option F :=
    match ev with
    | [] => None
    | (k, p0, v) :: t => if N.eqb k l && pt_eqb p0 pt then Some v else lookup_eval l pt t
    end.

  (* ---- batch_check ---- *)
  Variable check : list Comm -> point -> list F -> Proof -> St -> res (bool * St).

  Fixpoint gather_v (cm : list (N * Comm)) (ev : list (N * point * F)) (pt : point) (labels : list N)
    : res (list Comm * list F) :=
    match labels with
    | [] => Ok ([], [])
    | l :: t =>
      match lookup_lab l cm with
      | None => Err EMissingPolynomial
      | Some c =>
        match lookup_eval l pt ev with
        | None => Err EMissingEvaluation
        | Some v => do r <- gather_v cm ev pt t; Ok (c :: fst r, v :: snd r)
        end
      end
    end.

  Fixpoint bcheck_loop (cm : list (N * Comm)) (ev : list (N * point * F)) (gs : list (N * (point * list N)))
           (proofs : list Proof) (st : St) (result : bool) : res (bool * St) :=
    match gs, proofs with
    | (_, (pt, labels)) :: gs', pf :: proofs' =>
      do cv <- gather_v cm ev pt labels;
      do r <- check (fst cv) pt (snd cv) pf st;
      bcheck_loop cm ev gs' proofs' (snd r) (result && fst r)
    | _, _ => Ok (result, st)
    end.

  Definition default_batch_check (cs : list (N * Comm)) (qs : list query) (ev : list (N * point * F)) (proofs : list Proof) (st : St)
    : res (bool * St) :=
    let gs := groups qs in
    if negb (length proofs =? length gs)%nat then Panic          (* assert_eq!(proofs.len(), query_to_labels_map.len()) *)
    else bcheck_loop (label_map cs) ev gs proofs st true.

  (* ---- batch_open ---- *)
  Variable open : list Item -> point -> St -> res (Proof * St).

  Fixpoint gather_p (im : list (N * Item)) (labels : list N) : res (list Item) :=
    match labels with
    | [] => Ok []
    | l :: t => match lookup_lab l im with
                | None => Err EMissingPolynomial
                | Some it => do r <- gather_p im t; Ok (it :: r)
                end
    end.
  Fixpoint bopen_loop (im : list (N * Item)) (gs : list (N * (point * list N))) (st : St) : res (list Proof * St) :=
    match gs with
    | [] => Ok ([], st)
    | (_, (pt, labels)) :: gs' =>
      do its <- gather_p im labels;
      do r <- open its pt st;
      do rest <- bopen_loop im gs' (snd r);
      Ok (fst r :: fst rest, snd rest)
    end.
  Definition default_batch_open (items : list (N * Item)) (qs : list query) (st : St) : res (list Proof * St) :=
    bopen_loop (label_map items) (groups qs) st.
End DefaultBatch.

(* ---------------- default open_combinations / check_combinations ---------------- *)
Section DefaultLC.
  Context {FO : FieldOps}.
  Variables (Comm Item Proof St : Type).
  Local Open Scope F_scope.

  Definition pt_cmp : point -> point -> comparison := cmp_list fcmp.
  Definition pkey := (N * point)%type.
  Definition pkey_cmp : pkey -> pkey -> comparison := cmp_pair N.compare pt_cmp.
  Definition q_cmp : query -> query -> comparison := cmp_pair N.compare (cmp_pair N.compare pt_cmp).

  (* BTreeMap of the linear combinations by label *)
  Definition lcs_map (lcs : list (N * lc)) : list (N * lc) := of_list N.compare lcs.

  (* lc_query_set_to_poly_query_set: the queries of the equations, spread over the polynomials they mention (a BTreeSet) *)
  Definition lc_qs_to_poly_qs (lcm : list (N * lc)) (qs : list query) : list query :=
    map fst
      (fold_left (fun acc q =>
                    match OrdMap.lookup N.compare (fst q) lcm with
                    | None => acc
                    | Some terms =>
                      fold_left (fun a t => match snd t with TPoly l => insert q_cmp (l, snd q) tt a | TOne => a end) terms acc
                    end) qs []).

  (* the (polynomial, point) keys in BTreeSet order *)
  Definition poly_point_keys (pqs : list query) : list pkey :=
    map fst (fold_left (fun acc q => insert pkey_cmp (fst q, snd (snd q)) tt acc) pqs []).

  Fixpoint lookup_pk (k : pkey) (m : list (pkey * F)) : option F :=
    match m with [] => None | (k', v) :: t => match pkey_cmp k k' with Eq => Some v | _ => lookup_pk k t end end.

  (* value of a combination from the transmitted polynomial evaluations *)
  Fixpoint lc_rhs (pev : list (pkey * F)) (pt : point) (terms : lc) (acc : F) : res F :=
    match terms with
    | [] => Ok acc
    | (coeff, TOne) :: t => lc_rhs pev pt t (acc + coeff * 1)
    | (coeff, TPoly l) :: t =>
      match lookup_pk (l, pt) pev with
      | None => Err EMissingEvaluation
      | Some e => lc_rhs pev pt t (acc + coeff * e)
      end
    end.

  (* the loop over the equation queries: None = all claims hold; Some r = the early result *)
  Fixpoint eqn_loop (lcm : list (N * lc)) (pev eqn_ev : list (pkey * F)) (qs : list query) : option (res bool) :=
    match qs with
    | [] => None
    | (lab, (_, pt)) :: t =>
      match OrdMap.lookup N.compare lab lcm with
      | None => eqn_loop lcm pev eqn_ev t
      | Some terms =>
        match lookup_pk (lab, pt) eqn_ev with
        | None => Some (Err EMissingEvaluation)
        | Some claimed =>
          match lc_rhs pev pt terms 0 with
          | Ok actual => if feqb claimed actual then eqn_loop lcm pev eqn_ev t else Some (Ok false)
          | Err e => Some (Err e)
          | Panic => Some Panic
          end
        end
      end
    end.

  Variable check : list Comm -> point -> list F -> Proof -> St -> res (bool * St).

  (* eqn_qs: the equation query set in set order; eqn_ev: the claimed values keyed by (equation label, point);
     evals: the polynomial evaluations the prover sent (None: unwrap aborts) *)
  Definition default_check_combinations (lcs : list (N * lc)) (cs : list (N * Comm)) (eqn_qs : list query)
             (eqn_ev : list (pkey * F)) (proofs : list Proof) (evals : option (list F)) (st : St) : res (bool * St) :=
    let lcm := lcs_map lcs in
    let pqs := lc_qs_to_poly_qs lcm eqn_qs in
    match evals with
    | None => Panic
    | Some evs =>
      let pev := combine (poly_point_keys pqs) evs in
      match eqn_loop lcm pev eqn_ev eqn_qs with
      | Some (Ok b) => Ok (b, st)
      | Some (Err e) => Err e
      | Some Panic => Panic
      | None =>
        default_batch_check Comm Proof St check cs pqs (map (fun kv => (fst (fst kv), snd (fst kv), snd kv)) pev) proofs st
      end
    end.

  Variable open : list Item -> point -> St -> res (Proof * St).
  Variable eval_item : Item -> point -> F.

  (* evaluate_query_set: every queried polynomial must be among the items (expect) *)
  Fixpoint evaluate_qs (im : list (N * Item)) (pqs : list query) (acc : list (pkey * F)) : res (list (pkey * F)) :=
    match pqs with
    | [] => Ok acc
    | (lab, (_, pt)) :: t =>
      match lookup_lab lab im with
      | None => Panic
      | Some it => evaluate_qs im t (insert pkey_cmp (lab, pt) (eval_item it pt) acc)
      end
    end.

  Definition default_open_combinations (lcs : list (N * lc)) (items : list (N * Item)) (eqn_qs : list query) (st : St)
    : res (list Proof * list F * St) :=
    let pqs := lc_qs_to_poly_qs (lcs_map lcs) eqn_qs in
    do pev <- evaluate_qs (label_map items) pqs [];
    do r <- default_batch_open Item Proof St open items pqs st;
    Ok (fst r, map snd pev, snd r).
End DefaultLC.
