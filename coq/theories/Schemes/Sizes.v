(* C19: closed-form serialized sizes of commitments and opening proofs as functions of the
   scheme parameters, the matrix dimensions of the code-based schemes (compute_dimensions), and
   the comparison of the chosen shape against every power-of-two row count. *)
From Coq Require Import NArith List Bool.
From PC Require Import Base.Result Schemes.CalcT.
Import ListNotations.
Local Open Scope N_scope.

Definition sz_opt (present : bool) (k : N) : N := 1 + (if present then k else 0).
Definition sz_vec (n k : N) : N := 8 + n * k.

Section Sizes.
  Variables (g1 g2 f : N).      (* byte sizes of a G1 / G2 point and of a scalar in the chosen mode *)

  (* pairing-based univariate schemes: constant *)
  Definition kzg_commitment_size : N := g1.
  Definition marlin_commitment_size (bound : bool) : N := g1 + sz_opt bound g1.
  Definition kzg_proof_size (hiding : bool) : N := g1 + sz_opt hiding f.
  Definition stream_commitment_size : N := g1.
  Definition stream_proof_size : N := g1.
  (* one group element per variable *)
  Definition pst13_proof_size (nv : N) (hiding : bool) : N := sz_vec nv g1 + sz_opt hiding f.
  Definition mlpc_commitment_size : N := 8 + g1.
  Definition mlpc_proof_size (nv : N) : N := sz_vec nv g2.
  (* two group elements per halving round *)
  Definition ipa_commitment_size (bound : bool) : N := g1 + sz_opt bound g1.
  Definition ipa_proof_size (rounds : N) (hiding : bool) : N :=
    sz_vec rounds g1 + sz_vec rounds g1 + g1 + f + sz_opt hiding g1 + sz_opt hiding f.
  Definition ipa_rounds (supported_degree : N) : N := N.log2_up (supported_degree + 1).
  (* square root *)
  Definition hyrax_dim (nv : N) : N := 2 ^ (nv / 2).
  Definition hyrax_commitment_size (nv : N) : N := sz_vec (hyrax_dim nv) g1.
  Definition hyrax_proof_size (nv : N) : N := 3 * g1 + sz_vec (hyrax_dim nv) f + 3 * f.

  (* linear-code schemes; d = digest length in bytes *)
  Definition merkle_path_size (d depth : N) : N := (8 + d) + sz_vec depth (8 + d) + 8.
  Definition lincode_commitment_size (d : N) : N := 24 + (8 + d).
  Definition lincode_proof_size (d n_rows n_cols t depth : N) (wf : bool) : N :=
    sz_vec t (merkle_path_size d depth) + sz_vec n_cols f + sz_vec t (sz_vec n_rows f)
    + sz_opt wf (sz_vec n_cols f).
End Sizes.

(* ---------------- compute_dimensions ---------------- *)
Definition ceil_divN (a b : N) : N := (a + b - 1) / b.
Definition sqrt_ceil (n : N) : N := let s := N.sqrt n in if s * s =? n then s else s + 1.
(* ark_std::log2: ceil(log2 x), 0 for x <= 1 *)
Definition log2c (x : N) : N := N.log2_up x.
(* rows = 2^ceil(log2(ceil(sqrt(ceil(2N/t))))), columns = ceil(N / rows) *)
Definition dims_of (t poly_len : N) : N * N :=
  let n := 2 ^ log2c (sqrt_ceil (ceil_divN (2 * poly_len) t)) in (n, ceil_divN poly_len n).

(* Merkle tree over the n_ext_cols column hashes padded to a power of two: authentication path without
   the leaf level and the root *)
Definition next_pow2 (x : N) : N := 2 ^ log2c x.
Definition path_depth (n_ext_cols : N) : N := log2c (next_pow2 n_ext_cols) - 1.

Section Ligero.
  Variables (lam rho_inv fsize : N) (fuel : nat).
  (* LigeroPCParams: distance (rho_inv - 1, rho_inv); t computed first for the polynomial length, then for the codeword *)
  Definition lig_t (codeword_len : N) : option N :=
    match calc_t lam (rho_inv - 1) rho_inv codeword_len fsize fuel with
    | Some (Ok t) => Some t
    | _ => None
    end.
  (* (n_rows, n_cols, n_ext_cols, t) chosen by the library for a polynomial of poly_len coefficients *)
  Definition lig_shape (poly_len : N) : option (N * N * N * N) :=
    match lig_t poly_len with
    | None => None
    | Some t0 => let '(n, m) := dims_of t0 poly_len in
                 let m_ext := next_pow2 (m * rho_inv) in   (* smallest FFT domain holding m * rho_inv points *)
                 match lig_t m_ext with
                 | Some t => Some (n, m, m_ext, t)
                 | None => None
                 end
    end.
  (* the same for an arbitrary row count *)
  Definition lig_shape_rows (poly_len n : N) : option (N * N * N * N) :=
    let m := ceil_divN poly_len n in
    let m_ext := next_pow2 (m * rho_inv) in   (* smallest FFT domain holding m * rho_inv points *)
    match lig_t m_ext with
    | Some t => Some (n, m, m_ext, t)
    | None => None
    end.
  Definition shape_size (f d : N) (wf : bool) (sh : N * N * N * N) : N :=
    let '(n, m, m_ext, t) := sh in lincode_proof_size f d n m t (path_depth m_ext) wf.
  Definition uncapped (sh : N * N * N * N) : bool := let '(_, _, m_ext, t) := sh in t <? m_ext.

  (* minimum of the modelled size over the power-of-two row counts 2^0 .. 2^kmax with t < codeword length *)
  Fixpoint best_rows (f d : N) (wf : bool) (poly_len : N) (k : nat) : option N :=
    let cur := match lig_shape_rows poly_len (2 ^ N.of_nat k) with
               | Some sh => if uncapped sh then Some (shape_size f d wf sh) else None
               | None => None
               end in
    match k with
    | O => cur
    | S k' => match cur, best_rows f d wf poly_len k' with
              | Some a, Some b => Some (N.min a b)
              | Some a, None => Some a
              | None, r => r
              end
    end.
  (* the chosen shape is within 4x of the best one (only stated where the chosen shape is uncapped) *)
  Definition within_4x (f d : N) (wf : bool) (poly_len : N) : bool :=
    match lig_shape poly_len with
    | None => false
    | Some sh =>
      if uncapped sh then
        match best_rows f d wf poly_len (N.to_nat (log2c poly_len) + 1) with
        | Some b => shape_size f d wf sh <=? 4 * b
        | None => false
        end
      else true
    end.
End Ligero.
