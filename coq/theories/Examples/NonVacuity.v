(* Non-vacuity: the premises of the main end-to-end theorems are met by concrete, non-trivial inputs.  The field is the prime
   field with seven elements (Base/F7Field.v), every premise is established by evaluation (vm_compute) of the model's executable definitions, one
   after the other, each on the outputs of the one before - so the implications proved in Proofs/ are about runs that exist.
   These are examples, not theorems about all inputs; the theorems are in Proofs/ and props/. *)
From Coq Require Import List Arith NArith Bool.
From PC Require Import Base.Field Base.F7Field Base.Result Base.Poly Base.OrdMap Schemes.KZG10 Schemes.LC Schemes.Marlin Schemes.Sonic
     Schemes.IPA Schemes.DefaultBatch Schemes.IPABatch Proofs.MarlinComplete Schemes.PST13 Schemes.PST13H Schemes.Hyrax Schemes.CalcT Schemes.Ligero.
Import ListNotations.

Local Existing Instance F7Ops.
Local Existing Instance F7Laws.

Ltac run := vm_compute; reflexivity.
Ltac nonzero := let H := fresh in intro H; vm_compute in H; discriminate.
Ltac steps := repeat match goal with |- _ /\ _ => split; [first [run | nonzero]|] end; first [run | nonzero].

Definition zs (l : list nat) : list (@F F7Ops) := map q7 l.

(* ---------------- KZG10: setup, commit (hiding), open ---------------- *)
Example kzg10_premises :
  exists up c r draws pf,
    setup 4 false (q7 2) (q7 3) (q7 5) (q7 8) = Ok up /\ (3 <= 4)%nat /\
    commit (powers_of up 3) (zs [1; 0; 2; 5]%nat) (Some 1%nat) (Some (zs [4; 9; 6; 8]%nat)) = Ok (c, r, draws) /\
    KZG10.open (powers_of up 3) (zs [1; 0; 2; 5]%nat) (q7 11) r = Ok pf.
Proof. do 5 eexists. split; [run|]. split; [repeat constructor|]. steps. Qed.

(* ---------------- Sonic: setup, trim with an enforced bound, commit (one bounded hiding, one plain), open ---------------- *)
Definition s_lps : list LPoly :=
  [ {| lp_label := 1%N; lp_poly := zs [1; 2; 3]%nat; lp_bound := None; lp_hiding := None |};
    {| lp_label := 2%N; lp_poly := zs [4; 5]%nat; lp_bound := Some 2%nat; lp_hiding := Some 1%nat |} ].

Example sonic_premises :
  exists up ck vk csts nd pf rest,
    setup 4 true (q7 2) (q7 3) (q7 5) (q7 8) = Ok up /\ strim up 3 1 (Some [2%nat]) = Ok (ck, vk) /\ q7 2 <> f0 /\
    s_commit_all ck s_lps (Some (zs [6; 1; 8; 2; 8; 3]%nat)) = Ok (csts, nd) /\
    s_open ck (combine s_lps (map snd csts)) (q7 11) (zs [3; 4; 5; 6; 8; 8]%nat) = Ok (pf, rest).
Proof. do 7 eexists. steps. Qed.

(* ---------------- IPA: trim, commit (bounded + hiding, plain), open, and the batch and combination flows ---------------- *)
Definition i_lp1 : LPoly := {| lp_label := 1%N; lp_poly := zs [1; 2; 3]%nat; lp_bound := None; lp_hiding := None |}.
Definition i_lp2 : LPoly := {| lp_label := 2%N; lp_poly := zs [4; 5]%nat; lp_bound := Some 2%nat; lp_hiding := Some 1%nat |}.
Definition i_lp3 : LPoly := {| lp_label := 3%N; lp_poly := zs [0; 8; 0; 1]%nat; lp_bound := None; lp_hiding := Some 1%nat |}.

Example ipa_premises :
  exists d cm1 st1 n1 cm2 st2 n2 pf rest hrest nd,
    itrim 7 3 = Ok d /\
    i_commit1 d i_lp1 None = Ok (cm1, st1, n1) /\
    i_commit1 d i_lp2 (Some (zs [6; 9]%nat)) = Ok (cm2, st2, n2) /\
    Forall (fun rc : @F F7Ops => rc <> f0) (zs [2; 3; 5; 8; 9]%nat) /\
    i_open d [(i_lp1, lp_bound i_lp1, cm1, st1); (i_lp2, lp_bound i_lp2, cm2, st2)] (q7 11)
           (zs [3; 4; 5; 6; 8; 8]%nat) (zs [2; 3; 5; 8; 9]%nat) (Some (zs [1; 2; 3; 4; 5; 6; 8]%nat)) = Ok (pf, rest, hrest, nd).
Proof.
  do 11 eexists. split; [run|]. split; [run|]. split; [run|].
  split; [repeat (constructor; [nonzero|]); constructor|]. run.
Qed.

Example ipa_batch_and_combinations_premises :
  exists d cm1 st1 n1 cm3 st3 n3 pfs st' pfs2 st2',
    itrim 7 3 = Ok d /\
    i_commit1 d i_lp1 None = Ok (cm1, st1, n1) /\
    i_commit1 d i_lp3 (Some (zs [6]%nat)) = Ok (cm3, st3, n3) /\
    (* batch_open over two points *)
    i_batch_open d [(1%N, (i_lp1, lp_bound i_lp1, cm1, st1)); (3%N, (i_lp3, lp_bound i_lp3, cm3, st3))]
                 [(1%N, (10%N, [q7 11])); (3%N, (10%N, [q7 11])); (1%N, (20%N, [q7 13]))]
                 (zs [3; 4; 5; 6; 8; 8; 9; 10; 11; 12]%nat, zs [2; 3; 5; 8; 9; 11; 13; 17; 19; 23]%nat, Some (zs [1; 2; 3; 4; 5; 6; 8; 8; 9; 10; 11; 12]%nat))
      = Ok (pfs, st') /\
    (* open_combinations: 2*p1 + 3*p3 + 5 under label 7 *)
    i_open_combinations d [(7%N, [(q7 2, TPoly 1%N); (q7 3, TPoly 3%N); (q7 5, TOne)])]
                        [(i_lp1, st1, (cm1, lp_bound i_lp1)); (i_lp3, st3, (cm3, lp_bound i_lp3))]
                        [(7%N, (10%N, [q7 11]))]
                        (zs [3; 4; 5; 6; 8; 8]%nat, zs [2; 3; 5; 8; 9; 11]%nat, Some (zs [1; 2; 3; 4; 5; 6; 8; 8]%nat))
      = Ok (pfs2, st2').
Proof. do 11 eexists. steps. Qed.

(* ---------------- Marlin: setup, trim with enforced bounds, commit (bounded + hiding, plain), open ---------------- *)
Example marlin_premises :
  exists up ck vk csts nd pf rest,
    setup 5 false (q7 3) (q7 2) (q7 5) (q7 4) = Ok up /\ mtrim up 4 1 (Some [2%nat; 3%nat]) = Ok (ck, vk) /\
    commit_all ck s_lps (Some (zs [6; 1; 4; 2; 5; 3]%nat)) = Ok (csts, nd) /\
    mopen ck (with_states s_lps csts) (q7 6) (zs [3; 4; 5; 6; 1; 2]%nat) = Ok (pf, rest).
Proof. do 7 eexists. steps. Qed.

(* ---------------- Marlin-PST13 (free-module view): commit (hiding), open at a point ---------------- *)
Definition p_poly1 : mpoly := [(q7 3, []); (q7 2, [(0%nat, 1%nat)]); (q7 5, [(0%nat, 1%nat); (1%nat, 2%nat)])].
Definition p_poly2 : mpoly := [(q7 1, [(1%nat, 1%nat)]); (q7 4, [(0%nat, 2%nat)])].
Example pst13_premises :
  exists c1 b1 n1 c2 b2 n2 pf rest,
    ph_commit1 2 3 (zs [2; 3]%nat) p_poly1 (Some 1%nat) (Some (zs [1; 2; 3; 4; 5; 6; 1; 2]%nat)) = Ok (c1, b1, n1) /\
    ph_commit1 2 3 (zs [2; 3]%nat) p_poly2 None None = Ok (c2, b2, n2) /\
    ph_open 2 3 (zs [2; 3]%nat) [(p_poly1, b1); (p_poly2, b2)] (zs [4; 5]%nat) (zs [3; 6; 2]%nat) = Ok (pf, rest).
Proof. do 8 eexists. steps. Qed.

(* ---------------- Hyrax: commit a 2-variable table, open at a point ---------------- *)
Example hyrax_premises :
  exists rows st nd pf nd2,
    (1 <= 2)%nat /\ h_commit1 2 2 (zs [1; 2; 3; 4]%nat) (zs [5; 6; 1; 2]%nat) = Ok (rows, st, nd) /\
    2%nat = (2 ^ (2 / 2))%nat /\
    h_open1 2 (zs [3; 5]%nat) st (zs [1; 2; 3; 4; 5; 6; 1; 2]%nat) (q7 4) = Ok (pf, nd2).
Proof. do 5 eexists. split; [repeat constructor|]. split; [run|]. split; [reflexivity|]. run. Qed.

(* ---------------- Ligero (univariate): a 2 x 2 coefficient matrix, Reed-Solomon over the six sixth roots of unity (omega = 3) ---- *)
Example ligero_premises :
  exists pf,
    Forall (fun r : list (@F F7Ops) => (length r <= 2)%nat) (lig_matrix 2 2 (zs [1; 2; 3; 4]%nat)) /\
    l_open true 2 2 6 (q7 3) (lig_matrix 2 2 (zs [1; 2; 3; 4]%nat)) (q7 5) (zs [2; 6]%nat) [0%nat; 3%nat; 5%nat] = Ok pf.
Proof. eexists. split; [vm_compute; repeat constructor|]. run. Qed.
