(* C13 - linear-code proofs carry the column openings their security level needs.
   Statements only. *)
From Coq Require Import NArith List.
From PC Require Import Base.Field Base.Result Base.Poly Schemes.CalcT Proofs.CalcTFacts.
Import ListNotations.
Local Open Scope N_scope.

(* calculate_t returns min(t, n) where t is THE least count at which
   2*(1 - d/2)^t + n/|F| <= 2^-lambda holds (exact rational arithmetic, every lambda, distance,
   codeword length and field size) *)
Theorem C13_calc_t_is_least :
  forall lam d0 d1 n fsize fuel r,
    calc_t lam d0 d1 n fsize fuel = Some (Ok r) ->
    exists t, r = N.min t n /\ bound_holds lam d0 d1 n fsize t = true /\
              (forall t', t' < t -> bound_holds lam d0 d1 n fsize t' = false) /\
              r <= n /\ infeasible lam n fsize = false /\ bad_distance d0 d1 = false.
Proof. exact calc_t_spec. Qed.
Print Assumptions C13_calc_t_is_least.

(* the bound keeps holding for every larger t: "least" = "threshold" *)
Theorem C13_bound_monotone :
  forall lam d0 d1 n fsize t t',
    bound_holds lam d0 d1 n fsize t = true -> t <= t' -> bound_holds lam d0 d1 n fsize t' = true.
Proof. exact bound_holds_from. Qed.
Print Assumptions C13_bound_monotone.

(* unusable parameter combinations are errors, and rightly so: no t exists *)
Theorem C13_calc_t_errors :
  forall lam d0 d1 n fsize fuel,
    (infeasible lam n fsize = true \/ bad_distance d0 d1 = true) ->
    calc_t lam d0 d1 n fsize fuel = Some (Err EInvalidParameters).
Proof. exact calc_t_errors. Qed.
Print Assumptions C13_calc_t_errors.

Theorem C13_infeasible_means_no_t :
  forall lam d0 d1 n fsize,
    infeasible lam n fsize = true -> 0 < ca d0 d1 -> 0 < fsize ->
    forall t, bound_holds lam d0 d1 n fsize t = false.
Proof. exact infeasible_no_t. Qed.
Print Assumptions C13_infeasible_means_no_t.

(* positions derived from the transcript lie inside the codeword, one per squeeze *)
Theorem C13_indices_in_range :
  forall n sq l, indices_of n sq = Ok l -> Forall (fun i => i < n) l /\ length l = length sq.
Proof. exact indices_in_range. Qed.
Print Assumptions C13_indices_in_range.

Theorem C13_index_fold_no_overflow :
  forall bytes, Forall (fun x => x < 256) bytes -> bytes_to_int bytes < 256 ^ N.of_nat (length bytes).
Proof. exact bytes_to_int_bound. Qed.
Print Assumptions C13_index_fold_no_overflow.

(* the Reed-Solomon row encoding is linear and has the declared length *)
Theorem C13_rs_linear :
  forall (FO : FieldOps) (FL : FieldLaws FO) omega m a b x y,
    rs_encode omega m (padd (pscale a x) (pscale b y)) = lin2 a b (rs_encode omega m x) (rs_encode omega m y).
Proof. exact @rs_linear. Qed.
Print Assumptions C13_rs_linear.

Theorem C13_rs_length :
  forall (FO : FieldOps) omega m msg, length (rs_encode omega m msg) = m.
Proof. exact @rs_length. Qed.
Print Assumptions C13_rs_length.

(* linear codes at the trait level: an honest opening authenticates exactly t columns (t = the result of calculate_t for the
   codeword length), every path intact and at a position inside the codeword; the verifier gives a verdict only on a proof that
   carries at least t columns and t paths; the derived positions are the squeezed byte strings reduced modulo the codeword length *)
From PC Require Import Base.Field Base.Result Schemes.CalcT Schemes.Ligero Schemes.LinCodeList Proofs.LinCodeListFacts.
Theorem C13_honest_opening_has_t_columns_inside_the_codeword :
  forall (FO : FieldOps) tensor wf cm rows pt tape pf rest t,
    cm_t cm = Ok t -> lc_open_one tensor wf cm rows pt tape = Ok (pf, rest) ->
    length (lf_paths pf) = t /\ length (lf_cols pf) = t /\
    Forall (fun p => (lpt_index p < cm_n_ext cm)%nat /\ lpt_intact p = true) (lf_paths pf).
Proof. exact @lc_open_one_columns. Qed.
Print Assumptions C13_honest_opening_has_t_columns_inside_the_codeword.

Theorem C13_verdict_needs_t_columns :
  forall (FO : FieldOps) tensor wf cm pt value pf tape res rest t,
    cm_t cm = Ok t -> lc_check_one tensor wf cm pt value pf tape = Ok (res, rest) ->
    (t <= length (lf_cols pf))%nat /\ (t <= length (lf_paths pf))%nat.
Proof. exact @lc_check_one_shape. Qed.
Print Assumptions C13_verdict_needs_t_columns.

Theorem C13_indices_inside_codeword :
  forall n sq idx, indices_of n sq = Ok idx -> length idx = length sq /\ Forall (fun i => (i < n)%N) idx.
Proof. exact @indices_of_spec. Qed.
Print Assumptions C13_indices_inside_codeword.

(* the width of the squeezed blocks: get_num_bytes n bytes reach every position of a codeword of length n, while a block that is
   too narrow (256^k < n) only ever yields positions below 256^k - the columns from 256^k on would never be opened *)
From PC Require Import Proofs.IndexWidth.
Theorem C13_get_num_bytes_covers : forall n : N, (n <= 256 ^ get_num_bytes n)%N.
Proof. exact get_num_bytes_covers. Qed.
Print Assumptions C13_get_num_bytes_covers.

Theorem C13_narrow_block_misses_positions :
  forall (n : N) (bytes : list N) (i : N),
    Forall (fun x => (x < 256)%N) bytes -> (256 ^ N.of_nat (length bytes) < n)%N ->
    index_of_bytes n bytes = Ok i -> (i < 256 ^ N.of_nat (length bytes))%N.
Proof. exact narrow_block_misses_positions. Qed.
Print Assumptions C13_narrow_block_misses_positions.
