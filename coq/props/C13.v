(* C13 - linear-code proofs carry the column openings their security level needs.
   Statements only. *)
From Coq Require Import NArith List.
From PC Require Import Base.Field Base.Result Base.Poly Schemes.CalcT Proofs.CalcTFacts.
Import ListNotations.
Local Open Scope N_scope.

(* calculate_t returns min(t, n) where t is THE least count at which
   2*(1 - d/2)^t + n/|F| <= 2^-lambda holds (exact rational arithmetic, every lambda, distance,
   codeword length and field size) *)
Theorem C13_calc_t_is_least :
  forall lam d0 d1 n fsize fuel r,
    calc_t lam d0 d1 n fsize fuel = Some (Ok r) ->
    exists t, r = N.min t n /\ bound_holds lam d0 d1 n fsize t = true /\
              (forall t', t' < t -> bound_holds lam d0 d1 n fsize t' = false) /\
              r <= n /\ infeasible lam n fsize = false /\ bad_distance d0 d1 = false.
Proof. exact calc_t_spec. Qed.
Print Assumptions C13_calc_t_is_least.

(* the bound keeps holding for every larger t: "least" = "threshold" *)
Theorem C13_bound_monotone :
  forall lam d0 d1 n fsize t t',
    bound_holds lam d0 d1 n fsize t = true -> t <= t' -> bound_holds lam d0 d1 n fsize t' = true.
Proof. exact bound_holds_from. Qed.
Print Assumptions C13_bound_monotone.

(* unusable parameter combinations are errors, and rightly so: no t exists *)
Theorem C13_calc_t_errors :
  forall lam d0 d1 n fsize fuel,
    (infeasible lam n fsize = true \/ bad_distance d0 d1 = true) ->
    calc_t lam d0 d1 n fsize fuel = Some (Err EInvalidParameters).
Proof. exact calc_t_errors. Qed.
Print Assumptions C13_calc_t_errors.

Theorem C13_infeasible_means_no_t :
  forall lam d0 d1 n fsize,
    infeasible lam n fsize = true -> 0 < ca d0 d1 -> 0 < fsize ->
    forall t, bound_holds lam d0 d1 n fsize t = false.
Proof. exact infeasible_no_t. Qed.
Print Assumptions C13_infeasible_means_no_t.

(* positions derived from the transcript lie inside the codeword, one per squeeze *)
Theorem C13_indices_in_range :
  forall n sq l, indices_of n sq = Ok l -> Forall (fun i => i < n) l /\ length l = length sq.
Proof. exact indices_in_range. Qed.
Print Assumptions C13_indices_in_range.

Theorem C13_index_fold_no_overflow :
  forall bytes, Forall (fun x => x < 256) bytes -> bytes_to_int bytes < 256 ^ N.of_nat (length bytes).
Proof. exact bytes_to_int_bound. Qed.
Print Assumptions C13_index_fold_no_overflow.

(* the Reed-Solomon row encoding is linear and has the declared length *)
Theorem C13_rs_linear :
  forall (FO : FieldOps) (FL : FieldLaws FO) omega m a b x y,
    rs_encode omega m (padd (pscale a x) (pscale b y)) = lin2 a b (rs_encode omega m x) (rs_encode omega m y).
Proof. exact @rs_linear. Qed.
Print Assumptions C13_rs_linear.

Theorem C13_rs_length :
  forall (FO : FieldOps) omega m msg, length (rs_encode omega m msg) = m.
Proof. exact @rs_length. Qed.
Print Assumptions C13_rs_length.
