(* C11 - prover/verifier transcripts stay in lock-step; proofs are bound to them.
   The sponge is modelled as the tape of its outputs: "same sponge state" = "same position on
   the same tape".  Statements only. *)
From Coq Require Import List Arith NArith.
From PC Require Import Base.Field Base.Result Base.Poly Schemes.KZG10 Schemes.Marlin
     Proofs.MarlinComplete Proofs.MarlinLockstep.
Import ListNotations.
Open Scope F_scope.

(* histories of any length: the verifier accepts every proof of the history and ends on exactly
   the prover's tape position *)
Theorem C11_lockstep_over_histories :
  forall (FO : FieldOps) (FL : FieldLaws FO) ck vk g gam h b D hi n m,
    KeyOK ck vk g gam h b D hi n m ->
    forall (ops : list pop) (css : list (list LComm)) chal pfs rest,
      Forall2 (op_ok ck g gam b D m) ops css ->
      prover_history ck ops chal = Ok (pfs, rest) ->
      verifier_history vk (map (fun x => vop_of (fst (fst x)) (snd (fst x)) (snd x)) (combine (combine ops css) pfs)) chal
      = Ok (true, rest) /\ length pfs = length ops.
Proof. exact @lockstep_history. Qed.
Print Assumptions C11_lockstep_over_histories.

(* one operation, with degree bounds and hiding: same remaining tape on both sides
   (the conclusion of C01_marlin_complete returns the prover's `rest`) *)
Theorem C11_single_operation_lockstep :
  forall (FO : FieldOps) (FL : FieldLaws FO) ck vk g gam h b D hi n m,
    KeyOK ck vk g gam h b D hi n m ->
    forall z items cs chal pf rest,
    Forall2 (honest ck g gam b D m) items cs ->
    mopen ck items z chal = Ok (pf, rest) ->
    (forall a r, open_loop ck z items chal oacc0 = Ok (a, r) ->
                 is_hiding (trim (oa_r a)) = false -> eval (oa_sr a) z = 0) ->
    mcheck vk cs z (map (fun it => eval (lp_poly (fst it)) z) items) pf chal = Ok (true, rest).
Proof. exact @marlin_open_check_complete. Qed.
Print Assumptions C11_single_operation_lockstep.

(* a proof verified under another challenge (different prior absorbs, proof moved to another
   position) is accepted exactly when (xi' - xi)*(C - v*G)*h = 0: never for xi' <> xi unless the
   commitment is the commitment of the constant v *)
Theorem C11_proof_bound_to_challenge :
  forall (FO : FieldOps) (FL : FieldLaws FO) vk c z v pf xi xi' rest,
    mcheck vk (plain c) z [v] pf (xi :: rest) = Ok (true, rest) ->
    (mcheck vk (plain c) z [v] pf (xi' :: rest) = Ok (true, rest) <->
     (xi' - xi) * (c - vk_g (mvk_vk vk) * v) * vk_h (mvk_vk vk) = 0).
Proof. exact @other_challenge. Qed.
Print Assumptions C11_proof_bound_to_challenge.

(* Sonic: the verifier accepts the honest proof and ends on exactly the prover's tape position *)
From PC Require Import Schemes.Sonic Proofs.SonicKeys.
Theorem C11_sonic_lockstep :
  forall (FO : FieldOps) (FL : FieldLaws FO) D beta g gam h up s sh bounds ck vk lps rng csts nd z chal pf rest,
    setup D true beta g gam h = Ok up -> strim up s sh bounds = Ok (ck, vk) -> beta <> 0 ->
    s_commit_all ck lps rng = Ok (csts, nd) ->
    s_open ck (combine lps (map snd csts)) z chal = Ok (pf, rest) ->
    s_check vk (combine (map fst csts) (map lp_bound lps)) z (map (fun lp => eval (lp_poly lp) z) lps) pf chal = Ok (true, rest).
Proof. exact @sonic_complete. Qed.
Print Assumptions C11_sonic_lockstep.

(* IPA: both the sponge tape and the hash-derived round challenges end at the same positions on both sides *)
From PC Require Import Schemes.LC Schemes.IPA Proofs.IPAFacts Proofs.IPAComplete.
Theorem C11_ipa_lockstep :
  forall (FO : FieldOps) (FL : FieldLaws FO) D s d items z chal hchal rng pf rest hrest nd,
    itrim D s = Ok d ->
    Forall (honest d) items ->
    Forall (fun rc => rc <> 0) hchal ->
    i_open d items z chal hchal rng = Ok (pf, rest, hrest, nd) ->
    i_check d (cs_of items) z (vs_of z items) pf chal hchal = Ok (true, rest, hrest).
Proof. exact @ipa_complete_trimmed. Qed.
Print Assumptions C11_ipa_lockstep.

(* linear codes (Ligero, Brakedown) on the shared transcript: prover and verifier each take, per polynomial, one field squeeze
   when the well-formedness check is on and then exactly t byte squeezes - whatever the proof and the claimed value are; the
   honest list-level and batch-level runs end on the same transcript position *)
From PC Require Import Base.OrdMap Schemes.CalcT Schemes.Ligero Schemes.DefaultBatch Proofs.DefaultBatchComplete Schemes.LinCodeList Proofs.LinCodeListFacts.
Theorem C11_lincode_verifier_consumes :
  forall (FO : FieldOps) tensor wf cm pt value pf tape res rest t,
    cm_t cm = Ok t -> lc_check_one tensor wf cm pt value pf tape = Ok (res, rest) ->
    exists r bs, tape = consumed wf r bs ++ rest /\ length bs = t.
Proof. exact @lc_check_one_consumes. Qed.
Print Assumptions C11_lincode_verifier_consumes.

Theorem C11_lincode_prover_consumes :
  forall (FO : FieldOps) tensor wf cm rows pt tape pf rest t,
    cm_t cm = Ok t -> lc_open_one tensor wf cm rows pt tape = Ok (pf, rest) ->
    exists r bs, tape = consumed wf r bs ++ rest /\ length bs = t.
Proof. exact @lc_open_one_consumes. Qed.
Print Assumptions C11_lincode_prover_consumes.

Theorem C11_lincode_batch_lockstep :
  forall (FO : FieldOps) (FL : FieldLaws FO) tensor wf items cs qs ev tape pfs rest,
    maps_agree LCm (LCm * list (list F)) R_lc (label_map items) (label_map cs) ->
    (forall pl pt labels, In (pl, (pt, labels)) (groups qs) ->
       evals_true (LCm * list (list F)) (fun it pt => lc_value tensor pt it) (label_map items) ev pt labels) ->
    default_batch_open (LCm * list (list F)) (list LProof) (list sq_ev) (lc_open_list tensor wf) items qs tape = Ok (pfs, rest) ->
    default_batch_check LCm (list LProof) (list sq_ev) (lc_check_list tensor wf) cs qs ev pfs tape = Ok (true, rest).
Proof. exact @lc_batch_complete. Qed.
Print Assumptions C11_lincode_batch_lockstep.
