(* C11 - prover/verifier transcripts stay in lock-step; proofs are bound to them.
   The sponge is modelled as the tape of its outputs: "same sponge state" = "same position on
   the same tape".  Statements only. *)
From Coq Require Import List Arith NArith.
From PC Require Import Base.Field Base.Result Base.Poly Schemes.KZG10 Schemes.Marlin
     Proofs.MarlinComplete Proofs.MarlinLockstep.
Import ListNotations.
Open Scope F_scope.

(* histories of any length: the verifier accepts every proof of the history and ends on exactly
   the prover's tape position *)
Theorem C11_lockstep_over_histories :
  forall (FO : FieldOps) (FL : FieldLaws FO) ck vk g gam h b D hi n m,
    KeyOK ck vk g gam h b D hi n m ->
    forall (ops : list pop) (css : list (list LComm)) chal pfs rest,
      Forall2 (op_ok ck g gam b D m) ops css ->
      prover_history ck ops chal = Ok (pfs, rest) ->
      verifier_history vk (map (fun x => vop_of (fst (fst x)) (snd (fst x)) (snd x)) (combine (combine ops css) pfs)) chal
      = Ok (true, rest) /\ length pfs = length ops.
Proof. exact @lockstep_history. Qed.
Print Assumptions C11_lockstep_over_histories.

(* one operation, with degree bounds and hiding: same remaining tape on both sides
   (the conclusion of C01_marlin_complete returns the prover's `rest`) *)
Theorem C11_single_operation_lockstep :
  forall (FO : FieldOps) (FL : FieldLaws FO) ck vk g gam h b D hi n m,
    KeyOK ck vk g gam h b D hi n m ->
    forall z items cs chal pf rest,
    Forall2 (honest ck g gam b D m) items cs ->
    mopen ck items z chal = Ok (pf, rest) ->
    (forall a r, open_loop ck z items chal oacc0 = Ok (a, r) ->
                 is_hiding (trim (oa_r a)) = false -> eval (oa_sr a) z = 0) ->
    mcheck vk cs z (map (fun it => eval (lp_poly (fst it)) z) items) pf chal = Ok (true, rest).
Proof. exact @marlin_open_check_complete. Qed.
Print Assumptions C11_single_operation_lockstep.

(* a proof verified under another challenge (different prior absorbs, proof moved to another
   position) is accepted exactly when (xi' - xi)*(C - v*G)*h = 0: never for xi' <> xi unless the
   commitment is the commitment of the constant v *)
Theorem C11_proof_bound_to_challenge :
  forall (FO : FieldOps) (FL : FieldLaws FO) vk c z v pf xi xi' rest,
    mcheck vk (plain c) z [v] pf (xi :: rest) = Ok (true, rest) ->
    (mcheck vk (plain c) z [v] pf (xi' :: rest) = Ok (true, rest) <->
     (xi' - xi) * (c - vk_g (mvk_vk vk) * v) * vk_h (mvk_vk vk) = 0).
Proof. exact @other_challenge. Qed.
Print Assumptions C11_proof_bound_to_challenge.
