(* C12 - keys, commitments, states and proofs survive canonical serialization.
   The byte format is the schema-directed codec of Base/Codec.v; the artefacts of the crate
   are the schemas of Schemes/Artefacts.v.  Statements only. *)
From Coq Require Import List NArith Arith.
From PC Require Import Base.Codec Schemes.Artefacts Proofs.CodecFacts.
Import ListNotations.

(* deserializing a serialization gives back the value and leaves the rest of the input untouched *)
Theorem C12_roundtrip :
  forall s, wf s = true -> forall v b rest, enc s v = Some b -> dec s (b ++ rest) = Some (v, rest).
Proof. exact dec_enc. Qed.
Print Assumptions C12_roundtrip.

(* ser(deser(ser x)) = ser x *)
Theorem C12_reserialization :
  forall s v b, wf s = true -> enc s v = Some b ->
    match dec_all s b with Some v' => enc s v' = Some b | None => False end.
Proof. exact reserialize. Qed.
Print Assumptions C12_reserialization.

(* the reported size is the number of bytes written *)
Theorem C12_size :
  forall s v b, enc s v = Some b -> size s v = Some (length b).
Proof. exact size_is_length. Qed.
Print Assumptions C12_size.

(* every proper prefix of a serialization is an error *)
Theorem C12_truncated_is_error :
  forall s, wf s = true -> forall v b p q, enc s v = Some b -> b = p ++ q -> q <> [] -> dec s p = None.
Proof. exact truncated_is_error. Qed.
Print Assumptions C12_truncated_is_error.

(* the theorems apply to every artefact of the crate, in both compression modes, on both curves *)
Theorem C12_all_artefact_schemas_well_formed :
  forallb wf (all_schemas 48 96 32) = true /\ forallb wf (all_schemas 96 192 32) = true /\
  forallb wf (all_schemas 32 32 32) = true /\ forallb wf (all_schemas 64 64 32) = true.
Proof. exact all_schemas_wf. Qed.
Print Assumptions C12_all_artefact_schemas_well_formed.

(* the decoder that is extracted and run against the library computes exactly `dec` *)
Theorem C12_executed_decoder_is_dec :
  forall s bs, dec_fast s bs = dec s bs.
Proof. exact dec_fast_eq. Qed.
Print Assumptions C12_executed_decoder_is_dec.
