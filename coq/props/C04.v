(* C04 - degree bounds are enforced by committer and verifier (Marlin, Sonic and IPA models).
   Statements only. *)
From Coq Require Import List Arith NArith.
From PC Require Import Base.Field Base.Result Base.Poly Schemes.KZG10 Schemes.Marlin
     Proofs.KZG10Facts Proofs.KZG10Binding Proofs.MarlinComplete Proofs.MarlinBounds.
Import ListNotations.
Open Scope F_scope.

(* committer: degree above the declared bound, bound not enforced by the key, bound above the
   maximum degree => error *)
Theorem C04_commit_refuses_bad_bound :
  forall (FO : FieldOps) ck lp d rng,
    lp_bound lp = Some d -> bound_admissible ck (lp_poly lp) d = false ->
    exists e, commit1 ck lp rng = Err e.
Proof. exact @commit_refuses_bad_bound. Qed.
Print Assumptions C04_commit_refuses_bad_bound.

Theorem C04_commit_refuses_degree_above_supported :
  forall (FO : FieldOps) ck lp rng,
    (length (ck_powers ck) < degree (lp_poly lp) + 1)%nat ->
    (forall d, lp_bound lp = Some d -> bound_admissible ck (lp_poly lp) d = true) ->
    commit1 ck lp rng = Err ETooManyCoefficients.
Proof. exact @commit_refuses_large. Qed.
Print Assumptions C04_commit_refuses_degree_above_supported.

(* prover: the same admission *)
Theorem C04_open_refuses_bad_bound :
  forall (FO : FieldOps) ck z lp st items chal a d,
    lp_bound lp = Some d -> mr_shifted st <> None -> bound_admissible ck (lp_poly lp) d = false ->
    exists e, open_loop ck z ((lp, st) :: items) chal a = Err e.
Proof. exact @open_refuses_bad_bound. Qed.
Print Assumptions C04_open_refuses_bad_bound.

(* trim publishes shift elements for exactly the sorted, de-duplicated enforced bounds, each
   being g*beta^(D-d) *)
Theorem C04_trim_shift_elements :
  forall (FO : FieldOps) (FL : FieldLaws FO) D beta g gamma_g h up s sh bounds ck vk d,
    setup D false beta g gamma_g h = Ok up ->
    mtrim up s sh bounds = Ok (ck, vk) ->
    get_shift_power vk d = (if nat_mem d (bounds_list ck) then Some (g * fpow beta (D - d)) else None).
Proof. exact @trim_shift_elements. Qed.
Print Assumptions C04_trim_shift_elements.

(* verifier: a commitment made under d' and presented under d is accepted exactly on the
   coincidence (g*beta^(D-d) - g*beta^(D-d')) * v * xi' * h = 0 *)
Theorem C04_relabelled_bound :
  forall (FO : FieldOps) (FL : FieldLaws FO) ck vk g gam h b D hi n m c sc d d' z v pf xi xi' rest,
    KeyOK ck vk g gam h b D hi n m ->
    nat_mem d (bounds_list ck) = true -> nat_mem d' (bounds_list ck) = true ->
    mcheck vk (one c sc d') z [v] pf (xi :: xi' :: rest) = Ok (true, rest) ->
    (mcheck vk (one c sc d) z [v] pf (xi :: xi' :: rest) = Ok (true, rest) <->
     (g * fpow b (D - d) - g * fpow b (D - d')) * v * xi' * h = 0).
Proof. exact @relabelled_bound_keys. Qed.
Print Assumptions C04_relabelled_bound.

(* a bound label without its shifted part aborts the verifier; an unknown bound is an error *)
Theorem C04_dropped_shifted_part_aborts :
  forall (FO : FieldOps) vk c d rest_cs z vs pf chal,
    mcheck vk ({| lc_label := 0%N; lc_comm := {| mc_comm := c; mc_shifted := None |}; lc_bound := Some d |} :: rest_cs)
           z vs pf chal = Panic \/ vs = [].
Proof. exact @dropped_shifted_part_aborts. Qed.
Print Assumptions C04_dropped_shifted_part_aborts.

Theorem C04_unknown_bound_is_error :
  forall (FO : FieldOps) vk c sc d rest_cs z v vs pf xi xi' chal,
    get_shift_power vk d = None ->
    mcheck vk ({| lc_label := 0%N; lc_comm := {| mc_comm := c; mc_shifted := Some sc |}; lc_bound := Some d |} :: rest_cs)
           z (v :: vs) pf (xi :: xi' :: chal) = Err EUnsupportedDegreeBound.
Proof. exact @unknown_bound_is_error. Qed.
Print Assumptions C04_unknown_bound_is_error.

(* with the correct label the honest proof is accepted: C01_marlin_complete (props/C01.v) *)

(* Sonic: a commitment presented under a degree bound the verifier key holds no shift element for makes the
   accumulation fail with UnsupportedDegreeBound (never silently treated as unbounded) *)
From PC Require Import Schemes.Sonic Proofs.SonicFacts.
Theorem C04_sonic_unsupported_bound_refused :
  forall (FO : FieldOps) vk c d cs vs cur chal lhs val nxt,
    shift_power vk (Some d) = Err EUnsupportedDegreeBound ->
    forall r, s_acc vk cs vs nxt chal lhs val = Ok r ->
    exists va rest, s_acc vk ((c, Some d) :: cs) (0 :: vs) cur (nxt :: chal) lhs val = Ok (Err EUnsupportedDegreeBound, va, rest).
Proof. exact @sonic_unsupported_bound_refused. Qed.
Print Assumptions C04_sonic_unsupported_bound_refused.

(* IPA (free-module view): the verifier's combined commitment depends on the presence of a claimed bound, not on its value;
   the bound enters through the weight z^(d-b) of the claimed value.  The same commitments and proof presented under other
   bounds are accepted only if the weighted sums of the claimed values coincide; for one commitment relabelled from b to b'
   with the same value v this forces nxt * (z^(d-b) - z^(d-b')) * v = 0 *)
From PC Require Import Schemes.LC Schemes.IPA Proofs.IPAFacts Proofs.IPABinding Proofs.IPABounds.
Theorem C04_ipa_relabelled_bounds_tie_values :
  forall (FO : FieldOps) (FL : FieldLaws FO) d cs1 cs2 z vs1 vs2 pf chal hchal r1 h1 r2 h2,
    same_shape cs1 cs2 -> length vs1 = length cs1 -> length vs2 = length cs2 ->
    Forall (fun rc => rc <> f0) (firstn 2 hchal) ->
    i_check d cs1 z vs1 pf chal hchal = Ok (true, r1, h1) ->
    i_check d cs2 z vs2 pf chal hchal = Ok (true, r2, h2) ->
    match chal with
    | c0 :: chal0 => dot (sc_weights d z cs1 c0 chal0) vs1 = dot (sc_weights d z cs2 c0 chal0) vs2
    | [] => False
    end.
Proof. exact @ipa_check_relabel. Qed.
Print Assumptions C04_ipa_relabelled_bounds_tie_values.

Theorem C04_ipa_relabelled_bound :
  forall (FO : FieldOps) (FL : FieldLaws FO) d cm b b' z v pf c0 nxt nxt2 chal2 hchal r1 h1 r2 h2,
    Forall (fun rc => rc <> f0) (firstn 2 hchal) ->
    i_check d [(cm, Some b)] z [v] pf (c0 :: nxt :: nxt2 :: chal2) hchal = Ok (true, r1, h1) ->
    i_check d [(cm, Some b')] z [v] pf (c0 :: nxt :: nxt2 :: chal2) hchal = Ok (true, r2, h2) ->
    nxt * (fpow z (d - b) - fpow z (d - b')) * v = f0.
Proof. exact @ipa_relabelled_bound. Qed.
Print Assumptions C04_ipa_relabelled_bound.

Theorem C04_ipa_commit_refuses_bad_bound :
  forall (FO : FieldOps) d lp b rng,
    lp_bound lp = Some b -> (b < degree (lp_poly lp) \/ d < b)%nat ->
    exists e, i_commit1 d lp rng = Err e.
Proof. exact @ipa_commit_refuses_bad_bound. Qed.
Print Assumptions C04_ipa_commit_refuses_bad_bound.

Theorem C04_ipa_bound_presence_mismatch_aborts :
  forall (FO : FieldOps) d z cm bound cs v vs cur nxt chal1 cc cv,
    has_bound bound <> (match ic_shifted cm with Some _ => true | None => false end) ->
    i_sc_loop d z ((cm, bound) :: cs) (v :: vs) cur (nxt :: chal1) cc cv = Panic.
Proof. exact @ipa_bound_presence_mismatch_aborts. Qed.
Print Assumptions C04_ipa_bound_presence_mismatch_aborts.

Theorem C04_ipa_bound_above_key_aborts :
  forall (FO : FieldOps) d z cm sc b cs v vs cur nxt nxt2 chal2 cc cv,
    ic_shifted cm = Some sc -> (d < b)%nat ->
    i_sc_loop d z ((cm, Some b) :: cs) (v :: vs) cur (nxt :: nxt2 :: chal2) cc cv = Panic.
Proof. exact @ipa_bound_above_key_aborts. Qed.
Print Assumptions C04_ipa_bound_above_key_aborts.

(* Sonic: the claimed bound selects the G2 shift element; the same commitment, value and proof accepted under two bounds
   force c * c0 * (sp - sp') = 0, and for several commitments the same weighted sum of commitment * shift element *)
From PC Require Import Proofs.SonicBounds.
Theorem C04_sonic_relabelled_bound :
  forall (FO : FieldOps) (FL : FieldLaws FO) vk c b b' sp sp' z v pf c0 chal0 r1 r2,
    shift_power vk b = Ok sp -> shift_power vk b' = Ok sp' ->
    s_check vk [(c, b)] z [v] pf (c0 :: chal0) = Ok (true, r1) ->
    s_check vk [(c, b')] z [v] pf (c0 :: chal0) = Ok (true, r2) ->
    c * c0 * (sp - sp') = f0.
Proof. exact @sonic_relabelled_bound. Qed.
Print Assumptions C04_sonic_relabelled_bound.

Theorem C04_sonic_relabelled_bounds :
  forall (FO : FieldOps) (FL : FieldLaws FO) vk cs1 cs2 sps1 sps2 z vs pf chal r1 r2,
    map fst cs1 = map fst cs2 ->
    length vs = length cs1 -> (length cs1 < length chal)%nat ->
    Forall2 (fun cb sp => shift_power vk (snd cb) = Ok sp) cs1 sps1 ->
    Forall2 (fun cb sp => shift_power vk (snd cb) = Ok sp) cs2 sps2 ->
    s_check vk cs1 z vs pf chal = Ok (true, r1) -> s_check vk cs2 z vs pf chal = Ok (true, r2) ->
    wval (map (fun csp => fst (fst csp) * snd csp) (combine cs1 sps1)) (hd f0 chal) (tl chal) f0
    = wval (map (fun csp => fst (fst csp) * snd csp) (combine cs2 sps2)) (hd f0 chal) (tl chal) f0.
Proof. exact @sonic_relabelled_bounds. Qed.
Print Assumptions C04_sonic_relabelled_bounds.
