(* C04 - degree bounds are enforced by committer and verifier (Marlin model; Sonic and IPA are
   covered by the correspondence/oracle half of this check until their models land).
   Statements only. *)
From Coq Require Import List Arith NArith.
From PC Require Import Base.Field Base.Result Base.Poly Schemes.KZG10 Schemes.Marlin
     Proofs.KZG10Facts Proofs.KZG10Binding Proofs.MarlinComplete Proofs.MarlinBounds.
Import ListNotations.
Open Scope F_scope.

(* committer: degree above the declared bound, bound not enforced by the key, bound above the
   maximum degree => error *)
Theorem C04_commit_refuses_bad_bound :
  forall (FO : FieldOps) ck lp d rng,
    lp_bound lp = Some d -> bound_admissible ck (lp_poly lp) d = false ->
    exists e, commit1 ck lp rng = Err e.
Proof. exact @commit_refuses_bad_bound. Qed.
Print Assumptions C04_commit_refuses_bad_bound.

Theorem C04_commit_refuses_degree_above_supported :
  forall (FO : FieldOps) ck lp rng,
    (length (ck_powers ck) < degree (lp_poly lp) + 1)%nat ->
    (forall d, lp_bound lp = Some d -> bound_admissible ck (lp_poly lp) d = true) ->
    commit1 ck lp rng = Err ETooManyCoefficients.
Proof. exact @commit_refuses_large. Qed.
Print Assumptions C04_commit_refuses_degree_above_supported.

(* prover: the same admission *)
Theorem C04_open_refuses_bad_bound :
  forall (FO : FieldOps) ck z lp st items chal a d,
    lp_bound lp = Some d -> mr_shifted st <> None -> bound_admissible ck (lp_poly lp) d = false ->
    exists e, open_loop ck z ((lp, st) :: items) chal a = Err e.
Proof. exact @open_refuses_bad_bound. Qed.
Print Assumptions C04_open_refuses_bad_bound.

(* trim publishes shift elements for exactly the sorted, de-duplicated enforced bounds, each
   being g*beta^(D-d) *)
Theorem C04_trim_shift_elements :
  forall (FO : FieldOps) (FL : FieldLaws FO) D beta g gamma_g h up s sh bounds ck vk d,
    setup D false beta g gamma_g h = Ok up ->
    mtrim up s sh bounds = Ok (ck, vk) ->
    get_shift_power vk d = (if nat_mem d (bounds_list ck) then Some (g * fpow beta (D - d)) else None).
Proof. exact @trim_shift_elements. Qed.
Print Assumptions C04_trim_shift_elements.

(* verifier: a commitment made under d' and presented under d is accepted exactly on the
   coincidence (g*beta^(D-d) - g*beta^(D-d')) * v * xi' * h = 0 *)
Theorem C04_relabelled_bound :
  forall (FO : FieldOps) (FL : FieldLaws FO) ck vk g gam h b D hi n m c sc d d' z v pf xi xi' rest,
    KeyOK ck vk g gam h b D hi n m ->
    nat_mem d (bounds_list ck) = true -> nat_mem d' (bounds_list ck) = true ->
    mcheck vk (one c sc d') z [v] pf (xi :: xi' :: rest) = Ok (true, rest) ->
    (mcheck vk (one c sc d) z [v] pf (xi :: xi' :: rest) = Ok (true, rest) <->
     (g * fpow b (D - d) - g * fpow b (D - d')) * v * xi' * h = 0).
Proof. exact @relabelled_bound_keys. Qed.
Print Assumptions C04_relabelled_bound.

(* a bound label without its shifted part aborts the verifier; an unknown bound is an error *)
Theorem C04_dropped_shifted_part_aborts :
  forall (FO : FieldOps) vk c d rest_cs z vs pf chal,
    mcheck vk ({| lc_label := 0%N; lc_comm := {| mc_comm := c; mc_shifted := None |}; lc_bound := Some d |} :: rest_cs)
           z vs pf chal = Panic \/ vs = [].
Proof. exact @dropped_shifted_part_aborts. Qed.
Print Assumptions C04_dropped_shifted_part_aborts.

Theorem C04_unknown_bound_is_error :
  forall (FO : FieldOps) vk c sc d rest_cs z v vs pf xi xi' chal,
    get_shift_power vk d = None ->
    mcheck vk ({| lc_label := 0%N; lc_comm := {| mc_comm := c; mc_shifted := Some sc |}; lc_bound := Some d |} :: rest_cs)
           z (v :: vs) pf (xi :: xi' :: chal) = Err EUnsupportedDegreeBound.
Proof. exact @unknown_bound_is_error. Qed.
Print Assumptions C04_unknown_bound_is_error.

(* with the correct label the honest proof is accepted: C01_marlin_complete (props/C01.v) *)

(* Sonic: a commitment presented under a degree bound the verifier key holds no shift element for makes the
   accumulation fail with UnsupportedDegreeBound (never silently treated as unbounded) *)
From PC Require Import Schemes.Sonic Proofs.SonicFacts.
Theorem C04_sonic_unsupported_bound_refused :
  forall (FO : FieldOps) vk c d cs vs cur chal lhs val nxt,
    shift_power vk (Some d) = Err EUnsupportedDegreeBound ->
    forall r, s_acc vk cs vs nxt chal lhs val = Ok r ->
    exists va rest, s_acc vk ((c, Some d) :: cs) (0 :: vs) cur (nxt :: chal) lhs val = Ok (Err EUnsupportedDegreeBound, va, rest).
Proof. exact @sonic_unsupported_bound_refused. Qed.
Print Assumptions C04_sonic_unsupported_bound_refused.
