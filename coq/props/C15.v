(* C15 - PST13 parameters cover every monomial; any multivariate polynomial opens.  Statements only. *)
From Coq Require Import List Arith NArith Bool.
From PC Require Import Base.Field Base.Result Base.Poly Schemes.PST13 Proofs.PST13Facts.
Import ListNotations.
Open Scope F_scope.

(* for every (num_vars, max_degree) in [1,6]^2 (the grid of the property, exhaustively) the multiset
   enumeration behind setup (Combinations iterator, variable_set, one pass per degree) terminates
   without panic and publishes exactly the exponent vectors of total degree <= max_degree: same set
   as the specification list, no duplicate, C(n+d, d) elements *)
Theorem C15_setup_monomials_grid :
  forall nv D, In (nv, D) grid -> setup_keys_ok 3000 nv D = true.
Proof. exact combos_enumerate_grid_pointwise. Qed.
Print Assumptions C15_setup_monomials_grid.

(* ... the specification list being exactly the vectors of length nv and sum <= D (unbounded) *)
Theorem C15_monomial_spec :
  forall nv D v, In v (vectors_with_sum_le nv D) <-> (length v = nv /\ (fold_right Nat.add 0 v <= D)%nat).
Proof. exact vectors_spec. Qed.
Print Assumptions C15_monomial_spec.

(* every published element is the generator scaled by its own monomial at the one trapdoor point
   (unbounded: any number of variables, any degree, any fuel) *)
Theorem C15_setup_values :
  forall (FO : FieldOps) (FL : FieldLaws FO) fuel nv D betas l, (1 <= nv)%nat ->
    setup_pairs fuel nv D betas = Ok l ->
    Forall (fun ve => fst ve = eval_exps betas (snd ve) /\ length (snd ve) = nv) l.
Proof. exact @setup_pairs_values. Qed.
Print Assumptions C15_setup_values.

(* e(G[m * x_i], H) = e(G[m], beta_i H) *)
Theorem C15_key_pairing_consistency :
  forall (FO : FieldOps) (FL : FieldLaws FO) g h betas m i, (i < length m)%nat ->
    (g * eval_exps betas (incr_at i m)) * h = (g * eval_exps betas m) * (xi betas i * h).
Proof. exact @key_pairing_consistency. Qed.
Print Assumptions C15_key_pairing_consistency.

(* trimming keeps exactly the monomials up to the supported degree *)
Theorem C15_trim_keeps_supported :
  forall supported keys v,
    In v (trim_keys supported keys) <-> (In v keys /\ (fold_right Nat.add 0 v <= supported)%nat).
Proof. exact trim_keys_spec. Qed.
Print Assumptions C15_trim_keeps_supported.

(* the quotient decomposition of the prover is exact: p(X) - p(z) = sum_i (X_i - z_i) w_i(X) for every
   sparse polynomial with arbitrary mixed monomials, every point, every number of variables *)
Theorem C15_division_exact :
  forall (FO : FieldOps) (FL : FieldLaws FO) nv p z x,
    wf_poly p -> poly_vars_in (seq 0 nv) p ->
    eval_mpoly x p - eval_mpoly z p = wsum_q x z (seq 0 nv) (divide_at_point nv p z).
Proof. exact @divide_at_point_exact. Qed.
Print Assumptions C15_division_exact.

(* consequently it opens at any point and the pairing check accepts the true value ... *)
Theorem C15_open_check_complete :
  forall (FO : FieldOps) (FL : FieldLaws FO) g h betas nv p z,
    wf_poly p -> poly_vars_in (seq 0 nv) p ->
    pst_check g h betas z (pst_commit g betas p) (eval_mpoly z p) (pst_open g betas nv p z) = true.
Proof. exact @pst_check_complete. Qed.
Print Assumptions C15_open_check_complete.

(* ... and no other value *)
Theorem C15_open_check_rejects_other_value :
  forall (FO : FieldOps) (FL : FieldLaws FO) g h betas nv p z v',
    g <> 0 -> h <> 0 -> wf_poly p -> poly_vars_in (seq 0 nv) p -> v' <> eval_mpoly z p ->
    pst_check g h betas z (pst_commit g betas p) v' (pst_open g betas nv p z) = false.
Proof. exact @pst_check_rejects_other_value. Qed.
Print Assumptions C15_open_check_rejects_other_value.

Theorem C15_one_value_per_proof :
  forall (FO : FieldOps) (FL : FieldLaws FO) g h betas z c ws v1 v2,
    g <> 0 -> h <> 0 ->
    pst_check g h betas z c v1 ws = true -> pst_check g h betas z c v2 ws = true -> v1 = v2.
Proof. exact @pst_check_one_value. Qed.
Print Assumptions C15_one_value_per_proof.

(* non-vacuity: a mixed-monomial polynomial meeting the hypotheses *)
Example C15_example_wf :
  forall (FO : FieldOps) (a b c : F),
  wf_poly [(a, [(0, 2); (2, 1)]%nat); (b, [(1, 1); (2, 3)]%nat); (c, [])] /\
  poly_vars_in (seq 0 3) [(a, [(0, 2); (2, 1)]%nat); (b, [(1, 1); (2, 3)]%nat); (c, [])].
Proof.
  intros FO a b c. split.
  - unfold wf_poly, wf_term. constructor; [|constructor; [|constructor; [|constructor]]]; cbn [snd map fst];
      (split; [repeat constructor; cbn; intuition discriminate|repeat constructor]).
  - unfold poly_vars_in, term_vars_in. constructor; [|constructor; [|constructor; [|constructor]]]; cbn;
      intros v Hv; intuition.
Qed.
