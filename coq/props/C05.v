(* C05 - batched verification is as strict as verifying every query on its own.
   Statements only. *)
From Coq Require Import List Arith NArith.
From PC Require Import Base.Field Base.Result Base.Poly Schemes.KZG10
     Proofs.KZG10Facts Proofs.KZG10Binding.
Import ListNotations.
Open Scope F_scope.

(* the batch decision is "rho-weighted sum of the individual residuals = 0" with rho_1 = 1 and
   rho_(i+1) the i-th draw of the verifier's RNG; one draw per claim *)
Theorem C05_kzg10_batch_is_weighted_sum :
  forall (FO : FieldOps) (FL : FieldLaws FO) vk cs zs vs pfs tape b n,
    batch_check vk cs zs vs pfs tape = Ok (b, n) ->
    length zs = length cs /\ length vs = length cs /\ length pfs = length cs /\ n = length cs /\
    (b = true <-> wsum (1 :: tape) (residuals vk cs zs vs pfs) = 0).
Proof. exact @batch_check_spec. Qed.
Print Assumptions C05_kzg10_batch_is_weighted_sum.

(* each residual is zero exactly when the individual check accepts *)
Theorem C05_kzg10_residual_is_individual_check :
  forall (FO : FieldOps) (FL : FieldLaws FO) vk c z v pf,
    check vk c z v pf = Ok true <-> check_residual vk c z v pf = 0.
Proof. exact @check_iff_residual. Qed.
Print Assumptions C05_kzg10_residual_is_individual_check.

(* all-true batches are accepted for every verifier randomness *)
Theorem C05_kzg10_all_true_accepts :
  forall (FO : FieldOps) (FL : FieldLaws FO) vk cs zs vs pfs tape,
    length zs = length cs -> length vs = length cs -> length pfs = length cs ->
    (length cs <= length tape)%nat ->
    Forall (fun e => e = 0) (residuals vk cs zs vs pfs) ->
    batch_check vk cs zs vs pfs tape = Ok (true, length cs).
Proof. exact @batch_all_true_accepts. Qed.
Print Assumptions C05_kzg10_all_true_accepts.

(* one false claim anywhere is rejected (its randomizer is non-zero) *)
Theorem C05_kzg10_one_false_rejects :
  forall (FO : FieldOps) (FL : FieldLaws FO) vk cs zs vs pfs tape b n j,
    batch_check vk cs zs vs pfs tape = Ok (b, n) ->
    (j < length cs)%nat -> (length cs <= S (length tape))%nat ->
    (forall i, i <> j -> nth i (residuals vk cs zs vs pfs) 0 = 0) ->
    nth j (residuals vk cs zs vs pfs) 0 <> 0 -> nth j (1 :: tape) 0 <> 0 ->
    b = false.
Proof. exact @batch_one_false_rejects. Qed.
Print Assumptions C05_kzg10_one_false_rejects.

(* missing or surplus proofs / points / values: refused, never zipped away *)
Theorem C05_kzg10_length_mismatch_refused :
  forall (FO : FieldOps) vk cs zs vs pfs tape,
    (length zs <> length cs \/ length vs <> length cs \/ length pfs <> length cs) ->
    batch_check vk cs zs vs pfs tape = Err EIncorrectInputLength.
Proof. exact @batch_check_lengths. Qed.
Print Assumptions C05_kzg10_length_mismatch_refused.

(* the trait-level batch verifier of Marlin: one proof per point label (a different count is refused), and the
   decision is KZG10's batch equation over the point-label groups, where each group contributes exactly the
   combined commitment and value that the single-point `check` of that group tests (gs_cons / group_is_single_check):
   with the theorems above, all-true query sets are accepted and a false group is rejected *)
From PC Require Import Base.OrdMap Schemes.LC Schemes.Marlin Proofs.MarlinBatch.
Theorem C05_marlin_batch_is_kzg_batch_of_groups :
  forall (FO : FieldOps) vk cs qs ev pfs chal vtape b rest dr,
    mbatch_check vk cs qs ev pfs chal vtape = Ok (b, rest, dr) ->
    exists ccs zs vs,
      groups_spec vk (comm_map cs) (evals_map ev) (group_queries qs) chal ccs zs vs rest /\
      length pfs = length zs /\
      KZG10.batch_check (mvk_vk vk) ccs zs vs pfs vtape = Ok (b, dr).
Proof. exact @mbatch_check_is_batch_of_groups. Qed.
Print Assumptions C05_marlin_batch_is_kzg_batch_of_groups.

Theorem C05_marlin_group_is_single_check :
  forall (FO : FieldOps) vk cs' vs' chal c v chal1 z pf,
    accumulate vk cs' vs' chal 0 0 = Ok (c, v, chal1) ->
    mcheck vk cs' z vs' pf chal = (do b <- KZG10.check (mvk_vk vk) c z v pf; Ok (b, chal1)).
Proof. exact @group_is_single_check. Qed.
Print Assumptions C05_marlin_group_is_single_check.

Theorem C05_marlin_batch_proof_count :
  forall (FO : FieldOps) vk cs qs ev pfs chal vtape ccs zs vs rest,
    combine_groups vk (comm_map cs) (evals_map ev) (group_queries qs) chal = Ok (ccs, zs, vs, rest) ->
    length pfs <> length zs -> mbatch_check vk cs qs ev pfs chal vtape = Panic.
Proof. exact @mbatch_check_proof_count. Qed.
Print Assumptions C05_marlin_batch_proof_count.

(* the default batch verifier of the trait (Hyrax, Ligero, Brakedown), for any scheme: its verdict is the conjunction of
   the verdicts of the scheme's own check on the groups of the query set (ascending point labels, ascending labels in a
   group), taken in order on the shared transcript; an error or abort of a group is the result; a proof list of another
   length than the number of groups aborts *)
From PC Require Import Schemes.DefaultBatch Proofs.DefaultBatchFacts.
Theorem C05_default_batch_is_and :
  forall (FO : FieldOps) (Comm Proof St : Type) (check : list Comm -> point -> list F -> Proof -> St -> res (bool * St))
         cs qs ev proofs st,
    length proofs = length (groups qs) ->
    default_batch_check Comm Proof St check cs qs ev proofs st
    = (do r <- bverdicts Comm Proof St check (label_map cs) ev (groups qs) proofs st; Ok (forallb (fun b => b) (fst r), snd r)).
Proof. exact @default_batch_is_and. Qed.
Print Assumptions C05_default_batch_is_and.

Theorem C05_default_batch_wrong_count :
  forall (FO : FieldOps) (Comm Proof St : Type) (check : list Comm -> point -> list F -> Proof -> St -> res (bool * St))
         cs qs ev proofs st,
    length proofs <> length (groups qs) -> default_batch_check Comm Proof St check cs qs ev proofs st = Panic.
Proof. exact @default_batch_wrong_count. Qed.
Print Assumptions C05_default_batch_wrong_count.

(* IPA's own batch verifier (one final key check on the random combination): for proofs whose final key is the commitment
   to the check polynomial their succinct check derives (as the prover builds them), the batch is accepted for ANY
   randomizers unless the shape check or succinct check of some group failed - i.e. exactly when every group passes *)
From PC Require Import Schemes.LC Schemes.Marlin Schemes.IPA Schemes.IPABatch Proofs.IPABatchFacts.
Theorem C05_ipa_batch_accepts_when_all_groups_pass :
  forall (FO : FieldOps) (FL : FieldLaws FO) d cs qs ev proofs chal hchal vtape b rest hrest dr,
    Forall (key_ok d) proofs ->
    i_batch_check d cs qs ev proofs chal hchal vtape = Ok (b, rest, hrest, dr) ->
    b = true \/
    exists r h n, ibc_loop d (label_map cs) ev (groups qs) proofs chal hchal vtape f1 [] [] O = Ok (None, r, h, n).
Proof. exact @ipa_batch_complete. Qed.
Print Assumptions C05_ipa_batch_accepts_when_all_groups_pass.

(* PST13's own batch verifier: the batch residual is the randomizer-weighted sum of the single-point residuals of the
   groups, so when the single relation holds for every group (combined commitment, point, combined value, proof with one
   witness per variable) the batch is accepted for ANY randomizers *)
From PC Require Import Schemes.PST13 Schemes.PST13H Proofs.PST13HFacts Schemes.PST13Batch Proofs.PST13BatchFacts.
Theorem C05_pst13_batch_accepts_when_all_groups_hold :
  forall (FO : FieldOps) (FL : FieldLaws FO) nv betas trip proofs vtape a' dr,
    Forall2 (fun t pf => length (pp_w pf) = nv /\ forall i, resid betas i t pf = f0) trip proofs ->
    pst_bloop nv trip proofs vtape f1 {| pb_c := []; pb_w := repeat [] nv; pb_g := f0; pb_gam := f0 |} O = Ok (a', dr) ->
    gvzero (gvsub (gvsub (gvsub (pb_c a') (el (pb_g a') f0)) (el f0 (pb_gam a'))) (bw_sum betas 0 (pb_w a'))) = true.
Proof. exact @pst_batch_complete. Qed.
Print Assumptions C05_pst13_batch_accepts_when_all_groups_hold.

(* Sonic's own batch verifier (one accumulate_elems per point group scaled by the group's randomizer, one check_elems): the
   value it compares with zero is the randomizer-weighted sum (first weight 1) of the values the single-point check compares
   with zero, group by group on the shared challenge tape; all-true query sets are accepted whatever the randomizers, one
   false group with a non-zero randomizer is rejected *)
From PC Require Import Schemes.Sonic Proofs.SonicBatchFacts.
Theorem C05_sonic_group_residual_is_single_check :
  forall (FO : FieldOps) vk cs z vs pf chal y rest,
    s_resid vk cs z vs pf chal = Ok (Ok y, rest) -> s_check vk cs z vs pf chal = Ok (feqb y f0, rest).
Proof. exact @s_check_is_resid. Qed.
Print Assumptions C05_sonic_group_residual_is_single_check.

Theorem C05_sonic_batch_is_weighted_sum :
  forall (FO : FieldOps) (FL : FieldLaws FO) vk cs qs ev pfs chal vtape rs rest,
    length pfs = length (group_queries qs) ->
    s_group_resids vk (s_comm_map cs) (evals_map ev) (group_queries qs) pfs chal = Ok (rs, rest) ->
    (length rs <= length vtape)%nat ->
    s_batch_check vk cs qs ev pfs chal vtape = Ok (feqb (SonicBatchFacts.wsum (f1 :: vtape) rs) f0, rest, length rs).
Proof. exact @sonic_batch_is_weighted_sum. Qed.
Print Assumptions C05_sonic_batch_is_weighted_sum.

Theorem C05_sonic_batch_all_true_accepts :
  forall (FO : FieldOps) (FL : FieldLaws FO) vk cs qs ev pfs chal vtape rs rest,
    length pfs = length (group_queries qs) ->
    s_group_resids vk (s_comm_map cs) (evals_map ev) (group_queries qs) pfs chal = Ok (rs, rest) ->
    (length rs <= length vtape)%nat ->
    Forall (fun r => feqb r f0 = true) rs ->
    s_batch_check vk cs qs ev pfs chal vtape = Ok (true, rest, length rs).
Proof. exact @sonic_batch_all_true. Qed.
Print Assumptions C05_sonic_batch_all_true_accepts.

Theorem C05_sonic_batch_one_false_rejects :
  forall (FO : FieldOps) (FL : FieldLaws FO) vk cs qs ev pfs chal vtape pre r post rest,
    length pfs = length (group_queries qs) ->
    s_group_resids vk (s_comm_map cs) (evals_map ev) (group_queries qs) pfs chal = Ok (pre ++ r :: post, rest) ->
    (length (pre ++ r :: post) <= length vtape)%nat ->
    Forall (fun x => feqb x f0 = true) pre -> Forall (fun x => feqb x f0 = true) post -> feqb r f0 = false ->
    nth (length pre) (f1 :: vtape) f0 <> f0 ->
    s_batch_check vk cs qs ev pfs chal vtape = Ok (false, rest, length (pre ++ r :: post)).
Proof. exact @sonic_batch_one_false. Qed.
Print Assumptions C05_sonic_batch_one_false_rejects.

(* IPA batch_check: the one final-key comparison of the batch is, coordinate by coordinate, the randomizer-weighted sum of the
   final-key residuals of the groups (first randomizer 1, the others from the verifier's RNG): either a group failed its succinct
   check, or the verdict is exactly "every coordinate of the weighted sum vanishes" *)
From PC Require Import Schemes.IPA Proofs.IPAFacts Schemes.DefaultBatch Schemes.IPABatch Proofs.IPABatchSum.
Theorem C05_ipa_batch_is_weighted_sum :
  forall (FO : FieldOps) (FL : FieldLaws FO) d cs qs ev proofs chal hchal vtape b rest hrest dr,
    i_batch_check d cs qs ev proofs chal hchal vtape = Ok (b, rest, hrest, dr) ->
    (exists r h n, ibc_loop d (label_map cs) ev (groups qs) proofs chal hchal vtape f1 [] [] O = Ok (None, r, h, n)) \/
    exists ws, (length ws <= length (groups qs))%nat /\ map (fun t => fst (fst t)) ws = firstn (length ws) (f1 :: vtape) /\
               (b = true <-> forall i, iwsum d i ws = f0).
Proof. exact @ipa_batch_is_weighted_sum. Qed.
Print Assumptions C05_ipa_batch_is_weighted_sum.

(* ... and one group with a wrong final key under a non-zero randomizer is enough for a non-zero sum, whatever the other
   randomizers are *)
Theorem C05_ipa_batch_one_false :
  forall (FO : FieldOps) (FL : FieldLaws FO) d i pre w chs pf post,
    (forall t, In t (pre ++ post) -> ikey_resid d i (snd (fst t)) (snd t) = f0) ->
    w <> f0 -> ikey_resid d i chs pf <> f0 ->
    iwsum d i (pre ++ (w, chs, pf) :: post) <> f0.
Proof. exact @iwsum_one_false. Qed.
Print Assumptions C05_ipa_batch_one_false.

(* Marlin-PST13 batch_check (free-module view), for proofs with one witness per variable: the verdict is exactly "every coordinate
   of the randomizer-weighted sum of the groups' single-point residuals vanishes" (first randomizer 1, the others from the
   verifier's RNG) *)
From PC Require Import Schemes.PST13 Schemes.PST13H Schemes.PST13Batch Proofs.PST13BatchFacts Proofs.PST13BatchSum.
Theorem C05_pst13_batch_is_weighted_sum :
  forall (FO : FieldOps) (FL : FieldLaws FO) nv betas cs qs ev proofs chal vtape b rest dr,
    Forall (fun pf => length (pp_w pf) = nv) proofs ->
    pst_batch_check nv betas cs qs ev proofs chal vtape = Ok (b, rest, dr) ->
    exists ws, (length ws <= length (groups qs))%nat /\ map (fun x => fst (fst x)) ws = firstn (length ws) (f1 :: vtape) /\
               (b = true <-> forall i, pwsum betas i ws = f0).
Proof. exact @pst_batch_is_weighted_sum. Qed.
Print Assumptions C05_pst13_batch_is_weighted_sum.

Theorem C05_pst13_batch_one_false :
  forall (FO : FieldOps) (FL : FieldLaws FO) betas i pre w t pf post,
    (forall x, In x (pre ++ post) -> resid betas i (snd (fst x)) (snd x) = f0) ->
    w <> f0 -> resid betas i t pf <> f0 ->
    pwsum betas i (pre ++ (w, t, pf) :: post) <> f0.
Proof. exact @pwsum_one_false. Qed.
Print Assumptions C05_pst13_batch_one_false.
