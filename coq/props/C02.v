(* C02 - a false claim with an honest proof is never accepted.
   Statements only; each closed by `exact`, followed by Print Assumptions. *)
From Coq Require Import List Arith NArith.
From PC Require Import Base.Field Base.Result Base.Poly Schemes.KZG10 Schemes.Marlin
     Proofs.KZG10Facts Proofs.KZG10Binding Proofs.MarlinFacts.
Import ListNotations.
Open Scope F_scope.

(* KZG10: a different value with the same proof is rejected (unconditional: g, h generators) *)
Theorem C02_kzg10_value :
  forall (FO : FieldOps) (FL : FieldLaws FO) vk c z v d pf,
    vk_g vk <> 0 -> vk_h vk <> 0 -> d <> 0 ->
    check vk c z v pf = Ok true -> check vk c z (v + d) pf = Ok false.
Proof. exact @kzg_value_binding'. Qed.
Print Assumptions C02_kzg10_value.

(* KZG10: another point is accepted exactly when W*h*(z'-z) = 0 (W = 0 iff constant polynomial) *)
Theorem C02_kzg10_point :
  forall (FO : FieldOps) (FL : FieldLaws FO) vk c z z' v pf,
    check vk c z v pf = Ok true ->
    (check vk c z' v pf = Ok true <-> pf_w pf * vk_h vk * (z' - z) = 0).
Proof. exact @kzg_point_change. Qed.
Print Assumptions C02_kzg10_point.

(* KZG10: another commitment element is never accepted *)
Theorem C02_kzg10_commitment :
  forall (FO : FieldOps) (FL : FieldLaws FO) vk c c' z v pf,
    vk_h vk <> 0 -> check vk c z v pf = Ok true ->
    (check vk c' z v pf = Ok true <-> c' = c).
Proof. exact @kzg_comm_change. Qed.
Print Assumptions C02_kzg10_commitment.

(* ... and commitments to different (polynomial, blinding) pairs coincide only if beta is a root
   of g*(p-q) + gamma_g*(r-s) *)
Theorem C02_kzg10_commitments_equal_iff :
  forall (FO : FieldOps) (FL : FieldLaws FO) g gamma_g beta p r q s,
    g * eval p beta + gamma_g * eval r beta = g * eval q beta + gamma_g * eval s beta <->
    g * eval (psub p q) beta + gamma_g * eval (psub r s) beta = 0.
Proof. exact @kzg_commitments_equal_iff. Qed.
Print Assumptions C02_kzg10_commitments_equal_iff.

(* Marlin, any number of polynomials with or without degree bounds, position j:
   the claim v_j + d is accepted exactly when (g*xi_j + shift_j*xi'_j)*h*d = 0 *)
Theorem C02_marlin_value_at_every_position :
  forall (FO : FieldOps) (FL : FieldLaws FO) vk cs z vs pf chal C az bz rest j d b r,
    length vs = length cs -> (j < length cs)%nat ->
    acc_lin vk cs chal = Ok (C, az, bz, rest) ->
    mcheck vk cs z vs pf chal = Ok (true, rest) ->
    mcheck vk cs z (bump vs j d) pf chal = Ok (b, r) ->
    (b = true <-> (vk_g (mvk_vk vk) * nth j az 0 + nth j bz 0) * vk_h (mvk_vk vk) * d = 0).
Proof. exact @marlin_value_change. Qed.
Print Assumptions C02_marlin_value_at_every_position.

(* multilinear PST: one proof supports one value *)
From Coq Require Import Arith List.
From PC Require Import Schemes.MLPC Proofs.MLPCFacts.
Theorem C02_multilinear_pst_one_value :
  forall (FO : FieldOps) (FL : FieldLaws FO) vk c z v1 v2 pf,
    mp_g vk <> 0 -> mp_h vk <> 0 ->
    ml_check vk c z v1 pf = Ok true -> ml_check vk c z v2 pf = Ok true -> v1 = v2.
Proof. exact @ml_check_one_value. Qed.
Print Assumptions C02_multilinear_pst_one_value.

(* Sonic: with the same commitments, point, proof and challenges two value vectors are both accepted only if their
   challenge-weighted sums coincide (a single false value changes the sum unless its challenge is zero) *)
From PC Require Import Schemes.Sonic Proofs.SonicFacts.
Theorem C02_sonic_one_combined_value :
  forall (FO : FieldOps) (FL : FieldLaws FO) vk cs z vs1 vs2 pf chal r1 r2,
    vk_g (svk_vk vk) <> 0 -> vk_h (svk_vk vk) <> 0 ->
    length vs1 = length cs -> length vs2 = length cs -> (length cs < length chal)%nat ->
    (exists sps, Forall2 (fun cb sp => shift_power vk (snd cb) = Ok sp) cs sps) ->
    s_check vk cs z vs1 pf chal = Ok (true, r1) -> s_check vk cs z vs2 pf chal = Ok (true, r2) ->
    wval vs1 (hd 0 chal) (tl chal) 0 = wval vs2 (hd 0 chal) (tl chal) 0.
Proof. exact @sonic_one_combined_value. Qed.
Print Assumptions C02_sonic_one_combined_value.

(* Hyrax: the verifier opens com_eval to the claimed value (defect d63271c, repaired): one proof, one value *)
From PC Require Import Schemes.Hyrax Proofs.HyraxFacts.
Theorem C02_hyrax_one_value :
  forall (FO : FieldOps) (FL : FieldLaws FO) keylen point rows v1 v2 pf c, (1 <= keylen)%nat ->
    h_check1 keylen point rows v1 pf c = Ok true -> h_check1 keylen point rows v2 pf c = Ok true -> v1 = v2.
Proof. exact @h_check_one_value. Qed.
Print Assumptions C02_hyrax_one_value.

(* IPA (generic-group view: h is a free generator): for fixed commitments, point, proof and challenge tapes the verifier
   accepts at most one value of the challenge-weighted combination of the claimed evaluations - whatever the proof, the
   commitments and the degree bounds are; for one commitment without a bound, at most one claimed evaluation.  The two
   hash-derived challenges that may be consumed before the rounds (hiding challenge, h-scaling challenge) are nonzero. *)
From PC Require Import Schemes.IPA Proofs.IPAFacts Proofs.IPABinding.
Theorem C02_ipa_one_combined_value :
  forall (FO : FieldOps) (FL : FieldLaws FO) d cs z vs1 vs2 pf chal hchal r1 h1 r2 h2,
    length vs1 = length cs -> length vs2 = length cs ->
    Forall (fun rc => rc <> 0) (firstn 2 hchal) ->
    i_check d cs z vs1 pf chal hchal = Ok (true, r1, h1) ->
    i_check d cs z vs2 pf chal hchal = Ok (true, r2, h2) ->
    match chal with
    | c0 :: chal0 => dot (sc_weights d z cs c0 chal0) vs1 = dot (sc_weights d z cs c0 chal0) vs2
    | [] => False
    end.
Proof. exact @ipa_check_one_combined_value. Qed.
Print Assumptions C02_ipa_one_combined_value.

Theorem C02_ipa_one_value :
  forall (FO : FieldOps) (FL : FieldLaws FO) d cm z v1 v2 pf c0 chal0 hchal r1 h1 r2 h2,
    c0 <> 0 -> Forall (fun rc => rc <> 0) (firstn 2 hchal) ->
    i_check d [(cm, None)] z [v1] pf (c0 :: chal0) hchal = Ok (true, r1, h1) ->
    i_check d [(cm, None)] z [v2] pf (c0 :: chal0) hchal = Ok (true, r2, h2) ->
    v1 = v2.
Proof. exact @ipa_check_one_value. Qed.
Print Assumptions C02_ipa_one_value.

(* PST13, trait level: for fixed commitments, point, proof and challenges at most one challenge-weighted combination of
   the claimed values is accepted, whatever the proof is (g is a free generator) *)
From PC Require Import Schemes.PST13H Proofs.PST13HFacts.
Theorem C02_pst13_one_combined_value :
  forall (FO : FieldOps) (FL : FieldLaws FO) nv betas cs z vs1 vs2 pf chal r1 r2,
    length vs1 = length cs -> length vs2 = length cs ->
    ph_check nv betas cs z vs1 pf chal = Ok (true, r1) ->
    ph_check nv betas cs z vs2 pf chal = Ok (true, r2) ->
    dot chal vs1 = dot chal vs2.
Proof. exact @ph_one_combined_value. Qed.
Print Assumptions C02_pst13_one_combined_value.

(* linear codes at the trait level: the proof determines the values - two value lists accepted for the same commitments, point,
   proof array and transcript coincide (each accepted value is <v, a> for the vector v its proof carries) *)
From PC Require Import Schemes.Ligero Schemes.LinCodeList Proofs.LinCodeListFacts.
Theorem C02_lincode_proof_determines_values :
  forall (FO : FieldOps) (FL : FieldLaws FO) tensor wf cms pt vs1 vs2 pfs tape r1 r2,
    length vs1 = length cms -> length vs2 = length cms ->
    lc_check_list tensor wf cms pt vs1 pfs tape = Ok (true, r1) ->
    lc_check_list tensor wf cms pt vs2 pfs tape = Ok (true, r2) -> vs1 = vs2.
Proof. exact @lc_check_list_values. Qed.
Print Assumptions C02_lincode_proof_determines_values.

Theorem C02_lincode_accepted_value_is_inner_product :
  forall (FO : FieldOps) (FL : FieldLaws FO) tensor wf cm pt value pf tape rest,
    lc_check_one tensor wf cm pt value pf tape = Ok (true, rest) ->
    exists a b, tensor pt (cm_n_cols cm) (cm_n_rows cm) = Ok (a, b) /\ value = ip (lf_v pf) a.
Proof. exact @lc_check_one_value. Qed.
Print Assumptions C02_lincode_accepted_value_is_inner_product.
