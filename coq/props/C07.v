(* C07 - hiding commitments and proofs are blinded with fresh, sufficient randomness.
   Structural statements (see DESIGN.md for what is not attempted).  Statements only. *)
From Coq Require Import List Arith NArith.
From PC Require Import Base.Field Base.Result Base.Poly Schemes.KZG10 Schemes.Marlin
     Proofs.MarlinComplete Proofs.Hiding.
Import ListNotations.
Open Scope F_scope.

(* hiding commitment = non-hiding commitment + blinding term under the gamma powers; the blinding
   polynomial is made of exactly the first h+2 draws of the caller's RNG (degree h+1) *)
Theorem C07_hiding_commitment_shape :
  forall (FO : FieldOps) (FL : FieldLaws FO) g c gam b n m pw p h rng cm r d,
    pw_g pw = gpowers g c b n -> pw_gamma_g pw = gpowers gam 1 b m ->
    commit pw p (Some h) rng = Ok (cm, r, d) ->
    exists tape, rng = Some tape /\
      r = trim (firstn (h + 2) tape) /\ d = (h + 2)%nat /\ (h + 2 <= length tape)%nat /\
      cm = g * c * eval p b + gam * eval r b /\
      commit pw p None None = Ok (g * c * eval p b, [], O).
Proof. exact @hiding_commitment_shape. Qed.
Print Assumptions C07_hiding_commitment_shape.

Theorem C07_nonhiding_deterministic :
  forall (FO : FieldOps) pw p rng rng' cm r d,
    commit pw p None rng = Ok (cm, r, d) -> r = [] /\ d = O /\ commit pw p None rng' = Ok (cm, [], O).
Proof. exact @nonhiding_deterministic. Qed.
Print Assumptions C07_nonhiding_deterministic.

Theorem C07_hiding_without_rng_kzg :
  forall (FO : FieldOps) pw p h, refused (commit pw p (Some h) None).
Proof. exact @hiding_without_rng_kzg. Qed.
Print Assumptions C07_hiding_without_rng_kzg.

Theorem C07_hiding_without_rng_marlin :
  forall (FO : FieldOps) ck lp h, lp_hiding lp = Some h -> refused (commit1 ck lp None).
Proof. exact @hiding_without_rng_marlin. Qed.
Print Assumptions C07_hiding_without_rng_marlin.

Theorem C07_proof_blinding_value :
  forall (FO : FieldOps) (FL : FieldLaws FO) g c gam b n m pw p z r pf,
    pw_g pw = gpowers g c b n -> pw_gamma_g pw = gpowers gam 1 b m ->
    trim r = r -> (length r <= m)%nat ->
    KZG10.open pw p z r = Ok pf ->
    pf_random_v pf = (if is_hiding r then Some (eval r z) else None) /\
    pf_w pf = g * c * eval (quot_lin (trim p) z) b + gam * eval (quot_lin r z) b.
Proof. exact @proof_blinding_value. Qed.
Print Assumptions C07_proof_blinding_value.

Theorem C07_streams_differ :
  forall (FO : FieldOps) (FL : FieldLaws FO) g c gam b p r r',
    g * c * eval p b + gam * eval r b = g * c * eval p b + gam * eval r' b <-> gam * eval (psub r r') b = 0.
Proof. exact @streams_differ. Qed.
Print Assumptions C07_streams_differ.

Theorem C07_perfect_hiding_single_commitment :
  forall (FO : FieldOps) (FL : FieldLaws FO) g c gam b p p' r,
    gam <> 0 ->
    exists r', g * c * eval p b + gam * eval r b = g * c * eval p' b + gam * eval r' b /\
               r' = padd r [g * c * (eval p b - eval p' b) / gam].
Proof. exact @perfect_hiding_single. Qed.
Print Assumptions C07_perfect_hiding_single_commitment.

Theorem C07_marlin_draws :
  forall (FO : FieldOps) ck lp rng mc mr nd,
    commit1 ck lp rng = Ok (mc, mr, nd) ->
    nd = (match lp_hiding lp with Some h => h + 2 | None => 0 end *
          match lp_bound lp with Some _ => 2 | None => 1 end)%nat /\
    (lp_hiding lp = None -> mr_rand mr = [] /\ (mr_shifted mr = None \/ mr_shifted mr = Some [])).
Proof. exact @marlin_hiding_draws. Qed.
Print Assumptions C07_marlin_draws.

(* PST13: the blinding polynomial of a hiding commitment is sampled from the caller's RNG tape - one draw for the constant
   term and one per variable and power up to hiding bound + 1 - so it has at least hiding bound + 2 coefficients, each
   its own draw; a commitment without hiding bound draws nothing; without an RNG a hiding commitment aborts *)
From PC Require Import Schemes.PST13 Schemes.PST13H Proofs.PST13HFacts Schemes.IPA.
Theorem C07_pst13_blinding_draws :
  forall (FO : FieldOps) nv s betas p hiding rng cm st n,
    ph_commit1 nv s betas p hiding rng = Ok (cm, st, n) ->
    match hiding, st with
    | Some hb, Some blind => n = length blind /\ (1 <= nv -> hb + 2 <= n)%nat
    | None, None => n = O
    | _, _ => False
    end.
Proof. exact @ph_commit1_draws. Qed.
Print Assumptions C07_pst13_blinding_draws.

Theorem C07_pst13_no_rng_aborts :
  forall (FO : FieldOps) nv s betas p hb,
    (mdeg p <= s)%nat -> vars_ok nv p = true -> ph_commit1 nv s betas p (Some hb) None = Panic.
Proof. exact @ph_commit1_no_rng. Qed.
Print Assumptions C07_pst13_no_rng_aborts.

(* Hyrax: one fresh blinder per matrix row at commit (the first dim draws of the RNG tape); dim + 3 fresh scalars per opened
   polynomial; the polynomials of one opening take consecutive, disjoint slices of the tape.  IPA: the commitment's randomness is
   what was drawn - one draw per hiding commitment, two with a degree bound, none (and zero randomness) without hiding; a hiding
   request without an RNG does not produce a commitment *)
From PC Require Import Schemes.LC Schemes.MLPC Schemes.Hyrax Schemes.IPA Proofs.HidingDraws.
Theorem C07_hyrax_commit_draws :
  forall (FO : FieldOps) keylen nv evals tape rows st k,
    h_commit1 keylen nv evals tape = Ok (rows, st, k) ->
    k = (2 ^ (nv / 2))%nat /\ hs_rand st = firstn k tape /\ length (hs_rand st) = k.
Proof. exact @hyrax_commit_draws. Qed.
Print Assumptions C07_hyrax_commit_draws.

Theorem C07_hyrax_open_draws :
  forall (FO : FieldOps) keylen point st tape c pf k,
    h_open1 keylen point st tape c = Ok (pf, k) ->
    k = (2 ^ (length point / 2) + 3)%nat /\ (k <= length tape)%nat /\ hp_reval pf = nth 0 tape f0.
Proof. exact @hyrax_open_draws. Qed.
Print Assumptions C07_hyrax_open_draws.

Theorem C07_hyrax_fresh_masks_per_polynomial :
  forall (FO : FieldOps) keylen point sts otape chal pfs ot' ch',
    h_open_loop keylen point sts otape chal = Ok (pfs, ot', ch') ->
    ot' = skipn (length sts * (2 ^ (length point / 2) + 3)) otape /\ length pfs = length sts.
Proof. exact @hyrax_open_loop_draws. Qed.
Print Assumptions C07_hyrax_fresh_masks_per_polynomial.

Theorem C07_ipa_commit_draws :
  forall (FO : FieldOps) d lp rng cm st n,
    i_commit1 d lp rng = Ok (cm, st, n) ->
    match lp_hiding lp, rng with
    | None, _ => n = O /\ ir_rand st = f0 /\ ir_shifted st = None
    | Some _, None => False
    | Some _, Some tape =>
      match lp_bound lp with
      | Some _ => n = 2%nat /\ ir_rand st = nth 0 tape f0 /\ ir_shifted st = Some (nth 1 tape f0) /\ (2 <= length tape)%nat
      | None => n = 1%nat /\ ir_rand st = nth 0 tape f0 /\ ir_shifted st = None /\ (1 <= length tape)%nat
      end
    end.
Proof. exact @ipa_commit_draws. Qed.
Print Assumptions C07_ipa_commit_draws.
