(* C09 - setup and trim produce well-formed, mutually consistent keys.  Statements only. *)
From Coq Require Import List Arith NArith.
From PC Require Import Base.Field Base.Result Base.Poly Schemes.KZG10 Schemes.Marlin
     Proofs.MarlinComplete Proofs.MarlinBounds Proofs.Refusals Proofs.SetupFacts Schemes.PST13 Proofs.PST13Facts.
Import ListNotations.
Open Scope F_scope.

(* every published power is the stated power of one trapdoor *)
Theorem C09_setup_powers :
  forall (FO : FieldOps) (FL : FieldLaws FO) D g2 beta g gamma_g h up,
    setup D g2 beta g gamma_g h = Ok up ->
    length (up_powers_of_g up) = (D + 1)%nat /\ length (up_powers_of_gamma_g up) = (D + 2)%nat /\
    (forall i, (i <= D)%nat -> nth i (up_powers_of_g up) 0 = g * fpow beta i) /\
    (forall i, (i <= D + 1)%nat -> nth i (up_powers_of_gamma_g up) 0 = gamma_g * fpow beta i) /\
    up_h up = h /\ up_beta_h up = h * beta.
Proof. exact @setup_powers. Qed.
Print Assumptions C09_setup_powers.

(* ... equivalently the pairing identities e(P_(i+1), h) = e(P_i, beta*h) hold at every index *)
Theorem C09_setup_pairing_consistent :
  forall (FO : FieldOps) (FL : FieldLaws FO) D g2 beta g gamma_g h up i,
    setup D g2 beta g gamma_g h = Ok up -> (i < D)%nat ->
    nth (S i) (up_powers_of_g up) 0 * up_h up = nth i (up_powers_of_g up) 0 * up_beta_h up /\
    nth (S i) (up_powers_of_gamma_g up) 0 * up_h up = nth i (up_powers_of_gamma_g up) 0 * up_beta_h up.
Proof. exact @setup_pairing_consistent. Qed.
Print Assumptions C09_setup_pairing_consistent.

Theorem C09_setup_negative_powers :
  forall (FO : FieldOps) (FL : FieldLaws FO) D beta g gamma_g h up i,
    setup D true beta g gamma_g h = Ok up -> beta <> 0 -> (i <= D)%nat ->
    nth i (up_neg_powers_of_h up) 0 * fpow beta i = h /\ length (up_neg_powers_of_h up) = (D + 1)%nat.
Proof. exact @setup_neg_powers. Qed.
Print Assumptions C09_setup_negative_powers.

(* trimmed keys are faithful sub-keys with truthful degree reports *)
Theorem C09_trim_is_subkey :
  forall (FO : FieldOps) (FL : FieldLaws FO) D beta g gamma_g h up s sh bounds ck vk,
    setup D false beta g gamma_g h = Ok up ->
    mtrim up s sh bounds = Ok (ck, vk) ->
    ck_powers ck = firstn (s + 1) (up_powers_of_g up) /\
    ck_gamma ck = firstn (sh + 2) (up_powers_of_gamma_g up) /\
    mvk_vk vk = vk_of up /\ mvk_supported vk = s /\ mvk_max vk = D /\ ck_max_degree ck = D /\
    ck_supported ck = s /\ (s <= D)%nat /\
    ck_bounds ck = option_map sort_dedup bounds.
Proof. exact @trim_is_subkey. Qed.
Print Assumptions C09_trim_is_subkey.

(* shift elements for exactly the sorted, de-duplicated enforced bounds (unsorted, duplicated,
   empty and absent lists alike) *)
Theorem C09_trim_shift_elements :
  forall (FO : FieldOps) (FL : FieldLaws FO) D beta g gamma_g h up s sh bounds ck vk d,
    setup D false beta g gamma_g h = Ok up ->
    mtrim up s sh bounds = Ok (ck, vk) ->
    get_shift_power vk d = (if nat_mem d (bounds_list ck) then Some (g * fpow beta (D - d)) else None).
Proof. exact @trim_shift_elements. Qed.
Print Assumptions C09_trim_shift_elements.

(* the key shape completeness (interoperation) needs: C01_marlin_keys; refusals beyond the parameters *)
Theorem C09_trim_refuses_large_degree :
  forall (FO : FieldOps) up s sh bounds,
    (max_degree up < s)%nat -> mtrim up s sh bounds = Err ETrimmingDegreeTooLarge.
Proof. exact @trim_refuses_large_degree. Qed.
Print Assumptions C09_trim_refuses_large_degree.

Theorem C09_trim_refuses_large_bound :
  forall (FO : FieldOps) up s sh bounds,
    (s <= max_degree up)%nat -> (sh + 2 <= length (up_powers_of_gamma_g up))%nat ->
    (s < last (sort_dedup bounds) O)%nat -> sort_dedup bounds <> [] ->
    mtrim up s sh (Some bounds) = Err EUnsupportedDegreeBound.
Proof. exact @trim_refuses_large_bound. Qed.
Print Assumptions C09_trim_refuses_large_bound.

(* prepared tables are successive doublings *)
Theorem C09_prepared_tables_are_doublings :
  forall (FO : FieldOps) (FL : FieldLaws FO) x n i, (i < n)%nat -> nth i (doublings x n) 0 = fpow (1 + 1) i * x.
Proof. exact @doublings_spec. Qed.
Print Assumptions C09_prepared_tables_are_doublings.

(* the multivariate parameters: every published element is g scaled by its own monomial at the one
   trapdoor point (any number of variables and degree), hence the pairing identities between
   neighbouring monomials; trimming keeps exactly the monomials up to the supported degree *)
Theorem C09_pst13_setup_values :
  forall (FO : FieldOps) (FL : FieldLaws FO) fuel nv D betas l, (1 <= nv)%nat ->
    setup_pairs fuel nv D betas = Ok l ->
    Forall (fun ve => fst ve = eval_exps betas (snd ve) /\ length (snd ve) = nv) l.
Proof. exact @setup_pairs_values. Qed.
Print Assumptions C09_pst13_setup_values.

Theorem C09_pst13_pairing_consistent :
  forall (FO : FieldOps) (FL : FieldLaws FO) g h betas m i, (i < length m)%nat ->
    (g * eval_exps betas (incr_at i m)) * h = (g * eval_exps betas m) * (xi betas i * h).
Proof. exact @key_pairing_consistency. Qed.
Print Assumptions C09_pst13_pairing_consistent.

Theorem C09_pst13_trim :
  forall supported keys v,
    In v (trim_keys supported keys) <-> (In v keys /\ (fold_right Nat.add 0 v <= supported)%nat).
Proof. exact trim_keys_spec. Qed.
Print Assumptions C09_pst13_trim.

(* multilinear PST: the parameters are the eq-tables of one trapdoor point, and a key trimmed to fewer
   variables is the key of the suffix of that point *)
From Coq Require Import Arith List.
From PC Require Import Schemes.MLPC Proofs.MLPCFacts.
Theorem C09_multilinear_trim_is_subkey :
  forall (FO : FieldOps) nv g h t p snv ck, length t = nv -> ml_setup nv g h t = Ok p -> ml_trim p snv = Ok ck ->
    let t' := skipn (nv - snv) t in
    mp_pg ck = tables_from g t' /\ mp_ph ck = tables_from h t' /\ mp_mask ck = map (fun ti => g * ti) t' /\
    mp_nv ck = snv /\ mp_g ck = g /\ mp_h ck = h /\ (snv <= nv)%nat.
Proof. exact @trim_tables. Qed.
Print Assumptions C09_multilinear_trim_is_subkey.

(* Sonic trim: plain powers, hiding powers, generators, and for every enforced bound d the shifted window starting at
   beta^(D-d) (d+1 elements), its hiding window, and the G2 shift element whose product with beta^(D-d) is h *)
From PC Require Import Schemes.Sonic Proofs.MarlinComplete Proofs.SonicKeys.
Theorem C09_sonic_trim_keys :
  forall (FO : FieldOps) (FL : FieldLaws FO) D beta g gam h up s sh bounds ck vk,
    setup D true beta g gam h = Ok up -> strim up s sh bounds = Ok (ck, vk) -> beta <> 0 ->
    sck_g ck = gpowers g 1 beta (s + 1) /\ sck_gamma ck = gpowers gam 1 beta (sh + 2) /\
    vk_g (svk_vk vk) = g * 1 /\ vk_gamma_g (svk_vk vk) = gam * 1 /\ vk_h (svk_vk vk) = h /\ vk_beta_h (svk_vk vk) = h * beta /\
    sck_max ck = D /\ sck_bounds ck = option_map sort_dedup bounds /\
    (forall d, nat_mem d (sbounds ck) = true ->
       (d <= D)%nat /\
       (exists pw c k, s_shifted_powers ck d = Ok pw /\ pw_g pw = gpowers g c beta (d + 1) /\
                       pw_gamma_g pw = gpowers gam (1 * fpow beta (D - d)) beta k /\ c = fpow beta (D - d) /\ (k <= sh + 2)%nat) /\
       (exists sp, shift_power vk (Some d) = Ok sp /\ sp * fpow beta (D - d) = h)).
Proof. exact @strim_keys. Qed.
Print Assumptions C09_sonic_trim_keys.
