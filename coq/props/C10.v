(* C10 - verifiers decide exactly the published verification relation.
   Statements only. *)
From Coq Require Import List Arith NArith.
From PC Require Import Base.Field Base.Result Base.Poly Schemes.KZG10 Schemes.Marlin
     Proofs.KZG10Facts Proofs.KZG10Binding Proofs.MarlinFacts.
Import ListNotations.
Open Scope F_scope.

(* the code's check (accumulators, negations, comparison) accepts iff
   e(C - vG - rv*gammaG, H) = e(W, betaH - zH) *)
Theorem C10_kzg10_check_iff_relation :
  forall (FO : FieldOps) (FL : FieldLaws FO) vk c z v pf,
    check vk c z v pf = Ok true <-> kzg_relation vk c z v pf.
Proof. exact @check_iff_relation. Qed.
Print Assumptions C10_kzg10_check_iff_relation.

(* honest proofs satisfy the relation *)
Theorem C10_kzg10_honest_satisfies :
  forall (FO : FieldOps) (FL : FieldLaws FO)
         D g2 beta g gamma_g h up s p z hb rng c r draws pf,
    setup D g2 beta g gamma_g h = Ok up -> (s <= D)%nat ->
    commit (powers_of up s) p hb rng = Ok (c, r, draws) ->
    open (powers_of up s) p z r = Ok pf ->
    check (vk_of up) c z (eval p z) pf = Ok true.
Proof. exact @kzg_complete. Qed.
Print Assumptions C10_kzg10_honest_satisfies.

(* every component matters: key elements *)
Theorem C10_kzg10_vk_g_matters :
  forall (FO : FieldOps) (FL : FieldLaws FO) vk c z v pf g',
    check vk c z v pf = Ok true ->
    (check {| vk_g := g'; vk_gamma_g := vk_gamma_g vk; vk_h := vk_h vk; vk_beta_h := vk_beta_h vk |} c z v pf = Ok true
     <-> (g' - vk_g vk) * v * vk_h vk = 0).
Proof. exact @kzg_vk_g_change. Qed.
Print Assumptions C10_kzg10_vk_g_matters.

Theorem C10_kzg10_vk_beta_h_matters :
  forall (FO : FieldOps) (FL : FieldLaws FO) vk c z v pf bh',
    check vk c z v pf = Ok true ->
    (check {| vk_g := vk_g vk; vk_gamma_g := vk_gamma_g vk; vk_h := vk_h vk; vk_beta_h := bh' |} c z v pf = Ok true
     <-> pf_w pf * (bh' - vk_beta_h vk) = 0).
Proof. exact @kzg_vk_beta_h_change. Qed.
Print Assumptions C10_kzg10_vk_beta_h_matters.

(* the witness element matters *)
Theorem C10_kzg10_witness_matters :
  forall (FO : FieldOps) (FL : FieldLaws FO) vk c z v w w' rv,
    check vk c z v {| pf_w := w; pf_random_v := rv |} = Ok true ->
    (check vk c z v {| pf_w := w'; pf_random_v := rv |} = Ok true <->
     (w' - w) * (vk_beta_h vk - vk_h vk * z) = 0).
Proof. exact @kzg_w_change. Qed.
Print Assumptions C10_kzg10_witness_matters.

(* Marlin: the verifier's decision is an explicit affine function of the claimed values,
   with coefficients g*xi_j + shift_j*xi'_j taken from the transcript challenges *)
Theorem C10_marlin_check_is_affine_in_values :
  forall (FO : FieldOps) (FL : FieldLaws FO) vk cs z vs pf chal C az bz rest,
    length vs = length cs -> acc_lin vk cs chal = Ok (C, az, bz, rest) ->
    forall b r, mcheck vk cs z vs pf chal = Ok (b, r) ->
                r = rest /\ (b = true <-> marlin_residual vk C az bz vs z pf = 0).
Proof. exact @mcheck_accept_iff. Qed.
Print Assumptions C10_marlin_check_is_affine_in_values.

(* Ligero: the relation the column checks decide - for the committed rows, the inner product of any vector b with the
   j-th encoded column is the j-th symbol of the encoding of the b-combination of the rows (linearity of the code) *)
From PC Require Import Schemes.CalcT Schemes.Ligero Proofs.LigeroFacts.
Theorem C10_ligero_column_relation :
  forall (FO : FieldOps) (FL : FieldLaws FO) omega n_ext n_cols rows b j,
    Forall (fun r => (length r <= n_cols)%nat) rows -> (j < n_ext)%nat ->
    ip b (col j (map (encode omega n_ext) rows)) = nth j (encode omega n_ext (rowcomb rows n_cols b)) 0.
Proof. exact @column_check_complete. Qed.
Print Assumptions C10_ligero_column_relation.

(* any encoder satisfying the column relation (every linear code does: C10_generator_matrix_column_relation) makes the
   honest opening pass the verifier's loops *)
Theorem C10_lincode_complete_from_column_relation :
  forall (FO : FieldOps) (FL : FieldLaws FO) (enc : list F -> list F) n_ext n_cols rows,
    (forall v j, (j < n_ext)%nat -> ip v (col j (map enc rows)) = nth j (enc (rowcomb rows n_cols v)) 0) ->
    forall wf b r idx pf a,
      l_open_e enc wf n_cols n_ext rows b r idx = Ok pf ->
      l_check_e enc wf n_cols (map enc rows) a b (ip (lf_v pf) a) pf r idx = Ok true.
Proof. exact @lincode_complete. Qed.
Print Assumptions C10_lincode_complete_from_column_relation.

Theorem C10_generator_matrix_column_relation :
  forall (FO : FieldOps) (FL : FieldLaws FO) G n_ext n_cols rows v j,
    Forall (fun r => length r = n_cols) rows -> (j < n_ext)%nat ->
    ip v (col j (map (mat_enc G n_ext) rows)) = nth j (mat_enc G n_ext (rowcomb rows n_cols v)) 0.
Proof. exact @mat_enc_cols. Qed.
Print Assumptions C10_generator_matrix_column_relation.

(* the loop over several polynomials accepts only if the check of every single item accepts: no position is skipped *)
Theorem C10_lincode_multi_every_item :
  forall (FO : FieldOps) wf items,
    l_check_all wf items = Ok true -> Forall (fun it => l_check_item wf it = Ok true) items.
Proof. exact @l_check_all_every_item. Qed.
Print Assumptions C10_lincode_multi_every_item.

(* the linear-code verifier accepts exactly when: the opened vector (and the well-formedness vector, when enabled) has the row
   length, every queried position carries an authentic path for that position and a column whose inner products with b (and r)
   are the symbols of the encoded vectors at that position, and the claimed value is <v, a> *)
From PC Require Import Schemes.Ligero Schemes.LinCodeList Proofs.LinCodeListFacts.
Theorem C10_lincode_accepts_iff_relation :
  forall (FO : FieldOps) (FL : FieldLaws FO) enc wf n_cols cext a b value pf r idx,
    l_check_e enc wf n_cols cext a b value pf r idx = Ok true <->
    length (lf_v pf) = n_cols /\
    (exists out,
        (if wf then match lf_wf pf with Some w => length w = n_cols /\ out = Some w | None => False end else out = None) /\
        path_loop cext (lf_cols pf) idx (lf_paths pf) = Ok tt /\
        ip_loop (match out with Some wfv => [(r, enc wfv); (b, enc (lf_v pf))] | None => [(b, enc (lf_v pf))] end)
                (lf_cols pf) idx = Ok tt) /\
    ip (lf_v pf) a = value.
Proof. exact @l_check_e_accepts_iff. Qed.
Print Assumptions C10_lincode_accepts_iff_relation.
