(* C01 - Completeness.  Only statements, each closed by `exact`, pinned by `Check`,
   followed by Print Assumptions. *)
From Coq Require Import List NArith.
From PC Require Import Base.Field Base.Result Base.Poly Schemes.KZG10 Schemes.Marlin Proofs.KZG10Facts Proofs.MarlinComplete.
Import ListNotations.

Theorem C01_kzg10_complete :
  forall (FO : FieldOps) (FL : FieldLaws FO)
         D g2 beta g gamma_g h up s p z hb rng c r draws pf,
    setup D g2 beta g gamma_g h = Ok up -> s <= D ->
    commit (powers_of up s) p hb rng = Ok (c, r, draws) ->
    open (powers_of up s) p z r = Ok pf ->
    check (vk_of up) c z (eval p z) pf = Ok true.
Proof. exact @kzg_complete. Qed.
Print Assumptions C01_kzg10_complete.

Theorem C01_kzg10_serves :
  forall (FO : FieldOps) (FL : FieldLaws FO) D g2 beta g gamma_g h up s p z,
    setup D g2 beta g gamma_g h = Ok up -> s <= D -> degree p <= s ->
    exists c pf, commit (powers_of up s) p None None = Ok (c, [], O) /\
                 open (powers_of up s) p z [] = Ok pf.
Proof. exact @kzg_serves. Qed.
Print Assumptions C01_kzg10_serves.

(* MarlinKZG10, end to end: keys from setup + trim (any supported degree, hiding bound and
   enforced-bound list), commitments from commit (any list of labelled polynomials, each with
   or without degree bound and hiding bound, any RNG tape), any selection/ordering `sel` of
   them opened at any point with any challenge tape: the verifier accepts and has consumed
   exactly the challenges the prover consumed.  The side condition excludes one algebraic
   coincidence of the code as it stands (the challenge-weighted sum of the unshifted blinding
   polynomials vanishing identically while shifted blinding is present); it is discharged
   outright by the corollary below when no shifted blinding is present. *)
Theorem C01_marlin_complete :
  forall (FO : FieldOps) (FL : FieldLaws FO)
         D beta g gamma_g h up s sh bounds ck vk lps rng csts nd sel z chal pf rest,
    setup D false beta g gamma_g h = Ok up ->
    mtrim up s sh bounds = Ok (ck, vk) ->
    commit_all ck lps rng = Ok (csts, nd) ->
    let items := map (fun i => nth i (with_states lps csts) ({| lp_label := 0%N; lp_poly := []; lp_bound := None; lp_hiding := None |}, {| mr_rand := []; mr_shifted := None |})) sel in
    let cs := map (fun i => nth i (labelled lps csts) {| lc_label := 0%N; lc_comm := {| mc_comm := f0; mc_shifted := None |}; lc_bound := None |}) sel in
    Forall (fun i => (i < length lps)%nat) sel ->
    mopen ck items z chal = Ok (pf, rest) ->
    (forall a r, open_loop ck z items chal oacc0 = Ok (a, r) ->
                 is_hiding (trim (oa_r a)) = false -> eval (oa_sr a) z = f0) ->
    mcheck vk cs z (map (fun it => eval (lp_poly (fst it)) z) items) pf chal = Ok (true, rest).
Proof. exact @marlin_complete. Qed.
Print Assumptions C01_marlin_complete.

Theorem C01_marlin_complete_unconditional :
  forall (FO : FieldOps) (FL : FieldLaws FO) ck vk g gam h b D hi n m z items cs chal pf rest,
    KeyOK ck vk g gam h b D hi n m ->
    Forall2 (honest ck g gam b D m) items cs ->
    Forall no_shifted_blinding items ->
    mopen ck items z chal = Ok (pf, rest) ->
    mcheck vk cs z (map (fun it => eval (lp_poly (fst it)) z) items) pf chal = Ok (true, rest).
Proof. exact @marlin_open_check_complete_unconditional. Qed.
Print Assumptions C01_marlin_complete_unconditional.

(* keys produced by setup + trim are of the shape the completeness theorem needs *)
Theorem C01_marlin_keys :
  forall (FO : FieldOps) (FL : FieldLaws FO) D beta g gamma_g h up s sh bounds ck vk,
    setup D false beta g gamma_g h = Ok up ->
    mtrim up s sh bounds = Ok (ck, vk) ->
    KeyOK ck vk g gamma_g h beta D (last (bounds_list ck) O) (s + 1) (sh + 2) /\
    (s <= D)%nat /\ ck_max_degree ck = D /\ ck_bounds ck = option_map sort_dedup bounds.
Proof. exact @mtrim_keyok. Qed.
Print Assumptions C01_marlin_keys.

(* multilinear PST (multilinear_pc): under every trimmed key, commit / open / check of the true value of
   every table of 2^n values at every point succeeds, and the commitment is g scaled by the multilinear
   extension at the trapdoor point *)
From Coq Require Import Arith List.
From PC Require Import Schemes.MLPC Proofs.MLPCFacts.
Theorem C01_multilinear_pst_complete :
  forall (FO : FieldOps) (FL : FieldLaws FO) nv g h t p snv ck f z,
    length t = nv -> ml_setup nv g h t = Ok p -> ml_trim p snv = Ok ck -> (1 <= snv)%nat ->
    length f = (2 ^ snv)%nat -> length z = snv ->
    exists c pf, ml_commit ck snv f = Ok c /\ ml_open ck snv f z = Ok pf /\ length pf = snv /\
                 c = g * mle_eval f (skipn (nv - snv) t) /\
                 ml_check ck c z (mle_eval f z) pf = Ok true.
Proof. exact @ml_complete. Qed.
Print Assumptions C01_multilinear_pst_complete.

Theorem C01_multilinear_division_exact :
  forall (FO : FieldOps) (FL : FieldLaws FO) t z r, length z = length t -> length r = (2 ^ length t)%nat ->
    mle_eval r t - mle_eval r z = qsum t z r.
Proof. exact @mle_division_exact. Qed.
Print Assumptions C01_multilinear_division_exact.

(* Sonic: whenever every commitment times the shift element of its degree bound is the plain commitment
   h * (g p(beta) + gamma r(beta)) - which is what trim and commit are compared against on every run, for bounded and
   unbounded, hiding and non-hiding polynomials - the single proof the prover computes for the challenge-weighted
   combination is accepted for the true values, with the verifier consuming the same number of challenges *)
From PC Require Import Schemes.Marlin Schemes.Sonic Proofs.MarlinComplete Proofs.SonicFacts.
Theorem C01_sonic_check_complete_partial :
  forall (FO : FieldOps) (FL : FieldLaws FO) g gam h beta n m ck vk (items : list (LPoly * Rand)) cs z chal pf rest,
    sck_g ck = gpowers g 1 beta n -> sck_gamma ck = gpowers gam 1 beta m ->
    vk_g (svk_vk vk) = g -> vk_gamma_g (svk_vk vk) = gam -> vk_h (svk_vk vk) = h -> vk_beta_h (svk_vk vk) = h * beta ->
    length cs = length items ->
    Forall (fun it => (length (snd it) <= m)%nat) items ->
    (exists sps, Forall2 (fun cb sp => shift_power vk (snd cb) = Ok sp) cs sps /\
                 map (fun csp => fst (fst csp) * snd csp) (combine cs sps)
                 = map (fun it => h * (g * eval (lp_poly (fst it)) beta + gam * eval (snd it) beta)) items) ->
    s_open ck items z chal = Ok (pf, rest) ->
    s_check vk cs z (map (fun it => eval (lp_poly (fst it)) z) items) pf chal = Ok (true, rest).
Proof. exact @sonic_check_complete. Qed.
Print Assumptions C01_sonic_check_complete_partial.

(* Sonic end to end: parameters from setup (any trapdoor beta <> 0 and generators), keys from trim (any supported degree,
   hiding bound and list of enforced bounds), commitments from commit (with degree bounds, with or without hiding, any
   RNG tape), the proof from open for any selection of the committed polynomials at any point with any challenges: check
   accepts the true values and leaves the challenge tape where the prover left it *)
From PC Require Import Proofs.SonicKeys.
Theorem C01_sonic_complete :
  forall (FO : FieldOps) (FL : FieldLaws FO) D beta g gam h up s sh bounds ck vk lps rng csts nd z chal pf rest,
    setup D true beta g gam h = Ok up -> strim up s sh bounds = Ok (ck, vk) -> beta <> 0 ->
    s_commit_all ck lps rng = Ok (csts, nd) ->
    s_open ck (combine lps (map snd csts)) z chal = Ok (pf, rest) ->
    s_check vk (combine (map fst csts) (map lp_bound lps)) z (map (fun lp => eval (lp_poly lp) z) lps) pf chal = Ok (true, rest).
Proof. exact @sonic_complete. Qed.
Print Assumptions C01_sonic_complete.

(* Hyrax (group elements as formal combinations over the published key): for every matrix of 2^n evaluations, every
   point, every RNG tape of committer and prover and every challenge, the proof of the dot-product argument is accepted
   for the value the prover computes, <l * M, r> with (l, r) the tensor vectors of the two halves of the point *)
From PC Require Import Schemes.Hyrax Proofs.HyraxFacts.
Theorem C01_hyrax_check_complete :
  forall (FO : FieldOps) (FL : FieldLaws FO) keylen nv evals ctape rows st ndraws point otape c pf nd,
    (1 <= keylen)%nat -> length point = nv ->
    h_commit1 keylen nv evals ctape = Ok (rows, st, ndraws) ->
    keylen = (2 ^ (nv / 2))%nat ->
    h_open1 keylen point st otape c = Ok (pf, nd) ->
    let '(l, r) := h_lr point in
    length l = keylen -> length r = keylen ->
    h_check1 keylen point rows (vdot (row_mul (hs_mat st) keylen l) r) pf c = Ok true.
Proof. exact @h_check_complete. Qed.
Print Assumptions C01_hyrax_check_complete.

(* IPA (group elements as formal combinations over the published key): the core of completeness.  Whenever the verifier's
   combined commitment describes the prover's coefficient vector over the key K and its value at z (every coordinate of
   rcomm0 is <coeffs, K> + p(z) * h'), the L/R elements, final key and final coefficient produced by the log-many
   halving rounds, for every list of nonzero round challenges, pass the succinct check's final comparison and the
   final committer key check *)
From PC Require Import Schemes.LC Schemes.IPA Proofs.IPAFacts.
Theorem C01_ipa_core_complete :
  forall (FO : FieldOps) (FL : FieldLaws FO) k hp coeffs z (K : list gv) hchal ls rs fk c hrest rcomm0,
    length coeffs = (2 ^ k)%nat -> length K = (2 ^ k)%nat ->
    Forall (fun rc => rc <> 0) (firstn k hchal) ->
    i_rounds k hp coeffs (powers z (2 ^ k)) K hchal = Ok (ls, rs, fk, c, hrest) ->
    (forall i, co i rcomm0 = dot coeffs (map (co i) K) + eval coeffs z * co i hp) ->
    exists rcomm chs, i_fold_lr ls rs hchal rcomm0 [] = Ok (rcomm, chs, hrest) /\ chs = firstn k hchal /\
      gvzero (gvsub rcomm (gvadd (gvscale c fk) (gvscale (sc_evaluate chs z * c) hp))) = true /\
      gvzero (gvsub (gmsm K (compute_coeffs chs)) fk) = true.
Proof. exact @ipa_core_complete. Qed.
Print Assumptions C01_ipa_core_complete.

(* IPA end to end: the key from trim (any supported degree), every list of labelled polynomials with or without degree
   bounds and hiding, their commitments from commit (any RNG tape), the proof from open at any point with any sponge
   challenges, any nonzero hash-derived round challenges and any RNG tape for the hiding polynomial: check accepts the
   true evaluations and leaves both challenge tapes where the prover left them.  (`honest d it`: the item's commitment
   and randomness are an output of commit for its polynomial and its degree bound is the polynomial's.) *)
From PC Require Import Proofs.IPAComplete.
Theorem C01_ipa_complete :
  forall (FO : FieldOps) (FL : FieldLaws FO) D s d items z chal hchal rng pf rest hrest nd,
    itrim D s = Ok d ->
    Forall (honest d) items ->
    Forall (fun rc => rc <> 0) hchal ->
    i_open d items z chal hchal rng = Ok (pf, rest, hrest, nd) ->
    i_check d (cs_of items) z (vs_of z items) pf chal hchal = Ok (true, rest, hrest).
Proof. exact @ipa_complete_trimmed. Qed.
Print Assumptions C01_ipa_complete.

(* Ligero (univariate; column hash and Merkle tree as an ideal vector commitment): for every coefficient matrix whose rows
   fit the row length, every point, every squeezed well-formedness vector and every list of queried positions, the
   proof built by open passes every check of the verifier for the value <v, a>; and that value is p(z) for the matrix
   the library builds from the coefficients of p (zero polynomial and zero padding included) *)
From PC Require Import Schemes.Ligero Proofs.LigeroFacts.
Theorem C01_ligero_complete :
  forall (FO : FieldOps) (FL : FieldLaws FO) wf n_rows n_cols n_ext omega rows z r idx pf,
    length rows = n_rows -> Forall (fun r => (length r <= n_cols)%nat) rows ->
    l_open wf n_rows n_cols n_ext omega rows z r idx = Ok pf ->
    l_check wf n_rows n_cols n_ext omega (map (encode omega n_ext) rows) z
            (ip (lf_v pf) (fst (tensor_uni z n_cols n_rows))) pf r idx = Ok true.
Proof. exact @ligero_complete. Qed.
Print Assumptions C01_ligero_complete.

Theorem C01_ligero_value :
  forall (FO : FieldOps) (FL : FieldLaws FO) n_rows n_cols coeffs z,
    (length coeffs <= n_rows * n_cols)%nat ->
    let rows := lig_matrix n_rows n_cols coeffs in
    let '(a, b) := tensor_uni z n_cols n_rows in
    ip (rowcomb rows n_cols b) a = eval coeffs z.
Proof. exact @ligero_value. Qed.
Print Assumptions C01_ligero_value.

(* multilinear Ligero: the same completeness with the two tensor vectors of the point, and the compared value is the
   multilinear extension of the committed evaluations at the point *)
From PC Require Import Schemes.MLPC.
Theorem C01_ligero_ml_complete :
  forall (FO : FieldOps) (FL : FieldLaws FO) wf n_cols n_ext omega rows point r idx pf a b,
    Forall (fun r => (length r <= n_cols)%nat) rows ->
    tensor_ml point n_cols = Ok (a, b) ->
    l_open_ml wf n_cols n_ext omega rows point r idx = Ok pf ->
    l_check_ml wf n_cols n_ext omega (map (encode omega n_ext) rows) point (ip (lf_v pf) a) pf r idx = Ok true.
Proof. exact @ligero_ml_complete. Qed.
Print Assumptions C01_ligero_ml_complete.

Theorem C01_ligero_ml_value :
  forall (FO : FieldOps) (FL : FieldLaws FO) n_cols (rows : list (list F)) (lpt rpt : list F),
    Forall (fun r => length r = n_cols) rows -> n_cols = (2 ^ length lpt)%nat ->
    length (concat rows) = (2 ^ length (lpt ++ rpt))%nat ->
    ip (rowcomb rows n_cols (tensor_vec rpt)) (tensor_vec lpt) = mle_eval (concat rows) (lpt ++ rpt).
Proof. exact @ligero_ml_value_mle. Qed.
Print Assumptions C01_ligero_ml_value.

(* PST13 at the level of the PolynomialCommitment trait (G1 elements as combinations of g, gamma_g and the standard
   generator): any list of polynomials with arbitrary mixed monomials in the key's variables, each with or without a
   blinding polynomial, opened together at any point with any challenges, is accepted by check for the true evaluations;
   a commitment produced by commit is the element the theorem speaks about *)
From PC Require Import Schemes.PST13 Proofs.PST13Facts Schemes.PST13H Proofs.PST13HFacts.
Theorem C01_pst13_hiding_multi_complete :
  forall (FO : FieldOps) (FL : FieldLaws FO) nv s betas items z chal pf rest,
    Forall (good nv) items -> (nv <= length z)%nat ->
    ph_open nv s betas items z chal = Ok (pf, rest) ->
    ph_check nv betas (map (comm_of betas) items) z (map (fun it => eval_mpoly z (fst it)) items) pf chal = Ok (true, rest).
Proof. exact @ph_complete. Qed.
Print Assumptions C01_pst13_hiding_multi_complete.

Theorem C01_pst13_commit_is_comm_of :
  forall (FO : FieldOps) nv s betas p hiding rng cm st n,
    ph_commit1 nv s betas p hiding rng = Ok (cm, st, n) -> cm = comm_of betas (p, st).
Proof. exact @ph_commit1_comm. Qed.
Print Assumptions C01_pst13_commit_is_comm_of.

(* a committed polynomial (any RNG tape) is an admissible item of the completeness theorem *)
Theorem C01_pst13_committed_items_good :
  forall (FO : FieldOps) nv s betas p hiding rng cm st n,
    wf_poly p -> poly_vars_in (seq 0 nv) p ->
    ph_commit1 nv s betas p hiding rng = Ok (cm, st, n) -> good nv (p, st).
Proof. exact @ph_commit1_good. Qed.
Print Assumptions C01_pst13_committed_items_good.

(* Brakedown (and any linear code given by its generator matrix, the images of the unit messages under the encoder):
   the proof built by open passes every check of the verifier for the value <v, a> *)
Theorem C01_brakedown_complete :
  forall (FO : FieldOps) (FL : FieldLaws FO) G wf n_cols n_ext rows point r idx pf a b,
    Forall (fun r => length r = n_cols) rows ->
    tensor_ml point n_cols = Ok (a, b) ->
    l_open_bd G wf n_cols n_ext rows point r idx = Ok pf ->
    l_check_bd G wf n_cols n_ext (map (mat_enc G n_ext) rows) point (ip (lf_v pf) a) pf r idx = Ok true.
Proof. exact @brakedown_complete. Qed.
Print Assumptions C01_brakedown_complete.

(* several polynomials in one linear-code opening: the verifier's loop accepts every list of honestly opened items
   (each with its own dimensions, encoder and part of the transcript) *)
Theorem C01_lincode_multi_complete :
  forall (FO : FieldOps) (FL : FieldLaws FO) wf items,
    Forall (honest_item wf) items -> l_check_all wf items = Ok true.
Proof. exact @l_check_all_complete. Qed.
Print Assumptions C01_lincode_multi_complete.

(* Hyrax, several polynomials at one point (the scheme's open / check over lists, now part of the model): commitments from
   commit, proofs from open with any RNG tape and challenges: check accepts the true values and ends on the prover's
   challenge position *)
Theorem C01_hyrax_list_complete :
  forall (FO : FieldOps) (FL : FieldLaws FO) keylen nv point srs otape chal pfs ot' ch',
    (1 <= keylen)%nat -> length point = nv -> keylen = (2 ^ (nv / 2))%nat ->
    length (fst (h_lr point)) = keylen -> length (snd (h_lr point)) = keylen ->
    Forall (committed keylen nv) srs ->
    h_open_list keylen point (map fst srs) otape chal = Ok (pfs, ot', ch') ->
    h_check_list keylen point (map snd srs)
      (map (fun sr => vdot (Hyrax.row_mul (hs_mat (fst sr)) keylen (fst (h_lr point))) (snd (h_lr point))) srs) pfs chal = Ok (true, ch').
Proof. exact @h_list_complete. Qed.
Print Assumptions C01_hyrax_list_complete.

(* the trait's default batch_open / batch_check, for ANY scheme whose own open / check are complete on one point and leave
   the shared transcript in the same state: the proofs of batch_open are accepted by batch_check for the true evaluations,
   and the verifier ends in the prover's transcript state *)
From PC Require Import Base.OrdMap Schemes.LC Schemes.DefaultBatch Proofs.DefaultBatchComplete.
Theorem C01_default_batch_complete :
  forall (FO : FieldOps) (Comm Item Proof St : Type)
         (check : list Comm -> point -> list F -> Proof -> St -> res (bool * St))
         (open : list Item -> point -> St -> res (Proof * St))
         (R : Item -> Comm -> Prop) (value : Item -> point -> F),
    (forall items cs pt st pf st', Forall2 R items cs -> open items pt st = Ok (pf, st') ->
                                  check cs pt (map (fun it => value it pt) items) pf st = Ok (true, st')) ->
    forall items cs qs ev st pfs st',
      maps_agree Comm Item R (label_map items) (label_map cs) ->
      (forall pl pt labels, In (pl, (pt, labels)) (groups qs) -> evals_true Item value (label_map items) ev pt labels) ->
      default_batch_open Item Proof St open items qs st = Ok (pfs, st') ->
      default_batch_check Comm Proof St check cs qs ev pfs st = Ok (true, st').
Proof. exact @default_batch_complete. Qed.
Print Assumptions C01_default_batch_complete.

(* linear codes at the trait level (Ligero univariate / multilinear, Brakedown: any encoder satisfying the column relation, any
   tensor function): open and check over a list of polynomials on the shared transcript (one field squeeze and t byte squeezes
   per polynomial), and the default batch functions instantiated with them *)
From PC Require Import Schemes.LinCodeList Proofs.LinCodeListFacts.
Theorem C01_lincode_list_complete :
  forall (FO : FieldOps) (FL : FieldLaws FO) tensor wf items cs pt tape pfs rest,
    Forall2 R_lc items cs ->
    lc_open_list tensor wf items pt tape = Ok (pfs, rest) ->
    lc_check_list tensor wf cs pt (map (lc_value tensor pt) items) pfs tape = Ok (true, rest).
Proof. exact @lc_list_complete. Qed.
Print Assumptions C01_lincode_list_complete.

Theorem C01_lincode_batch_complete :
  forall (FO : FieldOps) (FL : FieldLaws FO) tensor wf items cs qs ev tape pfs rest,
    maps_agree LCm (LCm * list (list F)) R_lc (label_map items) (label_map cs) ->
    (forall pl pt labels, In (pl, (pt, labels)) (groups qs) ->
       evals_true (LCm * list (list F)) (fun it pt => lc_value tensor pt it) (label_map items) ev pt labels) ->
    default_batch_open (LCm * list (list F)) (list LProof) (list sq_ev) (lc_open_list tensor wf) items qs tape = Ok (pfs, rest) ->
    default_batch_check LCm (list LProof) (list sq_ev) (lc_check_list tensor wf) cs qs ev pfs tape = Ok (true, rest).
Proof. exact @lc_batch_complete. Qed.
Print Assumptions C01_lincode_batch_complete.

(* the same with separate prover / verifier transcript states related by a simulation, and a side condition on the points;
   instance: Hyrax batch_open / batch_check (the prover's state also carries its RNG tape) *)
Theorem C01_default_batch_complete_sim :
  forall (FO : FieldOps) (Comm Item Proof PSt VSt : Type)
         (check : list Comm -> point -> list F -> Proof -> VSt -> res (bool * VSt))
         (open : list Item -> point -> PSt -> res (Proof * PSt))
         (R : Item -> Comm -> Prop) (value : Item -> point -> F) (sim : PSt -> VSt -> Prop) (okpt : point -> Prop),
    (forall items cs pt st vst pf st', okpt pt -> Forall2 R items cs -> sim st vst -> open items pt st = Ok (pf, st') ->
       exists vst', check cs pt (map (fun it => value it pt) items) pf vst = Ok (true, vst') /\ sim st' vst') ->
    forall items cs qs ev st vst pfs st',
      maps_agree Comm Item R (label_map items) (label_map cs) ->
      (forall pl pt labels, In (pl, (pt, labels)) (groups qs) -> okpt pt /\ evals_true Item value (label_map items) ev pt labels) ->
      sim st vst ->
      default_batch_open Item Proof PSt open items qs st = Ok (pfs, st') ->
      exists vst', default_batch_check Comm Proof VSt check cs qs ev pfs vst = Ok (true, vst') /\ sim st' vst'.
Proof. exact @default_batch_complete_sim. Qed.
Print Assumptions C01_default_batch_complete_sim.

From PC Require Import Proofs.HyraxBatchFacts.
Theorem C01_hyrax_batch_complete :
  forall (FO : FieldOps) (FL : FieldLaws FO) keylen nv,
    (1 <= keylen)%nat -> keylen = (2 ^ (nv / 2))%nat ->
    forall items cs qs ev ot ch pfs ot' ch',
    maps_agree (list gel) HState (hb_R keylen nv) (label_map items) (label_map cs) ->
    (forall pl pt labels, In (pl, (pt, labels)) (groups qs) ->
       hb_okpt keylen nv pt /\ evals_true HState (hb_value keylen) (label_map items) ev pt labels) ->
    default_batch_open HState (list HProof) (list F * list F) (hb_open keylen) items qs (ot, ch) = Ok (pfs, (ot', ch')) ->
    default_batch_check (list gel) (list HProof) (list F) (hb_check keylen) cs qs ev pfs ch = Ok (true, ch').
Proof. exact @hyrax_batch_complete. Qed.
Print Assumptions C01_hyrax_batch_complete.

(* MarlinKZG10 batch flows: the proofs made by batch_open (one open per point-label group on the shared challenge tape) are
   accepted by batch_check (KZG10's batch equation over the groups) for the true evaluations, whatever randomizers the verifier
   draws; the verifier ends on the prover's tape position and draws one randomizer per group.  The second premise is the side
   condition of the single-point theorem (C01_marlin_complete), asked of every group. *)
From PC Require Import Proofs.MarlinBatchComplete.
Theorem C01_marlin_batch_complete :
  forall (FO : FieldOps) (FL : FieldLaws FO) ck vk g gam h b D hi n m,
    KeyOK ck vk g gam h b D hi n m ->
    (forall z items chal a r,
        Marlin.open_loop ck z items chal MarlinComplete.oacc0 = Ok (a, r) ->
        is_hiding (trim (Marlin.oa_r a)) = false -> eval (Marlin.oa_sr a) z = f0) ->
    forall items cs qs ev chal vtape pfs rest,
      mmaps_agree ck g gam b D m (poly_state_map items) (comm_map cs) ->
      (forall pl pt labels, In (pl, (pt, labels)) (group_queries qs) -> mevals_true (poly_state_map items) (evals_map ev) pt labels) ->
      (length (group_queries qs) <= length vtape)%nat ->
      mbatch_open ck items qs chal = Ok (pfs, rest) ->
      mbatch_check vk cs qs ev pfs chal vtape = Ok (true, rest, length (group_queries qs)).
Proof. exact @marlin_batch_complete. Qed.
Print Assumptions C01_marlin_batch_complete.

(* SonicKZG10 batch flows: the proofs of batch_open (one open per point-label group on the shared challenge tape) are accepted by
   Sonic's own batch_check for the true evaluations, whatever randomizers the verifier draws; same final tape position; one
   randomizer per group.  The key facts are the ones trim establishes (C01_sonic_complete / strim_keys); every prover item and its
   (commitment, bound) are consistent with the shift element of the bound, as commit makes them *)
From PC Require Import Schemes.SonicLC Proofs.SonicLCFacts Proofs.SonicBatchComplete.
Theorem C01_sonic_batch_complete :
  forall (FO : FieldOps) (FL : FieldLaws FO) g gam h beta n m ck vk,
    sck_g ck = gpowers g f1 beta n -> sck_gamma ck = gpowers gam f1 beta m ->
    vk_g (svk_vk vk) = g -> vk_gamma_g (svk_vk vk) = gam -> vk_h (svk_vk vk) = h -> vk_beta_h (svk_vk vk) = fmul h beta ->
    forall items cs qs ev chal vtape pfs rest,
      smaps_agree g gam h beta m vk (s_poly_map items) (s_comm_map cs) ->
      (forall pl pt labels, In (pl, (pt, labels)) (group_queries qs) -> sevals_true (s_poly_map items) (evals_map ev) pt labels) ->
      (length (group_queries qs) <= length vtape)%nat ->
      s_batch_open ck items qs chal = Ok (pfs, rest) ->
      s_batch_check vk cs qs ev pfs chal vtape = Ok (true, rest, length (group_queries qs)).
Proof. exact @sonic_batch_complete. Qed.
Print Assumptions C01_sonic_batch_complete.

(* Marlin-PST13 batch flows at the trait level (free-module view): the proofs of batch_open (one open per point-label group on the
   shared challenge tape) are accepted by PST13's own batch_check for the true evaluations, whatever randomizers the verifier
   draws; same final tape position; one randomizer per group.  Every commitment is coordinate-wise the evaluation of its
   (polynomial, blinding polynomial) at the trapdoor, as commit makes it; points have at least num_vars coordinates *)
From PC Require Import Schemes.IPA Proofs.IPAFacts Schemes.PST13Batch Proofs.PST13BatchFacts Proofs.PST13BatchComplete.
Theorem C01_pst13_batch_complete :
  forall (FO : FieldOps) (FL : FieldLaws FO) nv s betas items cs qs ev chal vtape pfs rest,
    maps_agree gv PItem (pR nv betas) (label_map items) (label_map cs) ->
    (forall pl pt labels, In (pl, (pt, labels)) (groups qs) ->
       (nv <= length pt)%nat /\ evals_true PItem pvalue (label_map items) ev pt labels) ->
    (length (groups qs) <= length vtape)%nat ->
    pst_batch_open nv s betas items qs chal = Ok (pfs, rest) ->
    pst_batch_check nv betas cs qs ev pfs chal vtape = Ok (true, rest, length (groups qs)).
Proof. exact @pst13_batch_complete. Qed.
Print Assumptions C01_pst13_batch_complete.

(* IPA batch flows at the trait level (free-module view), end to end: commitments made by commit (iR: the verifier's entry for a
   label is the commitment and degree bound of the prover's item, which commit produced), a key whose size is a power of two (as
   trim makes it), non-zero hash-derived round challenges: the proofs of batch_open are accepted by IPA's own batch_check for the
   true evaluations, whatever randomizers the verifier draws; same transcript positions; one randomizer per group *)
From PC Require Import Schemes.IPABatch Proofs.IPABatchComplete.
Theorem C01_ipa_batch_complete :
  forall (FO : FieldOps) (FL : FieldLaws FO) d,
    (d + 1 = 2 ^ Nat.log2_up (d + 1))%nat ->
    forall items cs qs ev chal hchal rng vtape pfs rest hrest rng',
    maps_agree (IComm * option nat) IItem (iR d) (label_map items) (label_map cs) ->
    Forall (fun rc => rc <> 0) hchal ->
    (forall pl pt labels, In (pl, (pt, labels)) (groups qs) -> evals_true IItem ivalue (label_map items) ev pt labels) ->
    (length (groups qs) <= length vtape)%nat ->
    i_batch_open d items qs (chal, hchal, rng) = Ok (pfs, (rest, hrest, rng')) ->
    i_batch_check d cs qs ev pfs chal hchal vtape = Ok (true, rest, hrest, length (groups qs)).
Proof. exact @ipa_batch_complete_e2e. Qed.
Print Assumptions C01_ipa_batch_complete.
