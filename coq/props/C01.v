(* C01 - Completeness.  Only statements, each closed by `exact`, pinned by `Check`,
   followed by Print Assumptions. *)
From Coq Require Import List.
From PC Require Import Base.Field Base.Result Base.Poly Schemes.KZG10 Proofs.KZG10Facts.
Import ListNotations.

Theorem C01_kzg10_complete :
  forall (FO : FieldOps) (FL : FieldLaws FO)
         D g2 beta g gamma_g h up s p z hb rng c r draws pf,
    setup D g2 beta g gamma_g h = Ok up -> s <= D ->
    commit (powers_of up s) p hb rng = Ok (c, r, draws) ->
    open (powers_of up s) p z r = Ok pf ->
    check (vk_of up) c z (eval p z) pf = Ok true.
Proof. exact @kzg_complete. Qed.
Print Assumptions C01_kzg10_complete.

Theorem C01_kzg10_serves :
  forall (FO : FieldOps) (FL : FieldLaws FO) D g2 beta g gamma_g h up s p z,
    setup D g2 beta g gamma_g h = Ok up -> s <= D -> degree p <= s ->
    exists c pf, commit (powers_of up s) p None None = Ok (c, [], O) /\
                 open (powers_of up s) p z [] = Ok pf.
Proof. exact @kzg_serves. Qed.
Print Assumptions C01_kzg10_serves.
