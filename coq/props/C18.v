(* C18 - results do not depend on thread count or on the parallel feature.  Statements only.
   What is logic is proved here: every data-parallel combinator the crate uses returns the value of
   the sequential loop for every split plan (the sequential build is the plan Seq).  The scheduler
   itself is exercised by the correspondence: the same scenarios under 1, 2, 3, 8, 16 worker threads
   and in a build without the parallel feature must give byte-identical outputs. *)
From Coq Require Import List Arith Bool.
From PC Require Import Base.Field Base.Result Base.Poly Schemes.PST13 Proofs.ScheduleFacts.
Import ListNotations.
Open Scope F_scope.

Theorem C18_map_collect_any_plan :
  forall (A B : Type) (f : A -> B) p xs, par_map f p xs = map f xs.
Proof. exact @par_map_any_plan. Qed.
Print Assumptions C18_map_collect_any_plan.

Theorem C18_enumerate_map_any_plan :
  forall (A B : Type) (f : nat -> A -> B) p off xs,
    par_mapi f p off xs = map (fun ix => f (fst ix) (snd ix)) (combine (seq off (length xs)) xs).
Proof. exact @par_mapi_any_plan. Qed.
Print Assumptions C18_enumerate_map_any_plan.

Theorem C18_reduce_any_plan :
  forall (A B : Type) (op : B -> B -> B) (e : B),
    (forall a b c, op (op a b) c = op a (op b c)) -> (forall a, op e a = a) -> (forall a, op a e = a) ->
    forall (f : A -> B) p xs, par_reduce op e f p xs = fold_left (fun acc x => op acc (f x)) xs e.
Proof. exact @par_reduce_any_plan. Qed.
Print Assumptions C18_reduce_any_plan.

(* multi-scalar sums (commitments, inner products, row combinations): the same group element under every schedule *)
Theorem C18_msm_any_plan :
  forall (FO : FieldOps) (FL : FieldLaws FO) p bases scalars,
    par_reduce fadd 0 (fun bs => fst bs * snd bs) p (combine bases scalars) = msm bases scalars.
Proof. exact @msm_any_plan. Qed.
Print Assumptions C18_msm_any_plan.

Theorem C18_pst13_setup_any_plan :
  forall (FO : FieldOps) p betas nv (mss : list (list nat)),
    par_map (fun ms => (ms_value betas ms, exps_of nv ms)) p mss = map (fun ms => (ms_value betas ms, exps_of nv ms)) mss.
Proof. exact @pst13_setup_values_any_plan. Qed.
Print Assumptions C18_pst13_setup_any_plan.

Theorem C18_rows_any_plan :
  forall (R C : Type) (work : nat -> R -> C) p rows,
    par_mapi work p 0 rows = map (fun ix => work (fst ix) (snd ix)) (combine (seq 0 (length rows)) rows).
Proof. exact @rows_any_plan. Qed.
Print Assumptions C18_rows_any_plan.
