(* C14 - streaming KZG: space- and time-efficient provers are interchangeable.  Statements only. *)
From Coq Require Import List Arith NArith Bool.
From PC Require Import Base.Field Base.Result Base.Poly Schemes.StreamKZG Proofs.StreamFacts Proofs.StreamMulti Proofs.StreamVerifyMulti Proofs.StreamIter.
Import ListNotations.
Open Scope F_scope.

(* single point: the streaming prover returns exactly the evaluation and proof of the in-memory prover,
   for every polynomial, point and key with enough powers (any buffer size: the MSM buffer only
   schedules a commutative sum) *)
Theorem C14_space_open_eq_time_open :
  forall (FO : FieldOps) (FL : FieldLaws FO) ck p alpha,
    (length p <= length (sk_g ck))%nat -> space_open ck p alpha = Ok (time_open ck p alpha).
Proof. exact @space_open_eq_time_open. Qed.
Print Assumptions C14_space_open_eq_time_open.

Theorem C14_space_commit_eq_time_commit :
  forall (FO : FieldOps) (FL : FieldLaws FO) ck p,
    (length p <= length (sk_g ck))%nat -> space_commit ck p = Ok (time_commit ck p).
Proof. exact @space_commit_eq_time_commit. Qed.
Print Assumptions C14_space_commit_eq_time_commit.

Theorem C14_verify_complete :
  forall (FO : FieldOps) (FL : FieldLaws FO) D m tau g h p alpha,
    (1 <= m)%nat -> (m <= D)%nat -> (length p <= D + 1)%nat ->
    let ck := sk_new D m tau g h in
    verify ck (time_commit ck p) alpha (fst (time_open ck p alpha)) (snd (time_open ck p alpha)) = Ok true.
Proof. exact @verify_complete. Qed.
Print Assumptions C14_verify_complete.

Theorem C14_verify_value_binding :
  forall (FO : FieldOps) (FL : FieldLaws FO) ck c alpha v v' pi g0 gs h0 h1 hs,
    sk_g ck = g0 :: gs -> sk_g2 ck = h0 :: h1 :: hs -> g0 <> 0 -> h0 <> 0 ->
    verify ck c alpha v pi = Ok true -> v' <> v -> verify ck c alpha v' pi = Ok false.
Proof. exact @verify_value_binding. Qed.
Print Assumptions C14_verify_value_binding.

Theorem C14_fold_length :
  forall (FO : FieldOps) ch l, length (fold1 ch l) = (length l / 2)%nat.
Proof. exact @fold1_length. Qed.
Print Assumptions C14_fold_length.

Theorem C14_fold_at_square :
  forall (FO : FieldOps) (FL : FieldLaws FO) l x, Nat.even (length l) = true ->
    eval_be (fold1 x l) (x * x) = eval_be l x.
Proof. exact @fold1_at_square. Qed.
Print Assumptions C14_fold_at_square.

(* multi-point: the in-memory long division by the vanishing polynomial is exact (remainder of length k) *)
Theorem C14_division_exact :
  forall (FO : FieldOps) (FL : FieldLaws FO) zlow x, zlow <> [] -> forall p,
    eval p x = eval (fst (ldivmod p zlow)) x * (eval zlow x + fpow x (length zlow)) + eval (snd (ldivmod p zlow)) x
    /\ length (snd (ldivmod p zlow)) = length zlow.
Proof. exact @ldivmod_exact. Qed.
Print Assumptions C14_division_exact.

(* ... and the streaming prover (sliding window over the big-endian stream, any buffer size) returns
   exactly its remainder and the commitment to its quotient, for every polynomial - shorter than the
   point set or not - every non-empty point list and every key with enough powers *)
Theorem C14_space_open_multi_eq_time :
  forall (FO : FieldOps) (FL : FieldLaws FO) ck p pts,
    (length p <= length (sk_g ck))%nat -> pts <> [] ->
    space_open_multi ck p pts = Ok (rev (snd (ldivmod p (zlow_of pts))), time_open_multi ck p pts).
Proof. exact @space_open_multi_eq_time. Qed.
Print Assumptions C14_space_open_multi_eq_time.

(* the remainder it returns takes the polynomial's value at every evaluation point *)
Theorem C14_space_open_multi_remainder :
  forall (FO : FieldOps) (FL : FieldLaws FO) ck p pts rem pi x,
    (length p <= length (sk_g ck))%nat -> pts <> [] ->
    space_open_multi ck p pts = Ok (rem, pi) -> In x pts -> eval_be rem x = eval p x /\ length rem = length pts.
Proof. exact @space_open_multi_remainder. Qed.
Print Assumptions C14_space_open_multi_remainder.

(* Lagrange interpolation as coded takes the prescribed values at distinct points ... *)
Theorem C14_interpolate_at_point :
  forall (FO : FieldOps) (FL : FieldLaws FO) pts ys i, NoDup pts -> length ys = length pts -> (i < length pts)%nat ->
    eval (interpolate pts ys) (nth i pts 0) = nth i ys 0.
Proof. exact @interpolate_at_point. Qed.
Print Assumptions C14_interpolate_at_point.

(* ... hence verify_multi_points accepts the batched multi-point proof of the time-efficient prover (and, by
   C14_space_open_multi_eq_time, the proof of the space-efficient prover) for the true evaluations of any number
   of polynomials at any distinct points, any batching challenge, under the verifier key of the time key *)
Theorem C14_verify_multi_complete :
  forall (FO : FieldOps) (FL : FieldLaws FO) D m tau g h ps pts eta vk pi,
    (1 <= m)%nat -> (m <= D)%nat -> NoDup pts -> pts <> [] -> (length pts <= m)%nat ->
    Forall (fun p => (length p <= D + 1)%nat) ps ->
    let ck := sk_new D m tau g h in
    vk_of_time ck = Ok vk ->
    time_batch_open_multi ck ps pts eta = Ok pi ->
    verify_multi vk (map (time_commit ck) ps) pts (map (fun p => map (eval p) pts) ps) pi eta = true.
Proof. exact @verify_multi_complete. Qed.
Print Assumptions C14_verify_multi_complete.

(* the folding iterator: on a stream made of complete blocks (length a multiple of 2^depth, any number of blocks, any
   depth) the stack machine of FoldedPolynomialTreeIter emits, block by block in post-order, exactly the values of the
   successive foldings; read level by level they are the naive foldings of the stream.  (Streams needing zero padding:
   C14_tree_iter_is_naive_folding_padded below.) *)
Theorem C14_tree_iter_machine :
  forall (FO : FieldOps) chs bs,
    Forall (fun b => length b = (2 ^ length chs)%nat) bs -> tree_iter chs (concat bs) = blocks_emit chs bs.
Proof. exact @tree_iter_full_blocks. Qed.
Print Assumptions C14_tree_iter_machine.

Theorem C14_tree_iter_is_naive_folding_partial :
  forall (FO : FieldOps) chs bs i,
    Forall (fun b => length b = (2 ^ length chs)%nat) bs -> (1 <= i)%nat -> (i <= length chs)%nat ->
    by_level i (tree_iter chs (concat bs)) = nth (i - 1) (fold_tree chs (concat bs)) [].
Proof. exact @tree_iter_is_naive_folding. Qed.
Print Assumptions C14_tree_iter_is_naive_folding_partial.

(* ... and on a stream of ANY other length (not a multiple of 2^depth): init_stack pre-seeds the stack as if the missing front
   coefficients were zeros already read, and the iterator emits the naive foldings of the zero-padded stream without the leading
   items that come from the padding alone - every one of them zero.  With the theorem above this covers every stream length,
   every depth and every challenge list *)
From PC Require Import Proofs.StreamIterPad.
Theorem C14_tree_iter_is_naive_folding_padded :
  forall (FO : FieldOps) (FL : FieldLaws FO) chs coeffs i,
    (length coeffs mod 2 ^ length chs <> 0)%nat -> (1 <= i)%nat -> (i <= length chs)%nat ->
    exists zs, Forall (fun x => x = f0) zs /\
               nth (i - 1) (fold_tree chs coeffs) [] = zs ++ by_level i (tree_iter chs coeffs).
Proof. exact @tree_iter_is_naive_folding_padded. Qed.
Print Assumptions C14_tree_iter_is_naive_folding_padded.

(* the second iterator, FoldedPolynomialStreamIter (it reads two coefficients at a time whenever the top of its stack is not a
   level-0 entry and yields only the items of the last level): on a stream of complete blocks, for every depth >= 1, it yields
   exactly the last naive folding - the level-depth items of the tree iterator.  (Partial: complete blocks only; the theorem
   C14_stream_iter_is_fold_stream below covers every length.) *)
From PC Require Import Proofs.StreamIterS.
Theorem C14_stream_iter_is_last_folding_partial :
  forall (FO : FieldOps) (FL : FieldLaws FO) chs,
    (1 <= length chs)%nat ->
    forall bs, Forall (fun b => length b = (2 ^ length chs)%nat) bs ->
    stream_iter chs (concat bs) = by_level (length chs) (tree_iter chs (concat bs)).
Proof. exact @stream_iter_is_last_folding. Qed.
Print Assumptions C14_stream_iter_is_last_folding_partial.

(* ... and for EVERY stream length, every depth >= 1 and every challenge list the stream iterator yields exactly the model's naive
   definition: the last of the successive foldings of the zero-padded stream.  (With an even padding the pre-seeded stack is what
   reading the padding two coefficients at a time leaves; with an odd padding the level-0 zero on top makes the iterator read the
   first coefficient alone and merge it with that zero - the same item a double read yields.) *)
From PC Require Import Proofs.StreamIterSPad.
Theorem C14_stream_iter_is_fold_stream :
  forall (FO : FieldOps) (FL : FieldLaws FO) chs,
    (1 <= length chs)%nat -> forall coeffs, stream_iter chs coeffs = fold_stream chs coeffs.
Proof. exact @stream_iter_is_fold_stream. Qed.
Print Assumptions C14_stream_iter_is_fold_stream.
