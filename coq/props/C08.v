(* C08 - commitments are the key-defined linear map of the polynomial.  Statements only. *)
From Coq Require Import List Arith NArith.
From PC Require Import Base.Field Base.Result Base.Poly Schemes.KZG10 Schemes.Marlin
     Proofs.MarlinComplete Proofs.Homomorphic.
Import ListNotations.
Open Scope F_scope.

(* skip-leading-zeros + MSM over the rest of the key = the naive sum over the key, for every key *)
Theorem C08_commit_is_msm :
  forall (FO : FieldOps) (FL : FieldLaws FO) (bases : list F) (p : poly),
    commit_coeffs bases p = msm bases (trim p).
Proof. exact @commit_is_msm. Qed.
Print Assumptions C08_commit_is_msm.

Theorem C08_msm_additive :
  forall (FO : FieldOps) (FL : FieldLaws FO) bases p q,
    (length p <= length bases)%nat -> (length q <= length bases)%nat ->
    msm bases (padd p q) = msm bases p + msm bases q.
Proof. exact @msm_padd. Qed.
Print Assumptions C08_msm_additive.

Theorem C08_msm_scales :
  forall (FO : FieldOps) (FL : FieldLaws FO) bases a p, msm bases (pscale a p) = a * msm bases p.
Proof. exact @msm_pscale. Qed.
Print Assumptions C08_msm_scales.

(* commit(a*p + a'*q) = a*commit(p) + a'*commit(q) under any window of the published powers *)
Theorem C08_commit_additive :
  forall (FO : FieldOps) (FL : FieldLaws FO) g c gam b n m pw p q a a' rng1 rng2 rng3 cp cq cr rp rq rr dp dq dr,
    pw_g pw = gpowers g c b n -> pw_gamma_g pw = gpowers gam 1 b m ->
    commit pw p None rng1 = Ok (cp, rp, dp) -> commit pw q None rng2 = Ok (cq, rq, dq) ->
    commit pw (padd (pscale a p) (pscale a' q)) None rng3 = Ok (cr, rr, dr) ->
    cr = a * cp + a' * cq.
Proof. exact @commit_additive. Qed.
Print Assumptions C08_commit_additive.

(* Marlin: plain and shifted (degree-bound) parts alike *)
Theorem C08_marlin_commit_additive :
  forall (FO : FieldOps) (FL : FieldLaws FO) ck vk g gam h b D hi n m lab1 lab2 lab3 p q a a' bound rng1 rng2 rng3 c1 c2 c3 s1 s2 s3 d1 d2 d3,
    KeyOK ck vk g gam h b D hi n m ->
    commit1 ck {| lp_label := lab1; lp_poly := p; lp_bound := bound; lp_hiding := None |} rng1 = Ok (c1, s1, d1) ->
    commit1 ck {| lp_label := lab2; lp_poly := q; lp_bound := bound; lp_hiding := None |} rng2 = Ok (c2, s2, d2) ->
    commit1 ck {| lp_label := lab3; lp_poly := padd (pscale a p) (pscale a' q); lp_bound := bound; lp_hiding := None |} rng3 = Ok (c3, s3, d3) ->
    mc_comm c3 = a * mc_comm c1 + a' * mc_comm c2 /\
    match mc_shifted c1, mc_shifted c2, mc_shifted c3 with
    | Some x1, Some x2, Some x3 => x3 = a * x1 + a' * x2
    | None, None, None => bound = None
    | _, _, _ => False
    end.
Proof. exact @marlin_commit_additive. Qed.
Print Assumptions C08_marlin_commit_additive.

(* the zero polynomial maps to the identity; high-order zero coefficients are invisible *)
Theorem C08_commit_zero :
  forall (FO : FieldOps) (FL : FieldLaws FO) pw k rng,
    (1 <= length (pw_g pw))%nat -> commit pw (repeat 0 k) None rng = Ok (0, [], O).
Proof. exact @commit_zero. Qed.
Print Assumptions C08_commit_zero.

Theorem C08_commit_ignores_trailing_zeros :
  forall (FO : FieldOps) (FL : FieldLaws FO) pw p k hb rng,
    commit pw (p ++ repeat 0 k) hb rng = commit pw p hb rng.
Proof. exact @commit_ignores_trailing_zeros. Qed.
Print Assumptions C08_commit_ignores_trailing_zeros.
