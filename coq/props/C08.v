(* C08 - commitments are the key-defined linear map of the polynomial.  Statements only. *)
From Coq Require Import List Arith NArith.
From PC Require Import Base.Field Base.Result Base.Poly Schemes.KZG10 Schemes.Marlin
     Proofs.MarlinComplete Proofs.Homomorphic.
Import ListNotations.
Open Scope F_scope.

(* skip-leading-zeros + MSM over the rest of the key = the naive sum over the key, for every key *)
Theorem C08_commit_is_msm :
  forall (FO : FieldOps) (FL : FieldLaws FO) (bases : list F) (p : poly),
    commit_coeffs bases p = msm bases (trim p).
Proof. exact @commit_is_msm. Qed.
Print Assumptions C08_commit_is_msm.

Theorem C08_msm_additive :
  forall (FO : FieldOps) (FL : FieldLaws FO) bases p q,
    (length p <= length bases)%nat -> (length q <= length bases)%nat ->
    msm bases (padd p q) = msm bases p + msm bases q.
Proof. exact @msm_padd. Qed.
Print Assumptions C08_msm_additive.

Theorem C08_msm_scales :
  forall (FO : FieldOps) (FL : FieldLaws FO) bases a p, msm bases (pscale a p) = a * msm bases p.
Proof. exact @msm_pscale. Qed.
Print Assumptions C08_msm_scales.

(* commit(a*p + a'*q) = a*commit(p) + a'*commit(q) under any window of the published powers *)
Theorem C08_commit_additive :
  forall (FO : FieldOps) (FL : FieldLaws FO) g c gam b n m pw p q a a' rng1 rng2 rng3 cp cq cr rp rq rr dp dq dr,
    pw_g pw = gpowers g c b n -> pw_gamma_g pw = gpowers gam 1 b m ->
    commit pw p None rng1 = Ok (cp, rp, dp) -> commit pw q None rng2 = Ok (cq, rq, dq) ->
    commit pw (padd (pscale a p) (pscale a' q)) None rng3 = Ok (cr, rr, dr) ->
    cr = a * cp + a' * cq.
Proof. exact @commit_additive. Qed.
Print Assumptions C08_commit_additive.

(* Marlin: plain and shifted (degree-bound) parts alike *)
Theorem C08_marlin_commit_additive :
  forall (FO : FieldOps) (FL : FieldLaws FO) ck vk g gam h b D hi n m lab1 lab2 lab3 p q a a' bound rng1 rng2 rng3 c1 c2 c3 s1 s2 s3 d1 d2 d3,
    KeyOK ck vk g gam h b D hi n m ->
    commit1 ck {| lp_label := lab1; lp_poly := p; lp_bound := bound; lp_hiding := None |} rng1 = Ok (c1, s1, d1) ->
    commit1 ck {| lp_label := lab2; lp_poly := q; lp_bound := bound; lp_hiding := None |} rng2 = Ok (c2, s2, d2) ->
    commit1 ck {| lp_label := lab3; lp_poly := padd (pscale a p) (pscale a' q); lp_bound := bound; lp_hiding := None |} rng3 = Ok (c3, s3, d3) ->
    mc_comm c3 = a * mc_comm c1 + a' * mc_comm c2 /\
    match mc_shifted c1, mc_shifted c2, mc_shifted c3 with
    | Some x1, Some x2, Some x3 => x3 = a * x1 + a' * x2
    | None, None, None => bound = None
    | _, _, _ => False
    end.
Proof. exact @marlin_commit_additive. Qed.
Print Assumptions C08_marlin_commit_additive.

(* the zero polynomial maps to the identity; high-order zero coefficients are invisible *)
Theorem C08_commit_zero :
  forall (FO : FieldOps) (FL : FieldLaws FO) pw k rng,
    (1 <= length (pw_g pw))%nat -> commit pw (repeat 0 k) None rng = Ok (0, [], O).
Proof. exact @commit_zero. Qed.
Print Assumptions C08_commit_zero.

Theorem C08_commit_ignores_trailing_zeros :
  forall (FO : FieldOps) (FL : FieldLaws FO) pw p k hb rng,
    commit pw (p ++ repeat 0 k) hb rng = commit pw p hb rng.
Proof. exact @commit_ignores_trailing_zeros. Qed.
Print Assumptions C08_commit_ignores_trailing_zeros.

(* ---------------- the other group-based schemes ---------------- *)
From PC Require Import Base.OrdMap Schemes.LC Schemes.Sonic Proofs.SonicKeys Schemes.IPA Proofs.IPAFacts Schemes.PST13 Schemes.PST13H
     Proofs.CommitLinear.

(* KZG10.commit under ANY powers: the coefficient-weighted sum of the published g-powers plus the blinding sum over the gamma-powers;
   without a hiding bound there is no blinding polynomial and no draw *)
Theorem C08_kzg_commit_key_sum :
  forall (FO : FieldOps) (FL : FieldLaws FO) pw p hb rng c r n,
    KZG10.commit pw p hb rng = Ok (c, r, n) ->
    c = msm (pw_g pw) (trim p) + msm (pw_gamma_g pw) r /\ (hb = None -> r = [] /\ n = O).
Proof. exact @kzg_commit_key_sum. Qed.
Print Assumptions C08_kzg_commit_key_sum.

(* Sonic: the window is the plain key, or the shifted powers of the degree bound *)
Theorem C08_sonic_commit_key_sum :
  forall (FO : FieldOps) (FL : FieldLaws FO) ck lp rng c r n,
    s_commit1 ck lp rng = Ok (c, r, n) ->
    exists pw, match lp_bound lp with
               | Some d => s_shifted_powers ck d = Ok pw
               | None => pw = {| pw_g := sck_g ck; pw_gamma_g := sck_gamma ck |}
               end /\
               c = msm (pw_g pw) (trim (lp_poly lp)) + msm (pw_gamma_g pw) r /\ (lp_hiding lp = None -> r = [] /\ n = O).
Proof. exact @sonic_commit_key_sum. Qed.
Print Assumptions C08_sonic_commit_key_sum.

Theorem C08_sonic_commit_value :
  forall (FO : FieldOps) (FL : FieldLaws FO) D beta g gam h up s sh bounds ck vk lp rng c r nd,
    setup D true beta g gam h = Ok up -> strim up s sh bounds = Ok (ck, vk) -> beta <> 0 ->
    s_commit1 ck lp rng = Ok (c, r, nd) ->
    c = match lp_bound lp with Some d => fpow beta (D - d) | None => 1 end * (g * eval (lp_poly lp) beta + gam * eval r beta).
Proof. exact @sonic_commit_value. Qed.
Print Assumptions C08_sonic_commit_value.

Theorem C08_sonic_commit_additive :
  forall (FO : FieldOps) (FL : FieldLaws FO) D beta g gam h up s sh bounds ck vk lab1 lab2 lab3 p q a a' bound
         rng1 rng2 rng3 c1 c2 c3 r1 r2 r3 n1 n2 n3,
    setup D true beta g gam h = Ok up -> strim up s sh bounds = Ok (ck, vk) -> beta <> 0 ->
    s_commit1 ck {| lp_label := lab1; lp_poly := p; lp_bound := bound; lp_hiding := None |} rng1 = Ok (c1, r1, n1) ->
    s_commit1 ck {| lp_label := lab2; lp_poly := q; lp_bound := bound; lp_hiding := None |} rng2 = Ok (c2, r2, n2) ->
    s_commit1 ck {| lp_label := lab3; lp_poly := padd (pscale a p) (pscale a' q); lp_bound := bound; lp_hiding := None |} rng3 = Ok (c3, r3, n3) ->
    c3 = a * c1 + a' * c2.
Proof. exact @sonic_commit_additive. Qed.
Print Assumptions C08_sonic_commit_additive.

(* IPA, free-module view (co i: the coordinate along the i-th independent generator) *)
Theorem C08_ipa_commit_linear_map :
  forall (FO : FieldOps) (FL : FieldLaws FO) d lp rng cm st n,
    i_commit1 d lp rng = Ok (cm, st, n) -> lp_hiding lp = None ->
    (forall i, co i (ic_comm cm) = dot (lp_poly lp) (map (co i) (key_of d))) /\
    match lp_bound lp with
    | Some b => exists sc, ic_shifted cm = Some sc /\ forall i, co i sc = dot (lp_poly lp) (skipn (d - b) (map (co i) (key_of d)))
    | None => ic_shifted cm = None
    end.
Proof. exact @ipa_commit_linear_map. Qed.
Print Assumptions C08_ipa_commit_linear_map.

Theorem C08_ipa_commit_additive :
  forall (FO : FieldOps) (FL : FieldLaws FO) d lab1 lab2 lab3 p q a a' bound rng1 rng2 rng3 c1 c2 c3 s1 s2 s3 n1 n2 n3,
    i_commit1 d {| lp_label := lab1; lp_poly := p; lp_bound := bound; lp_hiding := None |} rng1 = Ok (c1, s1, n1) ->
    i_commit1 d {| lp_label := lab2; lp_poly := q; lp_bound := bound; lp_hiding := None |} rng2 = Ok (c2, s2, n2) ->
    i_commit1 d {| lp_label := lab3; lp_poly := padd (pscale a p) (pscale a' q); lp_bound := bound; lp_hiding := None |} rng3 = Ok (c3, s3, n3) ->
    (forall i, co i (ic_comm c3) = a * co i (ic_comm c1) + a' * co i (ic_comm c2)) /\
    match ic_shifted c1, ic_shifted c2, ic_shifted c3 with
    | Some x1, Some x2, Some x3 => forall i, co i x3 = a * co i x1 + a' * co i x2
    | None, None, None => bound = None
    | _, _, _ => False
    end.
Proof. exact @ipa_commit_additive. Qed.
Print Assumptions C08_ipa_commit_additive.

Theorem C08_ipa_commit_zero :
  forall (FO : FieldOps) (FL : FieldLaws FO) d lab k bound rng cm st n,
    i_commit1 d {| lp_label := lab; lp_poly := repeat 0 k; lp_bound := bound; lp_hiding := None |} rng = Ok (cm, st, n) ->
    gvzero (ic_comm cm) = true /\ match ic_shifted cm with Some sc => gvzero sc = true | None => bound = None end.
Proof. exact @ipa_commit_zero. Qed.
Print Assumptions C08_ipa_commit_zero.

Theorem C08_ipa_commit_ignores_trailing_zeros :
  forall (FO : FieldOps) (FL : FieldLaws FO) d lab p k bound hiding rng,
    i_commit1 d {| lp_label := lab; lp_poly := p ++ repeat 0 k; lp_bound := bound; lp_hiding := hiding |} rng
    = i_commit1 d {| lp_label := lab; lp_poly := p; lp_bound := bound; lp_hiding := hiding |} rng.
Proof. exact @ipa_commit_ignores_trailing_zeros. Qed.
Print Assumptions C08_ipa_commit_ignores_trailing_zeros.

(* Marlin-PST13, free-module view *)
Theorem C08_pst13_commit_additive :
  forall (FO : FieldOps) (FL : FieldLaws FO) nv s betas p q a rng1 rng2 rng3 c1 c2 c3 b1 b2 b3 n1 n2 n3,
    ph_commit1 nv s betas p None rng1 = Ok (c1, b1, n1) ->
    ph_commit1 nv s betas q None rng2 = Ok (c2, b2, n2) ->
    ph_commit1 nv s betas (madd_scaled p a q) None rng3 = Ok (c3, b3, n3) ->
    forall i, co i c3 = co i c1 + a * co i c2.
Proof. exact @pst13_commit_additive. Qed.
Print Assumptions C08_pst13_commit_additive.

(* ---------------- the hash-based schemes (Reed-Solomon rows; column hash and Merkle tree an ideal vector commitment, so the root
   stands for the extended matrix) ---------------- *)
From PC Require Import Schemes.CalcT Schemes.Ligero Proofs.LigeroFacts Proofs.LigeroCommit.

(* the layout of the coefficient matrix: row-major, entry (i, j) is coefficient i * n_cols + j, zero beyond the polynomial *)
Theorem C08_lig_matrix_entry :
  forall (FO : FieldOps) n_rows n_cols (p : list F) i j,
    p <> [] -> (i < n_rows)%nat -> (j < n_cols)%nat ->
    nth j (nth i (lig_matrix n_rows n_cols p) []) 0 = nth (i * n_cols + j) p 0.
Proof. exact @lig_matrix_entry. Qed.
Print Assumptions C08_lig_matrix_entry.

Theorem C08_lig_matrix_ignores_trailing_zeros :
  forall (FO : FieldOps) n_rows n_cols (p : list F) k,
    p <> [] -> lig_matrix n_rows n_cols (p ++ repeat 0 k) = lig_matrix n_rows n_cols p.
Proof. exact @lig_matrix_ignores_trailing_zeros. Qed.
Print Assumptions C08_lig_matrix_ignores_trailing_zeros.

(* different polynomials, different commitments: over a domain of distinct positions at least as long as a row, equal extended
   matrices force equal polynomials (as functions) *)
Theorem C08_ligero_commitment_injective :
  forall (FO : FieldOps) (FL : FieldLaws FO) omega n_ext n_rows n_cols (p q : list F),
    NoDup (dom omega n_ext) -> (n_cols <= n_ext)%nat ->
    (length p <= n_rows * n_cols)%nat -> (length q <= n_rows * n_cols)%nat ->
    map (encode omega n_ext) (lig_matrix n_rows n_cols q) = map (encode omega n_ext) (lig_matrix n_rows n_cols p) ->
    forall z, eval q z = eval p z.
Proof. exact @ligero_commitment_injective. Qed.
Print Assumptions C08_ligero_commitment_injective.
