(* C16 - Public algebraic helpers satisfy their defining identities.
   Only statements, each closed by `exact`, followed by Print Assumptions. *)
From Coq Require Import List Arith NArith.
From PC Require Import Base.Field Base.Result Base.Poly Base.OrdMap Schemes.LC Proofs.LCFacts.
Import ListNotations.
Open Scope F_scope.

(* every operator of LinearCombination acts on values as the corresponding arithmetic *)
Theorem C16_lc_operator :
  forall (FO : FieldOps) (FL : FieldLaws FO) (ev : N -> F) (l : lc) (op : lcop),
    lc_value ev (apply_op l op) = apply_op_value ev (lc_value ev l) op.
Proof. exact @apply_op_value_spec. Qed.
Print Assumptions C16_lc_operator.

(* ... and so does every sequence of operators (unbounded length) *)
Theorem C16_lc_operator_sequences :
  forall (FO : FieldOps) (FL : FieldLaws FO) (ev : N -> F) (ops : list lcop) (l : lc),
    lc_value ev (fold_left apply_op ops l) = fold_left (apply_op_value ev) ops (lc_value ev l).
Proof. exact @lc_ops_sequence. Qed.
Print Assumptions C16_lc_operator_sequences.

(* evaluate_query_set: every queried (label, point) is mapped to the polynomial's value there,
   and nothing else is in the result *)
Theorem C16_evaluate_query_set :
  forall (FO : FieldOps) (FL : FieldLaws FO) pm qs m,
    evaluate_query_set pm qs [] = Ok m ->
    (forall label pl z, In (label, (pl, z)) qs ->
        exists p, lookup N.compare label pm = Some p /\ lookup qkey_cmp (label, z) m = Some (eval p z)) /\
    (forall k v, lookup qkey_cmp k m = Some v ->
        exists p, lookup N.compare (fst k) pm = Some p /\ v = eval p (snd k)).
Proof.
  intros FO FL pm qs m H.
  destruct (@evaluate_query_set_spec FO FL pm qs [] m H) as (A & B & _).
  - intros k v Hk. discriminate Hk.
  - split; [exact B|exact A].
Qed.
Print Assumptions C16_evaluate_query_set.

(* succinct check polynomial: product form = Horner evaluation of the expanded coefficients,
   for every challenge list and point; the expansion has 2^k coefficients *)
Theorem C16_succinct_check_poly :
  forall (FO : FieldOps) (FL : FieldLaws FO) (chs : list F) (z : F),
    eval (compute_coeffs chs) z = sc_evaluate chs z.
Proof. exact @succinct_check_poly. Qed.
Print Assumptions C16_succinct_check_poly.

Theorem C16_succinct_check_poly_length :
  forall (FO : FieldOps) (chs : list F), length (compute_coeffs chs) = (2 ^ length chs)%nat.
Proof. exact @compute_coeffs_length. Qed.
Print Assumptions C16_succinct_check_poly_length.

Theorem C16_succinct_check_poly_challenge_position :
  forall (FO : FieldOps) (FL : FieldLaws FO) (pre : list F) (c : F) (rest : list F),
    nth (2 ^ length rest) (compute_coeffs (pre ++ c :: rest)) 0 = c.
Proof. exact @compute_coeffs_challenge_pos. Qed.
Print Assumptions C16_succinct_check_poly_challenge_position.
