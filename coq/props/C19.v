(* C19 - succinctness: commitment and proof sizes follow each scheme's asymptotics.  Statements only. *)
From Coq Require Import List NArith Arith Bool.
From PC Require Import Base.Codec Base.Result Proofs.CodecFacts Schemes.Artefacts Schemes.CalcT Schemes.Sizes Proofs.SizeFacts.
Import ListNotations.

(* the number of bytes written depends only on the shape of the value: vector lengths and option tags *)
Theorem C19_size_from_shape : forall s v b, enc s v = Some b -> length b = vsize s v.
Proof. exact enc_length_vsize. Qed.
Print Assumptions C19_size_from_shape.

(* constant-size commitments and per-point proofs of the pairing-based univariate schemes *)
Theorem C19_kzg_commitment :
  forall g1 c b, enc (kzg_commitment g1) (VTuple [c]) = Some b -> N.of_nat (length b) = kzg_commitment_size (N.of_nat g1).
Proof. exact (fun g1 => kzg_commitment_size_spec g1 O O). Qed.
Print Assumptions C19_kzg_commitment.

Theorem C19_marlin_commitment :
  forall g1 c sh b,
    enc (marlin_commitment g1) (VTuple [VTuple [c]; VOption (option_map (fun x => VTuple [x]) sh)]) = Some b ->
    N.of_nat (length b) = marlin_commitment_size (N.of_nat g1) (match sh with Some _ => true | None => false end).
Proof. exact (fun g1 => marlin_commitment_size_spec g1 O O). Qed.
Print Assumptions C19_marlin_commitment.

Theorem C19_kzg_proof :
  forall g1 f w rv b, enc (kzg_proof g1 f) (VTuple [w; VOption rv]) = Some b ->
    N.of_nat (length b) = kzg_proof_size (N.of_nat g1) (N.of_nat f) (match rv with Some _ => true | None => false end).
Proof. exact (fun g1 f => kzg_proof_size_spec g1 O f). Qed.
Print Assumptions C19_kzg_proof.

(* one group element per variable *)
Theorem C19_pst13_proof :
  forall g1 f ws rv b, enc (pst13_proof g1 f) (VTuple [VVec ws; VOption rv]) = Some b ->
    N.of_nat (length b) = pst13_proof_size (N.of_nat g1) (N.of_nat f) (N.of_nat (length ws)) (match rv with Some _ => true | None => false end).
Proof. exact (fun g1 f => pst13_proof_size_spec g1 O f). Qed.
Print Assumptions C19_pst13_proof.

Theorem C19_mlpc_proof :
  forall g2 ws b, enc (mlpc_proof g2) (VTuple [VVec ws]) = Some b ->
    N.of_nat (length b) = mlpc_proof_size (N.of_nat g2) (N.of_nat (length ws)).
Proof. exact (fun g2 => mlpc_proof_size_spec O g2 O). Qed.
Print Assumptions C19_mlpc_proof.

Theorem C19_mlpc_commitment :
  forall g1 nv c b, enc (mlpc_commitment g1) (VTuple [nv; c]) = Some b -> N.of_nat (length b) = mlpc_commitment_size (N.of_nat g1).
Proof. exact (fun g1 => mlpc_commitment_size_spec g1 O O). Qed.
Print Assumptions C19_mlpc_commitment.

(* two group elements per halving round *)
Theorem C19_ipa_commitment :
  forall g1 c sh b, enc (ipa_commitment g1) (VTuple [c; VOption sh]) = Some b ->
    N.of_nat (length b) = ipa_commitment_size (N.of_nat g1) (match sh with Some _ => true | None => false end).
Proof. exact (fun g1 => ipa_commitment_size_spec g1 O O). Qed.
Print Assumptions C19_ipa_commitment.

Theorem C19_ipa_proof :
  forall g1 f ls rs k c hc rd b,
    enc (ipa_proof g1 f) (VTuple [VVec ls; VVec rs; k; c; VOption hc; VOption rd]) = Some b ->
    length ls = length rs -> (match hc, rd with Some _, Some _ | None, None => True | _, _ => False end) ->
    N.of_nat (length b) = ipa_proof_size (N.of_nat g1) (N.of_nat f) (N.of_nat (length ls)) (match hc with Some _ => true | None => false end).
Proof. exact (fun g1 f => ipa_proof_size_spec g1 O f). Qed.
Print Assumptions C19_ipa_proof.

(* square root: one element per row, one row of scalars *)
Theorem C19_hyrax_commitment :
  forall g1 rows b, enc (hyrax_commitment g1) (VTuple [VVec rows]) = Some b ->
    N.of_nat (length b) = sz_vec (N.of_nat (length rows)) (N.of_nat g1).
Proof. exact (fun g1 => hyrax_commitment_size_spec g1 O O). Qed.
Print Assumptions C19_hyrax_commitment.

Theorem C19_hyrax_proof :
  forall g1 f a b0 c z zd zb re b, enc (hyrax_proof g1 f) (VTuple [a; b0; c; VVec z; zd; zb; re]) = Some b ->
    N.of_nat (length b) = (3 * N.of_nat g1 + sz_vec (N.of_nat (length z)) (N.of_nat f) + 3 * N.of_nat f)%N.
Proof. exact (fun g1 f => hyrax_proof_size_spec g1 O f). Qed.
Print Assumptions C19_hyrax_proof.

(* code-based schemes: constant-size commitment; proof = t paths + one row + t columns (+ one row) *)
Theorem C19_lincode_commitment :
  forall a b0 c root b, enc lincode_commitment (VTuple [VTuple [a; b0; c]; VBytes root]) = Some b ->
    N.of_nat (length b) = lincode_commitment_size (N.of_nat (length root)).
Proof. exact (lincode_commitment_size_spec O O O). Qed.
Print Assumptions C19_lincode_commitment.

Theorem C19_lincode_proof :
  forall f d depth paths v cols wf b,
    enc (lincode_proof f) (VTuple [VTuple [VVec paths; VVec v; VVec cols]; VOption wf]) = Some b ->
    Forall (path_shape d depth) paths -> length cols = length paths ->
    forall n_rows, Forall (fun c => exists l, c = VVec l /\ length l = n_rows) cols ->
    (match wf with Some w => exists l, w = VVec l /\ length l = length v | None => True end) ->
    N.of_nat (length b) =
    lincode_proof_size (N.of_nat f) (N.of_nat d) (N.of_nat n_rows) (N.of_nat (length v)) (N.of_nat (length paths)) (N.of_nat depth)
                       (match wf with Some _ => true | None => false end).
Proof. exact (fun f => lincode_proof_size_spec O O f). Qed.
Print Assumptions C19_lincode_proof.

(* Ligero with the crate's parameters (128-bit security, SHA-256/Blake2s digests, BLS12-381 scalars; rate 1/4 for the
   univariate and 1/2 for the multilinear instantiation): along the ladder of the property (degrees 2..256 and 2..12
   variables, geometric) the proof size at the dimensions compute_dimensions chooses is within 4x of the best
   power-of-two row count, with and without the well-formedness row (shapes opening fewer columns than the codeword has;
   where the chosen shape itself opens every column the whole encoded matrix is shipped and nothing is claimed) *)
Theorem C19_ligero_uni_within_4x :
  forall n, In n ladder_uni ->
    within_4x 128 4 bls_r 3000 32 32 true n = true /\ within_4x 128 4 bls_r 3000 32 32 false n = true.
Proof. exact ligero_uni_within_4x. Qed.
Print Assumptions C19_ligero_uni_within_4x.

Theorem C19_ligero_ml_within_4x :
  forall n, In n ladder_ml ->
    within_4x 128 2 bls_r 3000 32 32 true n = true /\ within_4x 128 2 bls_r 3000 32 32 false n = true.
Proof. exact ligero_ml_within_4x. Qed.
Print Assumptions C19_ligero_ml_within_4x.
