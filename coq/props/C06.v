(* C06 - linear-combination openings prove exactly the stated combinations.  Statements only. *)
From Coq Require Import List Arith NArith.
From PC Require Import Base.Field Base.Result Base.Poly Base.OrdMap Schemes.KZG10 Schemes.LC Schemes.Marlin Schemes.MarlinLC
     Proofs.MarlinComplete Proofs.MarlinLCFacts.
Import ListNotations.
Open Scope F_scope.

(* homomorphic path (Marlin / PST13 wrappers): for polynomials without degree bounds, the
   combined (polynomial, randomness, commitment) is an honest commitment triple of exactly the
   stated combination (its value plus the constant terms is the combination's value), for every
   coefficient list including zero / negative coefficients, repeated labels and constant terms *)
Theorem C06_combination_is_honest_commitment :
  forall (FO : FieldOps) (FL : FieldLaws FO) ck g gam b D m lm (l : lcomb) lp st c,
    lm_honest ck g gam b D m lm ->
    (forall co lab lp' st' c', In (co, TPoly lab) (snd l) -> lookup N.compare lab lm = Some (lp', st', c') -> lp_bound lp' = None) ->
    lc_prover_one lm l = Ok (lp, st, c) ->
    honest ck g gam b D m (lp, st) c /\ lp_label lp = fst l /\ lc_label c = fst l /\
    forall x, eval (lp_poly lp) x + lc_const (snd l) = lc_value (poly_of lm x) (snd l).
Proof. exact @lc_prover_one_unbounded. Qed.
Print Assumptions C06_combination_is_honest_commitment.

(* a single degree-bounded polynomial with coefficient one keeps its bound and shifted part *)
Theorem C06_single_bounded_term_keeps_bound :
  forall (FO : FieldOps) (FL : FieldLaws FO) ck g gam b D m lm lab l lp0 st0 c0 d lp st c,
    lm_honest ck g gam b D m lm -> lookup N.compare l lm = Some (lp0, st0, c0) -> lp_bound lp0 = Some d ->
    lc_prover_one lm (lab, [(1, TPoly l)]) = Ok (lp, st, c) ->
    honest ck g gam b D m (lp, st) c /\ lp_bound lp = Some d /\ forall x, eval (lp_poly lp) x = eval (lp_poly lp0) x.
Proof. exact @lc_prover_one_bounded_single. Qed.
Print Assumptions C06_single_bounded_term_keeps_bound.

(* degree-bound policy: a degree-bounded polynomial mixed with other terms is refused, by
   prover and verifier alike; alone with another coefficient it aborts *)
Theorem C06_prover_refuses_bounded_mix :
  forall (FO : FieldOps) lm num coeff l t a lp st c d,
    lookup N.compare l lm = Some (lp, st, c) -> lp_bound lp = Some d -> num <> 1%nat ->
    lc_prover_loop lm num ((coeff, TPoly l) :: t) a = Err EEquationHasDegreeBounds.
Proof. exact @prover_refuses_bounded_mix. Qed.
Print Assumptions C06_prover_refuses_bounded_mix.

Theorem C06_verifier_refuses_bounded_mix :
  forall (FO : FieldOps) cm lab num coeff l t ev b ccs c d,
    lookup N.compare l cm = Some c -> lc_bound c = Some d -> num <> 1%nat ->
    lc_verifier_loop cm lab num ((coeff, TPoly l) :: t) ev b ccs = Err EEquationHasDegreeBounds.
Proof. exact @verifier_refuses_bounded_mix. Qed.
Print Assumptions C06_verifier_refuses_bounded_mix.

Theorem C06_bounded_alone_needs_coefficient_one :
  forall (FO : FieldOps) (FL : FieldLaws FO) coeff d cur, coeff <> 1 -> bound_policy 1 coeff (Some d) cur = Panic.
Proof. exact @policy_bounded_alone_other_coeff. Qed.
Print Assumptions C06_bounded_alone_needs_coefficient_one.

(* constant terms are moved into the claimed values of that combination only *)
Theorem C06_constant_term_moves_to_claim :
  forall (FO : FieldOps) cm lab num coeff t ev b ccs,
    lc_verifier_loop cm lab num ((coeff, TOne) :: t) ev b ccs =
    lc_verifier_loop cm lab num t
      (map (fun kv => if N.eqb (fst (fst kv)) lab then (fst kv, snd kv - coeff) else kv) ev) b ccs.
Proof. exact @constant_term_moves_to_claim. Qed.
Print Assumptions C06_constant_term_moves_to_claim.

(* trait-default path: the combination value recomputed from the transmitted evaluations is
   the combination's value; a claim that differs from it is rejected whatever the proof;
   when all claims match the decision is the inner batch verification *)
Theorem C06_default_rhs_is_combination_value :
  forall (FO : FieldOps) (FL : FieldLaws FO) pev point ev terms,
    (forall l, In l (poly_labels terms) -> lookup qkey_cmp (l, point) pev = Some (ev l)) ->
    lc_rhs pev point terms = Ok (lc_value ev terms).
Proof. exact @lc_rhs_is_lc_value. Qed.
Print Assumptions C06_default_rhs_is_combination_value.

Theorem C06_default_claim_mismatch_rejects :
  forall (FO : FieldOps) (FL : FieldLaws FO) lm pev eqn_ev lab pl point terms claimed actual t,
    lookup N.compare lab lm = Some terms ->
    lookup qkey_cmp (lab, point) eqn_ev = Some claimed ->
    lc_rhs pev point terms = Ok actual -> claimed <> actual ->
    default_lc_values lm pev eqn_ev ((lab, (pl, point)) :: t) = Some (Ok false).
Proof. exact @default_claim_mismatch_rejects. Qed.
Print Assumptions C06_default_claim_mismatch_rejects.

Theorem C06_default_decision_is_inner_batch_check :
  forall (FO : FieldOps) bc lcs eqn_qs eqn_ev tv,
    default_lc_values (lcs_map lcs)
      (of_list qkey_cmp (combine (poly_point_keys (lc_query_set_to_poly_query_set lcs eqn_qs)) tv))
      (evals_map eqn_ev) (set_of_list query_cmp eqn_qs) = None ->
    default_check_combinations bc lcs eqn_qs eqn_ev (Some tv) =
    (do b <- bc (lc_query_set_to_poly_query_set lcs eqn_qs)
                (of_list qkey_cmp (combine (poly_point_keys (lc_query_set_to_poly_query_set lcs eqn_qs)) tv)); Ok b).
Proof. exact @default_decision_is_inner_batch_check. Qed.
Print Assumptions C06_default_decision_is_inner_batch_check.

(* the default check_combinations of the trait (Hyrax, Ligero, Brakedown), for any scheme: it accepts only if the claimed
   value of EVERY equation query - every equation at every one of its points - equals the combination of the polynomial
   evaluations sent with the proof, and the default batch check of those evaluations accepts *)
From PC Require Import Base.OrdMap Schemes.LC Schemes.DefaultBatch Proofs.DefaultBatchFacts.
Theorem C06_default_check_combinations_every_claim :
  forall (FO : FieldOps) (FL : FieldLaws FO) (Comm Proof St : Type)
         (check : list Comm -> point -> list F -> Proof -> St -> res (bool * St)) lcs cs eqn_qs eqn_ev proofs evs st st',
    default_check_combinations Comm Proof St check lcs cs eqn_qs eqn_ev proofs (Some evs) st = Ok (true, st') ->
    let lcm := lcs_map lcs in
    let pqs := lc_qs_to_poly_qs lcm eqn_qs in
    let pev := combine (poly_point_keys pqs) evs in
    Forall (claim_holds lcm pev eqn_ev) eqn_qs /\
    default_batch_check Comm Proof St check cs pqs (map (fun kv => (fst (fst kv), snd (fst kv), snd kv)) pev) proofs st = Ok (true, st').
Proof. exact @default_check_combinations_true. Qed.
Print Assumptions C06_default_check_combinations_every_claim.

(* Sonic's own open_combinations / check_combinations: the homomorphic combination of honest commitments (each consistent with
   the shift element of its bound) to polynomials without degree bounds is an honest commitment triple of exactly the stated
   combination; a single degree-bounded polynomial with coefficient one keeps its bound and stays honest for it; a bounded
   polynomial in a mix is refused by prover and verifier; constant terms move into the claims of that combination only; the
   verifier's combined commitment is the coefficient-weighted sum of the commitments it looked up *)
From PC Require Import Schemes.Sonic Schemes.SonicLC Proofs.SonicLCFacts.
Theorem C06_sonic_combination_is_honest_commitment :
  forall (FO : FieldOps) (FL : FieldLaws FO) vk h g gam beta m lm (l : lcomb) lp st c,
    s_lm_honest vk h g gam beta m lm ->
    (forall co lab lp' st' c', In (co, TPoly lab) (snd l) -> lookup N.compare lab lm = Some (lp', st', c') -> lp_bound lp' = None) ->
    slc_prover_one lm l = Ok (lp, st, c) ->
    s_honest vk h g gam beta m (lp, st, fst c) /\ lp_label lp = fst l /\ snd c = lp_bound lp /\ lp_bound lp = None /\
    forall x, eval (lp_poly lp) x + lc_const (snd l) = lc_value (s_poly_of lm x) (snd l).
Proof. exact @slc_prover_one_unbounded. Qed.
Print Assumptions C06_sonic_combination_is_honest_commitment.

Theorem C06_sonic_single_bounded_term_keeps_bound :
  forall (FO : FieldOps) (FL : FieldLaws FO) vk h g gam beta m lm lab l lp0 st0 c0 d lp st c,
    s_lm_honest vk h g gam beta m lm -> lookup N.compare l lm = Some (lp0, st0, c0) -> lp_bound lp0 = Some d ->
    slc_prover_one lm (lab, [(1, TPoly l)]) = Ok (lp, st, c) ->
    s_honest vk h g gam beta m (lp, st, fst c) /\ lp_bound lp = Some d /\ snd c = Some d /\
    forall x, eval (lp_poly lp) x = eval (lp_poly lp0) x.
Proof. exact @slc_prover_one_bounded_single. Qed.
Print Assumptions C06_sonic_single_bounded_term_keeps_bound.

Theorem C06_sonic_prover_refuses_bounded_mix :
  forall (FO : FieldOps) lm num coeff l t a lp st c d,
    lookup N.compare l lm = Some (lp, st, c) -> lp_bound lp = Some d -> num <> 1%nat ->
    slc_prover_loop lm num ((coeff, TPoly l) :: t) a = Err EEquationHasDegreeBounds.
Proof. exact @s_prover_refuses_bounded_mix. Qed.
Print Assumptions C06_sonic_prover_refuses_bounded_mix.

Theorem C06_sonic_verifier_refuses_bounded_mix :
  forall (FO : FieldOps) cm lab num coeff l t ev b cc c d,
    lookup N.compare l cm = Some (c, Some d) -> num <> 1%nat ->
    slc_verifier_loop cm lab num ((coeff, TPoly l) :: t) ev b cc = Err EEquationHasDegreeBounds.
Proof. exact @s_verifier_refuses_bounded_mix. Qed.
Print Assumptions C06_sonic_verifier_refuses_bounded_mix.

Theorem C06_sonic_constant_term_moves_to_claim :
  forall (FO : FieldOps) cm lab num coeff t ev b cc,
    slc_verifier_loop cm lab num ((coeff, TOne) :: t) ev b cc =
    slc_verifier_loop cm lab num t
      (map (fun kv => if N.eqb (fst (fst kv)) lab then (fst kv, snd kv - coeff) else kv) ev) b cc.
Proof. exact @s_constant_term_moves_to_claim. Qed.
Print Assumptions C06_sonic_constant_term_moves_to_claim.

Theorem C06_sonic_verifier_combined_commitment :
  forall (FO : FieldOps) (FL : FieldLaws FO) cm lab num terms ev b cc ev' b' cc',
    slc_verifier_loop cm lab num terms ev b cc = Ok (ev', b', cc') -> cc' = cc + s_comm_value cm terms.
Proof. exact @s_verifier_loop_comm. Qed.
Print Assumptions C06_sonic_verifier_combined_commitment.

(* IPA's own open_combinations / check_combinations (free-module view): the prover's combination of honest commitments to
   polynomials without degree bounds is the honest commitment (key-defined linear map plus blinding term) of exactly the stated
   combination with the combined randomness - one flat element, no shifted part; every commitment made by commit is honest in
   this sense; the verifier's combined commitment is the coefficient-weighted sum of the commitments it looked up; bounded mixes
   are refused by both sides; constants move into the claims of their own combination *)
From PC Require Import Schemes.IPA Proofs.IPAFacts Schemes.IPABatch Proofs.IPALCFacts.
Theorem C06_ipa_combination_is_honest_commitment :
  forall (FO : FieldOps) (FL : FieldLaws FO) d lm lab terms a,
    i_lm_honest d lm ->
    (forall co0 l lp st c, In (co0, TPoly l) terms -> lookup N.compare l lm = Some (lp, st, c) -> lp_bound lp = None) ->
    ilc_prover_loop lm (length terms) terms
      {| ia_poly := []; ia_bound := None; ia_hiding := None; ia_rand := f0; ia_srand := None; ia_cc := []; ia_cs := None |} = Ok a ->
    i_honest d ({| lp_label := lab; lp_poly := ia_poly a; lp_bound := ia_bound a; lp_hiding := ia_hiding a |},
                {| ir_rand := ia_rand a; ir_shifted := ia_srand a |},
                ({| ic_comm := ia_cc a; ic_shifted := ia_cs a |}, ia_bound a)) /\
    ia_bound a = None /\ flat_of (ia_cc a) (ia_cs a) = [ia_cc a] /\
    forall x, eval (ia_poly a) x + lc_const terms = lc_value (i_poly_of lm x) terms.
Proof. exact @ilc_prover_one_unbounded. Qed.
Print Assumptions C06_ipa_combination_is_honest_commitment.

Theorem C06_ipa_commit_is_honest :
  forall (FO : FieldOps) (FL : FieldLaws FO) d lp rng cm st n b,
    i_commit1 d lp rng = Ok (cm, st, n) -> i_honest d (lp, st, (cm, b)).
Proof. exact @commit1_i_honest. Qed.
Print Assumptions C06_ipa_commit_is_honest.

Theorem C06_ipa_verifier_combined_commitment :
  forall (FO : FieldOps) (FL : FieldLaws FO) cm lab num terms ev b cc cs ev' b' cc' cs',
    ilc_verifier_loop cm lab num terms ev b cc cs = Ok (ev', b', cc', cs') ->
    forall i, co i cc' = co i cc + i_comm_value i cm terms.
Proof. exact @ilc_verifier_loop_comm. Qed.
Print Assumptions C06_ipa_verifier_combined_commitment.

Theorem C06_ipa_prover_refuses_bounded_mix :
  forall (FO : FieldOps) lm num coeff l t a lp st c b,
    lookup N.compare l lm = Some (lp, st, c) -> lp_bound lp = Some b -> num <> 1%nat ->
    ilc_prover_loop lm num ((coeff, TPoly l) :: t) a = Err EEquationHasDegreeBounds.
Proof. exact @ilc_prover_refuses_bounded_mix. Qed.
Print Assumptions C06_ipa_prover_refuses_bounded_mix.

Theorem C06_ipa_verifier_refuses_bounded_mix :
  forall (FO : FieldOps) cm lab num coeff l t ev b cc cs c sc bd,
    lookup N.compare l cm = Some (c, Some bd) -> ic_shifted c = Some sc -> num <> 1%nat ->
    ilc_verifier_loop cm lab num ((coeff, TPoly l) :: t) ev b cc cs = Err EEquationHasDegreeBounds.
Proof. exact @ilc_verifier_refuses_bounded_mix. Qed.
Print Assumptions C06_ipa_verifier_refuses_bounded_mix.

(* PST13's open_combinations / check_combinations (free-module view over (g, gamma_g)): the prover's combination of commitments
   that are the evaluations of (polynomial, blinding polynomial) at the trapdoor is the commitment of the combined polynomial
   with the combined blinding polynomial, and it evaluates to the stated combination; the verifier forms the same weighted sum;
   constants move into the claims of their own combination *)
From PC Require Import Schemes.PST13 Schemes.PST13H Proofs.PST13HFacts Schemes.PST13Batch Proofs.PST13LCFacts.
Theorem C06_pst13_combination_is_honest_commitment :
  forall (FO : FieldOps) (FL : FieldLaws FO) betas lm terms p r c,
    p_lm_honest betas lm ->
    plc_prover_loop lm terms [] [] [] = Ok (p, r, c) ->
    (forall i, co i c = co i (comm_of betas (p, Some r))) /\
    forall x, eval_mpoly x p + lc_const terms = lc_value (p_poly_of lm x) terms.
Proof. exact @plc_combination_is_honest_commitment. Qed.
Print Assumptions C06_pst13_combination_is_honest_commitment.

Theorem C06_pst13_verifier_combined_commitment :
  forall (FO : FieldOps) (FL : FieldLaws FO) cm lab terms ev c ev' c',
    plc_verifier_loop cm lab terms ev c = Ok (ev', c') -> forall i, co i c' = co i c + p_comm_value i cm terms.
Proof. exact @plc_verifier_loop_comm. Qed.
Print Assumptions C06_pst13_verifier_combined_commitment.

Theorem C06_pst13_constant_term_moves_to_claim :
  forall (FO : FieldOps) cm lab coeff t ev c,
    plc_verifier_loop cm lab ((coeff, TOne) :: t) ev c =
    plc_verifier_loop cm lab t (map (fun kv => if N.eqb (fst (fst kv)) lab then (fst kv, snd kv - coeff) else kv) ev) c.
Proof. exact @plc_constant_term_moves_to_claim. Qed.
Print Assumptions C06_pst13_constant_term_moves_to_claim.

(* completeness of the trait's default open_combinations / check_combinations, for ANY scheme whose own open / check are complete
   on one point (same final transcript state): when every claimed value is the stated combination of the true evaluations and the
   equation query set has one point per point label, the verifier accepts and ends in the prover's transcript state.  Instance:
   the linear codes (Ligero univariate / multilinear, Brakedown) *)
From PC Require Import Proofs.DefaultBatchComplete Proofs.DefaultLCComplete.
Theorem C06_default_combinations_complete :
  forall (FO : FieldOps) (FL : FieldLaws FO) (Comm Item Proof St : Type)
         (check : list Comm -> point -> list F -> Proof -> St -> res (bool * St))
         (open : list Item -> point -> St -> res (Proof * St))
         (R : Item -> Comm -> Prop) (value : Item -> point -> F),
    (forall items cs pt st pf st', Forall2 R items cs -> open items pt st = Ok (pf, st') ->
                                  check cs pt (map (fun it => value it pt) items) pf st = Ok (true, st')) ->
    forall lcs items cs eqn_qs eqn_ev st pfs evs st',
      maps_agree Comm Item R (label_map items) (label_map cs) ->
      one_point_per_label eqn_qs ->
      (forall q terms, In q eqn_qs -> OrdMap.lookup N.compare (fst q) (lcs_map lcs) = Some terms ->
          lookup_pk (fst q, snd (snd q)) eqn_ev = Some (lc_value (item_value Item value (label_map items) (snd (snd q))) terms)) ->
      default_open_combinations Item Proof St open value lcs items eqn_qs st = Ok (pfs, evs, st') ->
      default_check_combinations Comm Proof St check lcs cs eqn_qs eqn_ev pfs (Some evs) st = Ok (true, st').
Proof. exact @default_lc_complete. Qed.
Print Assumptions C06_default_combinations_complete.

From PC Require Import Schemes.Ligero Schemes.LinCodeList Proofs.LinCodeListFacts.
Theorem C06_lincode_combinations_complete :
  forall (FO : FieldOps) (FL : FieldLaws FO) tensor wf lcs items cs eqn_qs eqn_ev tape pfs evs rest,
    maps_agree LCm (LCm * list (list F)) R_lc (label_map items) (label_map cs) ->
    one_point_per_label eqn_qs ->
    (forall q terms, In q eqn_qs -> OrdMap.lookup N.compare (fst q) (lcs_map lcs) = Some terms ->
        lookup_pk (fst q, snd (snd q)) eqn_ev
        = Some (LC.lc_value (item_value (LCm * list (list F)) (fun it pt => LinCodeListFacts.lc_value tensor pt it) (label_map items) (snd (snd q))) terms)) ->
    default_open_combinations (LCm * list (list F)) (list LProof) (list sq_ev) (lc_open_list tensor wf)
                              (fun it pt => LinCodeListFacts.lc_value tensor pt it) lcs items eqn_qs tape = Ok (pfs, evs, rest) ->
    default_check_combinations LCm (list LProof) (list sq_ev) (lc_check_list tensor wf) lcs cs eqn_qs eqn_ev pfs (Some evs) tape
    = Ok (true, rest).
Proof. exact @lc_combinations_complete. Qed.
Print Assumptions C06_lincode_combinations_complete.

(* Sonic open_combinations -> check_combinations, end to end: for honest commitments, combinations under distinct labels and claims
   that are the stated combinations of the true evaluations, the verifier accepts whatever randomizers it draws and ends on the
   prover's tape position.  No condition on the combinations: whenever the prover succeeds (polynomials without degree bounds, or
   one degree-bounded polynomial alone with coefficient one - the bound policy refuses everything else), the verifier accepts *)
From PC Require Import Proofs.SonicLCComplete.
Theorem C06_sonic_combinations_complete :
  forall (FO : FieldOps) (FL : FieldLaws FO) g gam h beta n m ck vk,
    sck_g ck = gpowers g f1 beta n -> sck_gamma ck = gpowers gam f1 beta m ->
    vk_g (svk_vk vk) = g -> vk_gamma_g (svk_vk vk) = gam -> vk_h (svk_vk vk) = h -> vk_beta_h (svk_vk vk) = fmul h beta ->
    forall lcs items cs qs ev chal vtape pfs rest,
      s_lm_honest vk h g gam beta m (s_label_map items) ->
      sl_agree (s_label_map items) (s_comm_map cs) ->
      NoDup (map fst lcs) ->
      (forall pl pt labels lab terms, In (pl, (pt, labels)) (group_queries qs) -> In lab labels -> In (lab, terms) lcs ->
          lookup qkey_cmp (lab, pt) (evals_map ev) = Some (LC.lc_value (s_poly_of (s_label_map items) pt) terms)) ->
      (length (group_queries qs) <= length vtape)%nat ->
      s_open_combinations ck lcs items qs chal = Ok (pfs, rest) ->
      s_check_combinations vk lcs cs qs ev pfs chal vtape = Ok (true, rest, length (group_queries qs)).
Proof. exact @sonic_lc_complete. Qed.
Print Assumptions C06_sonic_combinations_complete.

(* Marlin open_combinations -> check_combinations, end to end (same shape as the Sonic theorem, again with no condition on the
   combinations themselves; the second premise is the side condition of the single-point theorem C01_marlin_complete, asked of
   every group) *)
From PC Require Import Proofs.MarlinBatchComplete Proofs.MarlinLCComplete.
Theorem C06_marlin_combinations_complete :
  forall (FO : FieldOps) (FL : FieldLaws FO) ck vk g gam h b D hi n m,
    KeyOK ck vk g gam h b D hi n m ->
    (forall z items chal a r,
        Marlin.open_loop ck z items chal MarlinComplete.oacc0 = Ok (a, r) ->
        is_hiding (trim (Marlin.oa_r a)) = false -> eval (Marlin.oa_sr a) z = f0) ->
    forall lcs items cs qs ev chal vtape pfs rest,
      lm_honest ck g gam b D m (MarlinLC.label_map items) ->
      ml_agree (MarlinLC.label_map items) (comm_map cs) ->
      NoDup (map fst lcs) ->
      (forall pl pt labels lab terms, In (pl, (pt, labels)) (group_queries qs) -> In lab labels -> In (lab, terms) lcs ->
          lookup qkey_cmp (lab, pt) (evals_map ev) = Some (LC.lc_value (poly_of (MarlinLC.label_map items) pt) terms)) ->
      (length (group_queries qs) <= length vtape)%nat ->
      mopen_combinations ck lcs items qs chal = Ok (pfs, rest) ->
      mcheck_combinations vk lcs cs qs ev pfs chal vtape = Ok (true, rest, length (group_queries qs)).
Proof. exact @marlin_lc_complete. Qed.
Print Assumptions C06_marlin_combinations_complete.

(* the same with separate prover / verifier states (simulation) and a side condition on the points; instance: Hyrax *)
Theorem C06_default_combinations_complete_sim :
  forall (FO : FieldOps) (FL : FieldLaws FO) (Comm Item Proof PSt VSt : Type)
         (check : list Comm -> point -> list F -> Proof -> VSt -> res (bool * VSt))
         (open : list Item -> point -> PSt -> res (Proof * PSt))
         (R : Item -> Comm -> Prop) (value : Item -> point -> F) (sim : PSt -> VSt -> Prop) (okpt : point -> Prop),
    (forall items cs pt st vst pf st', okpt pt -> Forall2 R items cs -> sim st vst -> open items pt st = Ok (pf, st') ->
       exists vst', check cs pt (map (fun it => value it pt) items) pf vst = Ok (true, vst') /\ sim st' vst') ->
    forall lcs items cs eqn_qs eqn_ev st vst pfs evs st',
      maps_agree Comm Item R (label_map items) (label_map cs) ->
      one_point_per_label eqn_qs ->
      (forall q, In q eqn_qs -> okpt (snd (snd q))) ->
      (forall q terms, In q eqn_qs -> OrdMap.lookup N.compare (fst q) (lcs_map lcs) = Some terms ->
          lookup_pk (fst q, snd (snd q)) eqn_ev = Some (LC.lc_value (item_value Item value (label_map items) (snd (snd q))) terms)) ->
      sim st vst ->
      default_open_combinations Item Proof PSt open value lcs items eqn_qs st = Ok (pfs, evs, st') ->
      exists vst', default_check_combinations Comm Proof VSt check lcs cs eqn_qs eqn_ev pfs (Some evs) vst = Ok (true, vst') /\ sim st' vst'.
Proof. exact @default_lc_complete_sim. Qed.
Print Assumptions C06_default_combinations_complete_sim.

From PC Require Import Schemes.MLPC Schemes.Hyrax Proofs.HyraxFacts Proofs.HyraxBatchFacts.
Theorem C06_hyrax_combinations_complete :
  forall (FO : FieldOps) (FL : FieldLaws FO) keylen nv,
    (1 <= keylen)%nat -> keylen = (2 ^ (nv / 2))%nat ->
    forall lcs items cs eqn_qs eqn_ev ot ch pfs evs ot' ch',
    maps_agree (list gel) HState (hb_R keylen nv) (label_map items) (label_map cs) ->
    one_point_per_label eqn_qs ->
    (forall q, In q eqn_qs -> hb_okpt keylen nv (snd (snd q))) ->
    (forall q terms, In q eqn_qs -> OrdMap.lookup N.compare (fst q) (lcs_map lcs) = Some terms ->
        lookup_pk (fst q, snd (snd q)) eqn_ev = Some (LC.lc_value (item_value HState (hb_value keylen) (label_map items) (snd (snd q))) terms)) ->
    default_open_combinations HState (list HProof) (list F * list F) (hb_open keylen) (hb_value keylen) lcs items eqn_qs (ot, ch) = Ok (pfs, evs, (ot', ch')) ->
    default_check_combinations (list gel) (list HProof) (list F) (hb_check keylen) lcs cs eqn_qs eqn_ev pfs (Some evs) ch = Ok (true, ch').
Proof. exact @hyrax_lc_complete. Qed.
Print Assumptions C06_hyrax_combinations_complete.

(* Marlin-PST13 open_combinations -> check_combinations, end to end (free-module view): honest commitments (coordinate-wise the
   evaluations of well-formed polynomials and blinding polynomials at the trapdoor), distinct combination labels, points with at
   least num_vars coordinates, claims that are the stated combinations of the true evaluations *)
From PC Require Import Proofs.PST13BatchComplete Proofs.PST13LCComplete.
Theorem C06_pst13_combinations_complete :
  forall (FO : FieldOps) (FL : FieldLaws FO) nv s betas lcs items cs qs ev chal vtape pfs rest,
    pl_honest nv betas (of_list N.compare items) ->
    pl_agree (of_list N.compare items) (of_list N.compare cs) ->
    NoDup (map fst lcs) ->
    (forall pl pt labels, In (pl, (pt, labels)) (groups qs) -> (nv <= length pt)%nat) ->
    (forall pl pt labels lab terms, In (pl, (pt, labels)) (groups qs) -> In lab labels -> In (lab, terms) lcs ->
        lookup_eval lab pt ev = Some (LC.lc_value (p_poly_of (of_list N.compare items) pt) terms)) ->
    (length (groups qs) <= length vtape)%nat ->
    pst_open_combinations nv s betas lcs items qs chal = Ok (pfs, rest) ->
    pst_check_combinations nv betas lcs cs qs ev pfs chal vtape = Ok (true, rest, length (groups qs)).
Proof. exact @pst13_lc_complete. Qed.
Print Assumptions C06_pst13_combinations_complete.

(* IPA open_combinations -> check_combinations, end to end (free-module view): items that are commitments to their polynomials in
   the sense the opening needs (sem_honest: what commit produces, honest_sem), the verifier holding the same commitments,
   distinct combination labels, a key size that is a power of two, non-zero round challenges, claims that are the stated
   combinations of the true evaluations.  No condition on the combinations themselves: whenever the prover succeeds (polynomials
   without degree bounds, or one degree-bounded polynomial alone with coefficient one), the verifier accepts *)
From PC Require Import Proofs.IPAComplete Proofs.IPABatchComplete Proofs.IPALCComplete.
Theorem C06_ipa_combinations_complete :
  forall (FO : FieldOps) (FL : FieldLaws FO) d,
    (d + 1 = 2 ^ Nat.log2_up (d + 1))%nat ->
    forall lcs items cs qs ev chal hchal rng vtape pfs rest hrest rng',
    il_honest d (of_list N.compare (map (fun it => (lp_label (fst (fst it)), it)) items)) ->
    il_agree (of_list N.compare (map (fun it => (lp_label (fst (fst it)), it)) items)) (of_list N.compare cs) ->
    NoDup (map fst lcs) ->
    Forall (fun rc => rc <> 0) hchal ->
    (forall pl pt labels lab terms, In (pl, (pt, labels)) (groups qs) -> In lab labels -> In (lab, terms) lcs ->
        lookup_eval lab pt ev
        = Some (LC.lc_value (i_poly_of (of_list N.compare (map (fun it => (lp_label (fst (fst it)), it)) items)) (hd 0 pt)) terms)) ->
    (length (groups qs) <= length vtape)%nat ->
    i_open_combinations d lcs items qs (chal, hchal, rng) = Ok (pfs, (rest, hrest, rng')) ->
    i_check_combinations d lcs cs qs ev pfs chal hchal vtape = Ok (true, rest, hrest, length (groups qs)).
Proof. exact @ipa_lc_complete. Qed.
Print Assumptions C06_ipa_combinations_complete.

(* commitments made by commit are commitments in that sense *)
Theorem C06_ipa_commit_is_sem_honest :
  forall (FO : FieldOps) (FL : FieldLaws FO) d lp rng cm st n,
    i_commit1 d lp rng = Ok (cm, st, n) -> sem_honest d (lp, lp_bound lp, cm, st).
Proof. exact @commit1_sem_honest. Qed.
Print Assumptions C06_ipa_commit_is_sem_honest.

(* the trait-default check_combinations (Hyrax, the linear codes) compares EVERY queried (combination, point) claim: when it
   accepts, each query whose label names a combination found its claimed value, and that value is the combination of the
   transmitted evaluations at that query's point - also when one combination is queried at several points *)
From PC Require Import Proofs.DefaultLCSound.
Theorem C06_default_check_combinations_compares_every_claim :
  forall (FO : FieldOps) (FL : FieldLaws FO) (Comm Proof St : Type)
         (check : list Comm -> point -> list F -> Proof -> St -> res (bool * St))
         lcs cs eqn_qs eqn_ev proofs evs st st',
    default_check_combinations Comm Proof St check lcs cs eqn_qs eqn_ev proofs (Some evs) st = Ok (true, st') ->
    forall lab pl pt terms, In (lab, (pl, pt)) eqn_qs -> OrdMap.lookup N.compare lab (lcs_map lcs) = Some terms ->
      exists claimed actual,
        lookup_pk (lab, pt) eqn_ev = Some claimed /\
        lc_rhs (combine (poly_point_keys (lc_qs_to_poly_qs (lcs_map lcs) eqn_qs)) evs) pt terms f0 = Ok actual /\ claimed = actual.
Proof. exact @default_check_combinations_compares_every_claim. Qed.
Print Assumptions C06_default_check_combinations_compares_every_claim.
