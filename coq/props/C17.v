(* C17 - out-of-domain requests are refused, never answered with a wrong result; in-domain
   requests never abort.  Statements only. *)
From Coq Require Import List Arith NArith.
From PC Require Import Base.Field Base.Result Base.Poly Base.OrdMap Schemes.KZG10 Schemes.LC Schemes.Marlin
     Proofs.KZG10Facts Proofs.MarlinComplete Proofs.MarlinBounds Proofs.Hiding Proofs.Refusals.
Import ListNotations.
Open Scope F_scope.

Theorem C17_setup_refuses_degree_zero :
  forall (FO : FieldOps) g2 beta g gamma_g h, setup 0 g2 beta g gamma_g h = Err EDegreeIsZero.
Proof. exact @setup_refuses_degree_zero. Qed.
Print Assumptions C17_setup_refuses_degree_zero.

Theorem C17_setup_serves :
  forall (FO : FieldOps) D g2 beta g gamma_g h, (1 <= D)%nat -> exists up, setup D g2 beta g gamma_g h = Ok up.
Proof. exact @setup_serves. Qed.
Print Assumptions C17_setup_serves.

Theorem C17_commit_refuses_large_polynomial :
  forall (FO : FieldOps) pw p hb rng,
    (length (pw_g pw) < degree p + 1)%nat -> commit pw p hb rng = Err ETooManyCoefficients.
Proof. exact @commit_refuses_large_polynomial. Qed.
Print Assumptions C17_commit_refuses_large_polynomial.

Theorem C17_open_refuses_large_polynomial :
  forall (FO : FieldOps) pw p z r,
    (length (pw_g pw) < degree p + 1)%nat -> KZG10.open pw p z r = Err ETooManyCoefficients.
Proof. exact @open_refuses_large_polynomial. Qed.
Print Assumptions C17_open_refuses_large_polynomial.

Theorem C17_commit_refuses_large_hiding_bound :
  forall (FO : FieldOps) pw p h tape,
    (degree p + 1 <= length (pw_g pw))%nat -> (h + 2 <= length tape)%nat ->
    (length (pw_gamma_g pw) <= degree (trim (firstn (h + 2) tape)))%nat ->
    degree (trim (firstn (h + 2) tape)) <> O ->
    commit pw p (Some h) (Some tape) = Err EHidingBoundTooLarge.
Proof. exact @commit_refuses_large_hiding_bound. Qed.
Print Assumptions C17_commit_refuses_large_hiding_bound.

Theorem C17_hiding_without_rng :
  forall (FO : FieldOps) pw p h, refused (commit pw p (Some h) None).
Proof. exact @hiding_without_rng_kzg. Qed.
Print Assumptions C17_hiding_without_rng.

Theorem C17_trim_refuses_large_degree :
  forall (FO : FieldOps) up s sh bounds,
    (max_degree up < s)%nat -> mtrim up s sh bounds = Err ETrimmingDegreeTooLarge.
Proof. exact @trim_refuses_large_degree. Qed.
Print Assumptions C17_trim_refuses_large_degree.

Theorem C17_trim_refuses_large_hiding :
  forall (FO : FieldOps) up s sh bounds,
    (s <= max_degree up)%nat -> (length (up_powers_of_gamma_g up) < sh + 2)%nat -> mtrim up s sh bounds = Panic.
Proof. exact @trim_refuses_large_hiding. Qed.
Print Assumptions C17_trim_refuses_large_hiding.

Theorem C17_trim_refuses_large_bound :
  forall (FO : FieldOps) up s sh bounds,
    (s <= max_degree up)%nat -> (sh + 2 <= length (up_powers_of_gamma_g up))%nat ->
    (s < last (sort_dedup bounds) O)%nat -> sort_dedup bounds <> [] ->
    mtrim up s sh (Some bounds) = Err EUnsupportedDegreeBound.
Proof. exact @trim_refuses_large_bound. Qed.
Print Assumptions C17_trim_refuses_large_bound.

Theorem C17_commit_refuses_bad_bound :
  forall (FO : FieldOps) ck lp d rng,
    lp_bound lp = Some d -> bound_admissible ck (lp_poly lp) d = false -> exists e, commit1 ck lp rng = Err e.
Proof. exact @commit_refuses_bad_bound. Qed.
Print Assumptions C17_commit_refuses_bad_bound.

Theorem C17_unknown_polynomial_is_error :
  forall (FO : FieldOps) cm ev pt l t,
    lookup N.compare l cm = None -> gather cm ev pt (l :: t) = Err EMissingPolynomial.
Proof. exact @batch_unknown_polynomial_is_error. Qed.
Print Assumptions C17_unknown_polynomial_is_error.

Theorem C17_missing_evaluation_is_error :
  forall (FO : FieldOps) cm ev pt l t c,
    lookup N.compare l cm = Some c ->
    Bool.eqb (match lc_bound c with Some _ => true | None => false end)
             (match mc_shifted (lc_comm c) with Some _ => true | None => false end) = true ->
    lookup qkey_cmp (l, pt) ev = None -> gather cm ev pt (l :: t) = Err EMissingEvaluation.
Proof. exact @batch_missing_evaluation_is_error. Qed.
Print Assumptions C17_missing_evaluation_is_error.

(* in-domain requests are served without error or abort *)
Theorem C17_kzg10_serves :
  forall (FO : FieldOps) (FL : FieldLaws FO) D g2 beta g gamma_g h up s p z,
    setup D g2 beta g gamma_g h = Ok up -> (s <= D)%nat -> (degree p <= s)%nat ->
    exists c pf, commit (powers_of up s) p None None = Ok (c, [], O) /\ KZG10.open (powers_of up s) p z [] = Ok pf.
Proof. exact @kzg_serves. Qed.
Print Assumptions C17_kzg10_serves.

Theorem C17_marlin_commit_serves :
  forall (FO : FieldOps) (FL : FieldLaws FO) ck vk g gam h b D hi n m lp,
    KeyOK ck vk g gam h b D hi n m ->
    lp_hiding lp = None -> (degree (lp_poly lp) + 1 <= n)%nat ->
    (forall d, lp_bound lp = Some d -> bound_admissible ck (lp_poly lp) d = true) ->
    exists mc mr, commit1 ck lp None = Ok (mc, mr, O).
Proof. exact @marlin_commit_serves. Qed.
Print Assumptions C17_marlin_commit_serves.

(* multilinear PST: a polynomial with another number of variables than the key is refused by the committer
   and by the prover (defect a7c7271, repaired) *)
From Coq Require Import Arith List.
From PC Require Import Schemes.MLPC Proofs.MLPCFacts.
Theorem C17_multilinear_commit_refuses_wrong_num_vars :
  forall (FO : FieldOps) ck nvp f, nvp <> mp_nv ck -> ml_commit ck nvp f = Panic.
Proof. exact @ml_commit_refuses_wrong_num_vars. Qed.
Print Assumptions C17_multilinear_commit_refuses_wrong_num_vars.
Theorem C17_multilinear_open_refuses_wrong_num_vars :
  forall (FO : FieldOps) ck nvp f z, nvp <> mp_nv ck -> ml_open ck nvp f z = Panic.
Proof. exact @ml_open_refuses_wrong_num_vars. Qed.
Print Assumptions C17_multilinear_open_refuses_wrong_num_vars.
