(* C03 - no crafted or malformed proof proves a false claim (partial: see DESIGN.md).
   Statements only. *)
From Coq Require Import List Arith NArith.
From PC Require Import Base.Field Base.Result Base.Poly Schemes.KZG10
     Proofs.PolyFacts Proofs.KZG10Facts Proofs.KZG10Binding.
Import ListNotations.
Open Scope F_scope.

(* Binding against algebraic provers: honest commitment, adversarial witness given with its
   representation over the published powers, arbitrary blinding value and claimed value.
   Acceptance forces g*A(beta) + gamma_g*B(beta) = 0 for explicit polynomials, and A is
   non-zero (A(z) <> 0) whenever the claimed value is false. *)
Theorem C03_kzg10_agm_binding :
  forall (FO : FieldOps) (FL : FieldLaws FO) g gamma_g h beta P R W Wr z v' rvo,
    h <> 0 ->
    check {| vk_g := g; vk_gamma_g := gamma_g; vk_h := h; vk_beta_h := h * beta |}
          (g * eval P beta + gamma_g * eval R beta) z v'
          {| pf_w := g * eval W beta + gamma_g * eval Wr beta; pf_random_v := rvo |} = Ok true ->
    let rv := match rvo with Some x => x | None => 0 end in
    g * eval (agm_A P W z v') beta + gamma_g * eval (agm_B R Wr z rv) beta = 0 /\
    (v' <> eval P z -> eval (agm_A P W z v') z <> 0).
Proof. exact @kzg_agm_binding. Qed.
Print Assumptions C03_kzg10_agm_binding.

(* a non-zero polynomial of length n has fewer than n roots: the coincidence set is small *)
Theorem C03_roots_bound :
  forall (FO : FieldOps) (FL : FieldLaws FO) (roots : list F) (p : poly),
    NoDup roots -> (forall r, In r roots -> eval p r = 0) -> (length (trim p) <= length roots)%nat ->
    forall x, eval p x = 0.
Proof. exact @poly_roots_zero. Qed.
Print Assumptions C03_roots_bound.

(* single-component replacement: another witness element *)
Theorem C03_kzg10_replaced_witness :
  forall (FO : FieldOps) (FL : FieldLaws FO) vk c z v w w' rv,
    check vk c z v {| pf_w := w; pf_random_v := rv |} = Ok true ->
    (check vk c z v {| pf_w := w'; pf_random_v := rv |} = Ok true <->
     (w' - w) * (vk_beta_h vk - vk_h vk * z) = 0).
Proof. exact @kzg_w_change. Qed.
Print Assumptions C03_kzg10_replaced_witness.

(* single-component replacement: another blinding evaluation *)
Theorem C03_kzg10_replaced_blinding :
  forall (FO : FieldOps) (FL : FieldLaws FO) vk c z v w rv rv',
    vk_gamma_g vk <> 0 -> vk_h vk <> 0 ->
    check vk c z v {| pf_w := w; pf_random_v := Some rv |} = Ok true ->
    (check vk c z v {| pf_w := w; pf_random_v := Some rv' |} = Ok true <-> rv' = rv).
Proof. exact @kzg_rv_change. Qed.
Print Assumptions C03_kzg10_replaced_blinding.

(* shape: a batch with missing / surplus proofs, points or values is refused *)
Theorem C03_kzg10_batch_shape :
  forall (FO : FieldOps) vk cs zs vs pfs tape,
    (length zs <> length cs \/ length vs <> length cs \/ length pfs <> length cs) ->
    batch_check vk cs zs vs pfs tape = Err EIncorrectInputLength.
Proof. exact @batch_check_lengths. Qed.
Print Assumptions C03_kzg10_batch_shape.

(* Ligero (univariate; ideal column commitment): whatever proof is presented against the committed matrix - any vector,
   any columns, any paths, any well-formedness vector - if the verifier's loops pass although the vector sent is not
   the b-combination of the committed rows, then the queried positions contain fewer than n_cols distinct ones, out of
   the n_ext = rho_inv * n_cols positions of the codeword: the agreement set that the number of queries t is
   computed against (C13).  The positions of the FFT domain are distinct for a primitive n_ext-th root of unity. *)
From PC Require Import Schemes.CalcT Schemes.Ligero Proofs.LigeroFacts.
Theorem C03_ligero_few_agreements :
  forall (FO : FieldOps) (FL : FieldLaws FO) wf n_rows n_cols n_ext omega rows z value pf r idx res,
    NoDup (dom omega n_ext) -> Forall (fun r => (length r <= n_cols)%nat) rows ->
    Forall (fun i => (i < n_ext)%nat) idx ->
    l_check wf n_rows n_cols n_ext omega (map (encode omega n_ext) rows) z value pf r idx = Ok res ->
    (exists x, eval (lf_v pf) x <> eval (rowcomb rows n_cols (snd (tensor_uni z n_cols n_rows))) x) ->
    forall J, NoDup J -> incl J idx -> (length J < n_cols)%nat.
Proof. exact @ligero_few_agreements. Qed.
Print Assumptions C03_ligero_few_agreements.

Theorem C03_fft_domain_positions_distinct :
  forall (FO : FieldOps) (FL : FieldLaws FO) omega n,
    fpow omega n = 1 -> (forall k, (0 < k < n)%nat -> fpow omega k <> 1) -> NoDup (dom omega n).
Proof. exact @primitive_root_domain_distinct. Qed.
Print Assumptions C03_fft_domain_positions_distinct.

Theorem C03_ligero_wf_few_agreements :
  forall (FO : FieldOps) (FL : FieldLaws FO) n_rows n_cols n_ext omega rows z value pf r idx res wfv,
    NoDup (dom omega n_ext) -> Forall (fun r => (length r <= n_cols)%nat) rows ->
    Forall (fun i => (i < n_ext)%nat) idx ->
    l_check true n_rows n_cols n_ext omega (map (encode omega n_ext) rows) z value pf r idx = Ok res ->
    lf_wf pf = Some wfv ->
    (exists x, eval wfv x <> eval (rowcomb rows n_cols r) x) ->
    forall J, NoDup J -> incl J idx -> (length J < n_cols)%nat.
Proof. exact @ligero_wf_few_agreements. Qed.
Print Assumptions C03_ligero_wf_few_agreements.

(* the agreement bound for any left-multiplying vector b (both Ligero variants) *)
Theorem C03_ligero_few_agreements_any_tensor :
  forall (FO : FieldOps) (FL : FieldLaws FO) wf n_cols n_ext omega rows a b value pf r idx res,
    NoDup (dom omega n_ext) -> Forall (fun r => (length r <= n_cols)%nat) rows ->
    Forall (fun i => (i < n_ext)%nat) idx ->
    l_check_g wf n_cols n_ext omega (map (encode omega n_ext) rows) a b value pf r idx = Ok res ->
    (exists x, eval (lf_v pf) x <> eval (rowcomb rows n_cols b) x) ->
    forall J, NoDup J -> incl J idx -> (length J < n_cols)%nat.
Proof. exact @ligero_few_agreements_g. Qed.
Print Assumptions C03_ligero_few_agreements_any_tensor.

(* Ligero shape: a verdict is only ever given on a proof whose vector has the row length, whose well-formedness vector
   (when the parameters ask for it) is present with the row length, and which carries a column and a path for every
   queried position *)
Theorem C03_ligero_check_shape :
  forall (FO : FieldOps) wf n_cols n_ext omega cext a b value pf r idx res,
    l_check_g wf n_cols n_ext omega cext a b value pf r idx = Ok res ->
    length (lf_v pf) = n_cols /\
    (wf = true -> exists w, lf_wf pf = Some w /\ length w = n_cols) /\
    (length idx <= length (lf_cols pf))%nat /\ (length idx <= length (lf_paths pf))%nat.
Proof. exact @ligero_check_shape. Qed.
Print Assumptions C03_ligero_check_shape.

(* IPA check_combinations: whatever commitments are presented, when the verifier's combination step succeeds the flat
   element list is read back without a shift - the i-th labelled commitment handed to the batch check is the one
   computed for the i-th combination (a stray shifted part on a commitment without degree bound aborts instead) *)
From PC Require Import Schemes.LC Schemes.Marlin Schemes.IPA Schemes.IPABatch Proofs.IPABatchFacts.
Theorem C03_ipa_check_combinations_aligned :
  forall (FO : FieldOps) cm lcs ev info flat ev',
    ilc_verifier_all cm lcs ev = Ok (info, flat, ev') ->
    exists lcm, construct_lcomms info flat = Ok lcm /\ Forall2 (own_lcomm cm) lcs lcm.
Proof. exact @check_combinations_aligned. Qed.
Print Assumptions C03_ipa_check_combinations_aligned.
