(* Single extraction file.  Only directives from Coq's own standard library files
   ExtrOcamlBasic and ExtrOcamlZBigInt are used; none of our own. *)
From Coq Require Import Extraction ExtrOcamlBasic ExtrOcamlZBigInt.
From PC Require Import Base.Field Base.Result Base.Poly Base.Zp Base.OrdMap Base.Codec Schemes.Artefacts Schemes.KZG10 Schemes.LC Schemes.Marlin Schemes.MarlinLC Schemes.CalcT Schemes.StreamKZG Schemes.PST13 Schemes.Sizes Schemes.MLPC Schemes.Sonic Schemes.Hyrax Schemes.IPA Schemes.Ligero Schemes.PST13H Schemes.DefaultBatch Schemes.IPABatch Schemes.PST13Batch Schemes.SonicLC Schemes.LinCodeList.
Extraction Language OCaml.
Separate Extraction Zp.ZpOps KZG10 Poly Result OrdMap LC Marlin MarlinLC CalcT Codec Artefacts StreamKZG PST13 Sizes MLPC Sonic Hyrax IPA Ligero PST13H DefaultBatch IPABatch PST13Batch SonicLC LinCodeList.
